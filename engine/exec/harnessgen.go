package exec

import "strings"

// SymIntrinsics is the source of the intrinsic declarations compiled into the
// package under test for symbolic execution (bodies are never executed).
func SymIntrinsics(pkgName string) []byte {
	return []byte(strings.Replace(symIntrinsicsSrc, "PKGNAME", pkgName, 1))
}

// ReplayIntrinsics is the native variant used to replay counterexamples.
func ReplayIntrinsics(pkgName string) []byte {
	return []byte(strings.Replace(replayIntrinsicsSrc, "PKGNAME", pkgName, 1))
}

const symIntrinsicsSrc = `package PKGNAME

func vrf_nondet_bool(tag string) bool     { panic("vrf intrinsic") }
func vrf_nondet_int(tag string) int       { panic("vrf intrinsic") }
func vrf_nondet_int64(tag string) int64   { panic("vrf intrinsic") }
func vrf_nondet_uint64(tag string) uint64 { panic("vrf intrinsic") }
func vrf_nondet_int32(tag string) int32   { panic("vrf intrinsic") }
func vrf_nondet_uint32(tag string) uint32 { panic("vrf intrinsic") }
func vrf_nondet_uint8(tag string) uint8   { panic("vrf intrinsic") }
func vrf_nondet_string(tag string) string { panic("vrf intrinsic") }
func vrf_choice(tag string, n int) int    { panic("vrf intrinsic") }
func vrf_param(name string) int           { panic("vrf intrinsic") }
func vrf_symbolic() bool                  { panic("vrf intrinsic") }
func vrf_assume(c bool)                   { panic("vrf intrinsic") }
func vrf_assert(c bool, label string)     { panic("vrf intrinsic") }
func vrf_reach(label string)              { panic("vrf intrinsic") }
func vrf_event(what string)               { panic("vrf intrinsic") }
func vrf_note_int(tag string, v int)      { panic("vrf intrinsic") }
func vrf_note_bool(tag string, v bool)    { panic("vrf intrinsic") }
func vrf_note_str(tag string, v string)   { panic("vrf intrinsic") }
func vrf_and(a, b bool) bool              { panic("vrf intrinsic") }
func vrf_or(a, b bool) bool               { panic("vrf intrinsic") }
func vrf_implies(a, b bool) bool          { panic("vrf intrinsic") }
func vrf_ite_int(c bool, a, b int) int    { panic("vrf intrinsic") }
func vrf_ite_str(c bool, a, b string) string { panic("vrf intrinsic") }
func vrf_strsuffix(s, suffix string) bool { panic("vrf intrinsic") }
func vrf_strprefix(s, prefix string) bool { panic("vrf intrinsic") }
func vrf_strcontains(s, sub string) bool  { panic("vrf intrinsic") }
func vrf_protect(field, mutex interface{}, label string) { panic("vrf intrinsic") }
func vrf_interference(mutex interface{}, f func())       { panic("vrf intrinsic") }
func vrf_shared(field interface{}, f func())             { panic("vrf intrinsic") }
func vrf_yield()                          { panic("vrf intrinsic") }
func vrf_advance_time(ms int)             { panic("vrf intrinsic") }
func vrf_elapse(ns int64)                 { panic("vrf intrinsic") }
func vrf_env(prefix, field string, set bool, value string) { panic("vrf intrinsic") }
func vrf_blocked_goroutines() int         { panic("vrf intrinsic") }
func vrf_now() int64                      { panic("vrf intrinsic") }
func vrf_locks_held() int                 { panic("vrf intrinsic") }
func vrf_uf_bool(name string, arg string) bool  { panic("vrf intrinsic") }
func vrf_uf_str(name string, arg string) string { panic("vrf intrinsic") }
func vrf_uf_u64(name string, arg string) uint64 { panic("vrf intrinsic") }
`

const replayIntrinsicsSrc = `package PKGNAME

import (
	"encoding/json"
	"fmt"
	"os"
	"strconv"
	"strings"
	"time"
)

type vrfModelVal struct {
	Tag  string ` + "`json:\"tag\"`" + `
	Kind string ` + "`json:\"kind\"`" + `
	Val  string ` + "`json:\"val\"`" + `
}

type vrfCex struct {
	Entry  string         ` + "`json:\"entry\"`" + `
	Label  string         ` + "`json:\"label\"`" + `
	Model  []vrfModelVal  ` + "`json:\"model\"`" + `
	Params map[string]int ` + "`json:\"params\"`" + `
}

var vrfState struct {
	cex     vrfCex
	pos     int
	failed  map[string]int
	reached map[string]int
	assumeFailed bool
	desync  int
}

type vrfAssumeFailed struct{}

func vrfLoadCex() {
	vrfState.failed = map[string]int{}
	vrfState.reached = map[string]int{}
	vrfState.pos = 0
	vrfState.assumeFailed = false
	b, err := os.ReadFile(os.Getenv("VRF_CEX"))
	if err != nil {
		panic("VRF_CEX: " + err.Error())
	}
	if err := json.Unmarshal(b, &vrfState.cex); err != nil {
		panic("VRF_CEX: " + err.Error())
	}
}

func vrfNext(tag, kind string) string {
	// values of engine-internal inputs (the modelled clock) are not consumed natively
	for vrfState.pos < len(vrfState.cex.Model) && vrfState.cex.Model[vrfState.pos].Tag == "time.Now" {
		vrfState.pos++
	}
	if vrfState.pos >= len(vrfState.cex.Model) {
		vrfState.desync++
		switch kind {
		case "bool":
			return "false"
		case "string":
			return ""
		}
		return "0"
	}
	mv := vrfState.cex.Model[vrfState.pos]
	if mv.Tag != tag {
		// inputs drawn only by engine-side models are not consumed natively: skip ahead
		for j := vrfState.pos; j < len(vrfState.cex.Model); j++ {
			if vrfState.cex.Model[j].Tag == tag {
				vrfState.pos = j
				mv = vrfState.cex.Model[j]
				break
			}
		}
	}
	vrfState.pos++
	if mv.Tag != tag {
		vrfState.desync++
		fmt.Printf("VRF-DESYNC want tag %q got %q at %d\n", tag, mv.Tag, vrfState.pos-1)
	}
	return mv.Val
}

func vrf_nondet_bool(tag string) bool { return vrfNext(tag, "bool") == "true" }
func vrf_nondet_int(tag string) int {
	v, _ := strconv.ParseInt(vrfNext(tag, "int"), 10, 64)
	return int(v)
}
func vrf_nondet_int64(tag string) int64 {
	v, _ := strconv.ParseInt(vrfNext(tag, "int64"), 10, 64)
	return v
}
func vrf_nondet_uint64(tag string) uint64 {
	v, _ := strconv.ParseUint(vrfNext(tag, "uint64"), 10, 64)
	return v
}
func vrf_nondet_int32(tag string) int32 {
	v, _ := strconv.ParseInt(vrfNext(tag, "int32"), 10, 64)
	return int32(v)
}
func vrf_nondet_uint32(tag string) uint32 {
	v, _ := strconv.ParseUint(vrfNext(tag, "uint32"), 10, 64)
	return uint32(v)
}
func vrf_nondet_uint8(tag string) uint8 {
	v, _ := strconv.ParseUint(vrfNext(tag, "uint8"), 10, 64)
	return uint8(v)
}
func vrf_nondet_string(tag string) string { return vrfNext(tag, "string") }
func vrf_choice(tag string, n int) int {
	v, _ := strconv.ParseInt(vrfNext(tag, "int"), 10, 64)
	return int(v)
}
func vrf_param(name string) int { return vrfState.cex.Params[name] }
func vrf_symbolic() bool        { return false }
func vrf_assume(c bool) {
	if !c {
		vrfState.assumeFailed = true
		panic(vrfAssumeFailed{})
	}
}
func vrf_assert(c bool, label string) {
	if !c {
		vrfState.failed[label]++
		fmt.Printf("VRF-ASSERT-FAILED %s\n", label)
	}
}
func vrf_reach(label string)            { vrfState.reached[label]++ }
func vrf_event(what string)             { fmt.Printf("VRF-EVENT %s\n", what) }
func vrf_note_int(tag string, v int)    { fmt.Printf("VRF-NOTE %s=%d\n", tag, v) }
func vrf_note_bool(tag string, v bool)  { fmt.Printf("VRF-NOTE %s=%v\n", tag, v) }
func vrf_note_str(tag string, v string) { fmt.Printf("VRF-NOTE %s=%q\n", tag, v) }
func vrf_and(a, b bool) bool     { return a && b }
func vrf_or(a, b bool) bool      { return a || b }
func vrf_implies(a, b bool) bool { return !a || b }
func vrf_ite_int(c bool, a, b int) int {
	if c {
		return a
	}
	return b
}
func vrf_ite_str(c bool, a, b string) string {
	if c {
		return a
	}
	return b
}
func vrf_now() int64 {
	// the solver's value of the first time.Now of the path is not used natively:
	// the wall clock is
	return time.Now().UnixNano()
}
func vrf_locks_held() int { return 0 }
func vrf_protect(field, mutex interface{}, label string) {}
func vrf_interference(mutex interface{}, f func())       {}
func vrf_shared(field interface{}, f func())             {}
func vrf_yield()          { time.Sleep(20 * time.Millisecond) }
func vrf_advance_time(ms int) {
	time.Sleep(time.Duration(ms) * time.Millisecond)
}
func vrf_blocked_goroutines() int { return 0 }

// natively time really passes, scaled down by vrfTimeScale (a harness may set it)
var vrfTimeScale int64 = 1

func vrf_elapse(ns int64) { time.Sleep(time.Duration(ns / vrfTimeScale)) }

func vrf_env(prefix, field string, set bool, value string) {
	key := strings.ToUpper(prefix + "_" + field)
	if set {
		os.Setenv(key, value)
	} else {
		os.Unsetenv(key)
	}
}
func vrf_strsuffix(s, suffix string) bool { return len(s) >= len(suffix) && s[len(s)-len(suffix):] == suffix }
func vrf_strprefix(s, prefix string) bool { return len(s) >= len(prefix) && s[:len(prefix)] == prefix }
func vrf_strcontains(s, sub string) bool {
	for i := 0; i+len(sub) <= len(s); i++ {
		if s[i:i+len(sub)] == sub {
			return true
		}
	}
	return false
}
func vrf_uf_bool(name string, arg string) bool  { return false }
func vrf_uf_str(name string, arg string) string { return "" }
func vrf_uf_u64(name string, arg string) uint64 { return 0 }
`

// ReplayTest is the generated test driving one entry natively.
func ReplayTest(pkgName string) []byte {
	return []byte(strings.Replace(replayTestSrc, "PKGNAME", pkgName, 1))
}

const replayTestSrc = `package PKGNAME

import (
	"fmt"
	"os"
	"testing"
)

func TestVrfReplay(t *testing.T) {
	vrfLoadCex()
	entry := vrfEntries[vrfState.cex.Entry]
	if entry == nil {
		t.Fatalf("unknown entry %s", vrfState.cex.Entry)
	}
	func() {
		defer func() {
			if r := recover(); r != nil {
				if _, ok := r.(vrfAssumeFailed); ok {
					fmt.Println("VRF-ASSUME-FAILED")
					return
				}
				fmt.Printf("VRF-PANIC %v\n", r)
				vrfState.failed[vrfState.cex.Entry+".no-panic"]++
			}
		}()
		entry()
	}()
	if vrfState.failed[vrfState.cex.Label] > 0 {
		fmt.Printf("VRF-REPRODUCED %s\n", vrfState.cex.Label)
	} else {
		fmt.Printf("VRF-NOT-REPRODUCED %s (desync=%d)\n", vrfState.cex.Label, vrfState.desync)
	}
	_ = os.Stdout
}
`
