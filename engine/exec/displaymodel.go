package exec

import (
	"fmt"
	"go/types"
	"reflect"
	"strings"

	"golang.org/x/tools/go/ssa"

	"verif/engine/sym"
)

// Model of config.DisplayJSON (reflect.StructOf + JSON re-encoding): the
// document is built as TEXT (an SMT string: constant skeleton, symbolic values
// in place, no indentation, no escaping of the values), with every field tagged
// hidden:"true" rendered as "XXX_hidden_XXX". The []byte result is a text
// handle; string(handle) yields the text.

func (m *Machine) textHandle(t *sym.Term) []Value {
	m.texts = append(m.texts, t)
	id := uint64(len(m.texts))
	out := make([]Value, 9)
	out[0] = sym.BVConst(8, 0xA9)
	for i := 0; i < 8; i++ {
		out[1+i] = sym.BVConst(8, (id>>(8*uint(7-i)))&0xff)
	}
	return out
}

func (m *Machine) textOfHandle(s []Value) (*sym.Term, bool) {
	if len(s) != 9 {
		return nil, false
	}
	var id uint64
	for i, b := range s {
		t, ok := b.(*sym.Term)
		if !ok || !t.Const {
			return nil, false
		}
		if i == 0 {
			if t.U != 0xA9 {
				return nil, false
			}
			continue
		}
		id = id<<8 | t.U
	}
	if id == 0 || id > uint64(len(m.texts)) {
		return nil, false
	}
	return m.texts[id-1], true
}

func (m *Machine) jsonTextOf(T types.Type, v Value, depth int) *sym.Term {
	if depth > 6 {
		m.unsupported("display JSON nesting too deep")
	}
	q := func(t *sym.Term) *sym.Term { return sym.Concat(sym.Concat(sym.Str(`"`), t), sym.Str(`"`)) }
	switch u := T.Underlying().(type) {
	case *types.Basic:
		t := m.term(v)
		switch {
		case u.Info()&types.IsString != 0:
			return q(t)
		case u.Info()&types.IsBoolean != 0:
			return sym.Ite(t, sym.Str("true"), sym.Str("false"))
		case u.Info()&types.IsInteger != 0:
			_, signed := widthOf(u)
			if t.Const {
				if signed {
					return sym.Str(fmt.Sprintf("%d", t.SInt()))
				}
				return sym.Str(fmt.Sprintf("%d", t.U))
			}
			if t.Sort.W != 64 {
				t = sym.Resize(t, 64, signed)
			}
			return m.fmtTerm(t, signed)
		case u.Info()&types.IsFloat != 0:
			if t.Const {
				return sym.Str(fmt.Sprintf("%v", t.F))
			}
		}
	case *types.Struct:
		st, _ := v.(Struct)
		out := sym.Str("{")
		first := true
		for i := 0; i < u.NumFields(); i++ {
			f := u.Field(i)
			if !f.Exported() {
				continue
			}
			tag := reflect.StructTag(u.Tag(i))
			name := strings.Split(tag.Get("json"), ",")[0]
			if name == "-" {
				continue
			}
			if name == "" {
				name = f.Name()
			}
			if !first {
				out = sym.Concat(out, sym.Str(","))
			}
			first = false
			out = sym.Concat(out, sym.Str(`"`+name+`":`))
			if tag.Get("hidden") == "true" {
				out = sym.Concat(out, sym.Str(`"XXX_hidden_XXX"`))
			} else {
				out = sym.Concat(out, m.jsonTextOf(f.Type(), st[i], depth+1))
			}
		}
		return sym.Concat(out, sym.Str("}"))
	case *types.Pointer:
		p, _ := v.(*Value)
		if p == nil {
			return sym.Str("null")
		}
		return m.jsonTextOf(u.Elem(), *p, depth+1)
	case *types.Slice:
		s, _ := v.([]Value)
		if s == nil {
			return sym.Str("null")
		}
		out := sym.Str("[")
		for i, e := range s {
			if i > 0 {
				out = sym.Concat(out, sym.Str(","))
			}
			out = sym.Concat(out, m.jsonTextOf(u.Elem(), e, depth+1))
		}
		return sym.Concat(out, sym.Str("]"))
	case *types.Map:
		mp, _ := v.(*Map)
		if mp == nil {
			return sym.Str("null")
		}
		out := sym.Str("{")
		n := 0
		for _, e := range mp.entries {
			if e.deleted {
				continue
			}
			if n > 0 {
				out = sym.Concat(out, sym.Str(","))
			}
			n++
			out = sym.Concat(sym.Concat(out, q(m.term(e.key))), sym.Str(":"))
			out = sym.Concat(out, m.jsonTextOf(u.Elem(), e.val, depth+1))
		}
		return sym.Concat(out, sym.Str("}"))
	}
	m.unsupported("display JSON of %v", T)
	return nil
}

func init() {
	natives["github.com/ipfs/ipfs-cluster/config.DisplayJSON"] = func(m *Machine, c *frame, fn *ssa.Function, a []Value) Value {
		v, _ := a[0].(Iface)
		T, val := v.T, v.V
		if pt, ok := T.(*types.Pointer); ok {
			p, _ := val.(*Value)
			if p == nil {
				m.goPanicf("reflect: call of reflect.Value.Interface on zero Value")
			}
			T, val = pt.Elem(), load(p)
		}
		if _, ok := T.Underlying().(*types.Struct); !ok {
			m.goPanicf("the given argument should be a struct")
		}
		return Tuple{m.textHandle(m.jsonTextOf(T, val, 0)), Iface{}}
	}
}
