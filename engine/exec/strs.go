package exec

import (
	"golang.org/x/tools/go/ssa"

	"verif/engine/sym"
)

// String-theory models for library functions that index strings byte-wise in
// their Go bodies; used only when an argument is symbolic (concrete calls run
// the real SSA).

func symArgs(m *Machine, a []Value) bool {
	for _, v := range a {
		if t, ok := v.(*sym.Term); ok && !t.Const {
			return true
		}
	}
	return false
}

func orReal(name string, model stubFn) stubFn {
	return func(m *Machine, c *frame, fn *ssa.Function, a []Value) Value {
		if !symArgs(m, a) {
			if fn.Pkg != nil { // Build is once-guarded and waits for a build in progress on another worker
				fn.Pkg.Build()
			}
			return m.callSSA(c, fn, a, nil)
		}
		return model(m, c, fn, a)
	}
}

func registerStrings() {
	// strings.Replace / ReplaceAll on a symbolic subject: only the case where the
	// needle cannot occur is modelled (otherwise the path is unsupported)
	for _, nm := range []string{"strings.Replace", "strings.ReplaceAll"} {
		nm := nm
		concrete := natives[nm]
		natives[nm] = func(m *Machine, c *frame, fn *ssa.Function, a []Value) Value {
			if !symArgs(m, a) {
				return concrete(m, c, fn, a)
			}
			s, old := m.term(a[0]), m.term(a[1])
			if m.branch(sym.StrContains(s, old)) {
				m.unsupported("%s on a symbolic string containing the pattern", nm)
			}
			return s
		}
	}
	natives["strings.Split"] = func(concrete stubFn) stubFn {
		return func(m *Machine, c *frame, fn *ssa.Function, a []Value) Value {
			if !symArgs(m, a) {
				return concrete(m, c, fn, a)
			}
			s, sep := m.term(a[0]), m.term(a[1])
			if m.branch(sym.StrContains(s, sep)) {
				m.unsupported("strings.Split on a symbolic string containing the separator")
			}
			return []Value{s}
		}
	}(natives["strings.Split"])
	natives["strings.HasPrefix"] = orReal("strings.HasPrefix", func(m *Machine, c *frame, fn *ssa.Function, a []Value) Value {
		return sym.StrPrefixOf(m.term(a[1]), m.term(a[0]))
	})
	natives["strings.HasSuffix"] = orReal("strings.HasSuffix", func(m *Machine, c *frame, fn *ssa.Function, a []Value) Value {
		return sym.StrSuffixOf(m.term(a[1]), m.term(a[0]))
	})
	natives["strings.Contains"] = orReal("strings.Contains", func(m *Machine, c *frame, fn *ssa.Function, a []Value) Value {
		return sym.StrContains(m.term(a[0]), m.term(a[1]))
	})
	natives["strings.TrimPrefix"] = orReal("strings.TrimPrefix", func(m *Machine, c *frame, fn *ssa.Function, a []Value) Value {
		s, p := m.term(a[0]), m.term(a[1])
		has := sym.StrPrefixOf(p, s)
		if m.branch(has) {
			return sym.StrSubstr(s, sym.StrLen(p), sym.Sub(sym.StrLen(s), sym.StrLen(p)))
		}
		return s
	})
	natives["strings.TrimSuffix"] = orReal("strings.TrimSuffix", func(m *Machine, c *frame, fn *ssa.Function, a []Value) Value {
		s, p := m.term(a[0]), m.term(a[1])
		has := sym.StrSuffixOf(p, s)
		if m.branch(has) {
			return sym.StrSubstr(s, sym.BVConst(64, 0), sym.Sub(sym.StrLen(s), sym.StrLen(p)))
		}
		return s
	})
}
