package exec

import (
	"fmt"
	"go/types"
	"strings"
	"time"

	"golang.org/x/tools/go/ssa"

	"verif/engine/sym"
)

// packages whose functions are no-ops returning zero values (logging, stats)
var noopPkgs = []string{
	"go.uber.org/zap",
	"github.com/ipfs/go-log",
	"go.opencensus.io/stats",
	"go.opencensus.io/tag",
	"log",
	"runtime/debug",
}

func fnPkgPath(fn *ssa.Function) string {
	if fn.Pkg != nil {
		return fn.Pkg.Pkg.Path()
	}
	if o := fn.Object(); o != nil && o.Pkg() != nil {
		return o.Pkg().Path()
	}
	if fn.Signature.Recv() != nil {
		t := fn.Signature.Recv().Type()
		if p, ok := t.(*types.Pointer); ok {
			t = p.Elem()
		}
		if n, ok := t.(*types.Named); ok && n.Obj().Pkg() != nil {
			return n.Obj().Pkg().Path()
		}
	}
	return ""
}

func zeroStub(m *Machine, caller *frame, fn *ssa.Function, args []Value) Value {
	return zeroResults(fn.Signature)
}

// dummyStub is used for no-op packages: pointer results are fresh zero objects
// (so that field selection on e.g. a logger does not fault), everything else zero.
func dummyStub(m *Machine, caller *frame, fn *ssa.Function, args []Value) Value {
	r := fn.Signature.Results()
	mk := func(t types.Type) Value {
		if p, ok := t.Underlying().(*types.Pointer); ok {
			if _, isStruct := p.Elem().Underlying().(*types.Struct); isStruct {
				c := new(Value)
				*c = zero(p.Elem())
				return c
			}
		}
		return zero(t)
	}
	switch r.Len() {
	case 0:
		return nil
	case 1:
		return mk(r.At(0).Type())
	}
	t := make(Tuple, r.Len())
	for i := range t {
		t[i] = mk(r.At(i).Type())
	}
	return t
}

func (e *Engine) lookupStub(m *Machine, fn *ssa.Function, name string) stubFn {
	if fn.Pkg == e.pkg && strings.HasPrefix(fn.Name(), "vrf_") {
		if h := e.intrinsic(fn.Name()); h != nil {
			return h
		}
		if h := e.fsIntrinsic(fn.Name()); h != nil {
			return h
		}
		m.end(endEngineError, "unknown intrinsic %s", fn.Name())
	}
	if m.cfg.Redirect != nil {
		if to, ok := m.cfg.Redirect[name]; ok {
			target := e.pkg.Func(to)
			if target == nil {
				m.end(endEngineError, "redirect target %s not found", to)
			}
			return func(m *Machine, caller *frame, fn *ssa.Function, args []Value) Value {
				return m.callSSA(caller, target, args, nil)
			}
		}
	}
	if h, ok := natives[name]; ok {
		return h
	}
	pp := fnPkgPath(fn)
	for _, p := range noopPkgs {
		if pp == p || strings.HasPrefix(pp, p+"/") {
			return dummyStub
		}
	}
	for _, pat := range m.cfg.Opaque {
		if matchName(pat, name) {
			return func(m *Machine, caller *frame, fn *ssa.Function, args []Value) Value {
				return m.opaqueResults(fn.Signature, "result of "+name+" (declared opaque)")
			}
		}
	}
	return nil
}

var natives = map[string]stubFn{}

func init() {
	for k, v := range coreNatives() {
		natives[k] = v
	}
	registerRPC()
	registerStrings()
}

func coreNatives() map[string]stubFn {
	return map[string]stubFn{
		// ---- tracing
		"go.opencensus.io/trace.StartSpan": func(m *Machine, c *frame, fn *ssa.Function, a []Value) Value {
			return Tuple{a[0], (*Value)(nil)}
		},
		"go.opencensus.io/trace.FromContext":            zeroStub,
		"go.opencensus.io/trace.NewContext":             func(m *Machine, c *frame, fn *ssa.Function, a []Value) Value { return a[0] },
		"(*go.opencensus.io/trace.Span).End":            zeroStub,
		"(*go.opencensus.io/trace.Span).AddAttributes":  zeroStub,
		"(*go.opencensus.io/trace.Span).SetStatus":      zeroStub,
		"(*go.opencensus.io/trace.Span).Annotate":       zeroStub,
		"(*go.opencensus.io/trace.Span).Annotatef":      zeroStub,
		"(*go.opencensus.io/trace.Span).SpanContext":    zeroStub,
		"(*go.opencensus.io/trace.Span).IsRecordingEvents": zeroStub,
		"go.opencensus.io/trace.StringAttribute":        zeroStub,
		"go.opencensus.io/trace.Int64Attribute":         zeroStub,
		"go.opencensus.io/trace.BoolAttribute":          zeroStub,

		// ---- fmt
		"fmt.Sprintf": func(m *Machine, c *frame, fn *ssa.Function, a []Value) Value {
			return m.sprintf(m.term(a[0]), a[1].([]Value))
		},
		"fmt.Sprint":   func(m *Machine, c *frame, fn *ssa.Function, a []Value) Value { return m.sprint(a[0].([]Value), false) },
		"fmt.Sprintln": func(m *Machine, c *frame, fn *ssa.Function, a []Value) Value { return m.sprint(a[0].([]Value), true) },
		"fmt.Errorf":   stubErrorf,
		"fmt.Println":  zeroStub,
		"fmt.Printf":   zeroStub,
		"fmt.Print":    zeroStub,
		"fmt.Fprintf":  zeroStub,
		"fmt.Fprintln": zeroStub,
		"fmt.Fprint":   zeroStub,

		"errors.Is":     stubErrorsIs,
		"errors.Unwrap": stubErrorsUnwrap,

		// ---- sync
		"(*sync.Mutex).Lock":      func(m *Machine, c *frame, fn *ssa.Function, a []Value) Value { m.lock(a[0], true, "Lock"); return nil },
		"(*sync.Mutex).Unlock":    func(m *Machine, c *frame, fn *ssa.Function, a []Value) Value { m.unlock(a[0], true); return nil },
		"(*sync.Mutex).TryLock":   func(m *Machine, c *frame, fn *ssa.Function, a []Value) Value { return sym.Bool(m.tryLock(a[0])) },
		"(*sync.RWMutex).Lock":    func(m *Machine, c *frame, fn *ssa.Function, a []Value) Value { m.lock(a[0], true, "Lock"); return nil },
		"(*sync.RWMutex).Unlock":  func(m *Machine, c *frame, fn *ssa.Function, a []Value) Value { m.unlock(a[0], true); return nil },
		"(*sync.RWMutex).RLock":   func(m *Machine, c *frame, fn *ssa.Function, a []Value) Value { m.lock(a[0], false, "RLock"); return nil },
		"(*sync.RWMutex).RUnlock": func(m *Machine, c *frame, fn *ssa.Function, a []Value) Value { m.unlock(a[0], false); return nil },
		"(*sync.WaitGroup).Add": func(m *Machine, c *frame, fn *ssa.Function, a []Value) Value {
			d := m.wg(a[0])
			n := m.term(a[1])
			if !n.Const {
				m.unsupported("WaitGroup.Add(symbolic)")
			}
			d.n += int(n.SInt())
			return nil
		},
		"(*sync.WaitGroup).Done": func(m *Machine, c *frame, fn *ssa.Function, a []Value) Value { m.wg(a[0]).n--; return nil },
		"(*sync.WaitGroup).Wait": func(m *Machine, c *frame, fn *ssa.Function, a []Value) Value {
			if d := m.wg(a[0]); d.n > 0 {
				if m.cfg.GoMode == "inline" {
					m.blockedForever(fmt.Sprintf("WaitGroup.Wait with counter %d and no goroutine left to run", d.n))
				}
				m.note("WaitGroup.Wait returned although %d goroutine(s) were not executed (goroutines are outside the claim)", d.n)
			}
			return nil
		},
		"(*sync.Once).Do": func(m *Machine, c *frame, fn *ssa.Function, a []Value) Value {
			p := a[0].(*Value)
			n := m.natives[p]
			if n == nil {
				m.natives[p] = m.newNative("once", nil)
				m.call(c, 0, a[1], nil)
			}
			return nil
		},

		// ---- atomic
		"sync/atomic.LoadInt32":  atomicLoad,
		"sync/atomic.LoadInt64":  atomicLoad,
		"sync/atomic.LoadUint32": atomicLoad,
		"sync/atomic.LoadUint64": atomicLoad,
		"sync/atomic.StoreInt32": atomicStore, "sync/atomic.StoreInt64": atomicStore,
		"sync/atomic.StoreUint32": atomicStore, "sync/atomic.StoreUint64": atomicStore,
		"sync/atomic.AddInt32": atomicAdd, "sync/atomic.AddInt64": atomicAdd,
		"sync/atomic.AddUint32": atomicAdd, "sync/atomic.AddUint64": atomicAdd,
		"sync/atomic.CompareAndSwapInt32": atomicCAS, "sync/atomic.CompareAndSwapInt64": atomicCAS,
		"sync/atomic.CompareAndSwapUint32": atomicCAS, "sync/atomic.CompareAndSwapUint64": atomicCAS,

		// ---- context
		"context.WithCancel": func(m *Machine, c *frame, fn *ssa.Function, a []Value) Value {
			n, cancel := m.newCtx(a[0], false)
			return Tuple{m.ctxIface(n), cancel}
		},
		"context.WithTimeout": func(m *Machine, c *frame, fn *ssa.Function, a []Value) Value {
			n, cancel := m.newCtx(a[0], true)
			return Tuple{m.ctxIface(n), cancel}
		},
		"context.WithDeadline": func(m *Machine, c *frame, fn *ssa.Function, a []Value) Value {
			n, cancel := m.newCtx(a[0], true)
			return Tuple{m.ctxIface(n), cancel}
		},
		"context.WithValue": func(m *Machine, c *frame, fn *ssa.Function, a []Value) Value {
			n, _ := m.newCtx(a[0], false)
			d := n.Data.(*ctxData)
			d.hasKV, d.key, d.val = true, a[1], a[2]
			return m.ctxIface(n)
		},

		// ---- time
		"time.Now":   func(m *Machine, c *frame, fn *ssa.Function, a []Value) Value { return m.nowValue() },
		"time.Sleep": zeroStub,
		"time.Since": func(m *Machine, c *frame, fn *ssa.Function, a []Value) Value {
			_, ns := timeParts(a[0])
			return sym.Sub(m.nowTerm(), ns)
		},
		"time.Until": func(m *Machine, c *frame, fn *ssa.Function, a []Value) Value {
			_, ns := timeParts(a[0])
			return sym.Sub(ns, m.nowTerm())
		},
		"time.Unix": func(m *Machine, c *frame, fn *ssa.Function, a []Value) Value {
			sec, nsec := m.term(a[0]), m.term(a[1])
			if !sec.Const {
				// instants are a 64-bit nanosecond line: whole seconds beyond +-292 years
				// from 1970 are outside the model
				m.assertPC(sym.SLe(sym.BVConst(64, uint64(-9200000000&(1<<64-1))), sec))
				m.assertPC(sym.SLe(sec, sym.BVConst(64, 9200000000)))
			}
			return m.mkTime(sym.True(), sym.Add(sym.Mul(sec, sym.BVConst(64, 1000000000)), nsec))
		},
		"(time.Time).UnixNano": func(m *Machine, c *frame, fn *ssa.Function, a []Value) Value { _, ns := timeParts(a[0]); return ns },
		"(time.Time).Unix": func(m *Machine, c *frame, fn *ssa.Function, a []Value) Value {
			_, ns := timeParts(a[0])
			// whole seconds built by time.Unix(sec, 0): sec*1e9/1e9 == sec within the modelled range
			if ns.Op == "bvmul" && len(ns.Args) == 2 && ns.Args[1].Const && ns.Args[1].U == 1000000000 {
				return ns.Args[0]
			}
			return sym.SDiv(ns, sym.BVConst(64, 1000000000))
		},
		"(time.Time).IsZero": func(m *Machine, c *frame, fn *ssa.Function, a []Value) Value { nz, _ := timeParts(a[0]); return sym.Not(nz) },
		"(time.Time).After": func(m *Machine, c *frame, fn *ssa.Function, a []Value) Value {
			tz, t := timeParts(a[0])
			uz, u := timeParts(a[1])
			return sym.And(tz, sym.Or(sym.Not(uz), sym.SLt(u, t)))
		},
		"(time.Time).Before": func(m *Machine, c *frame, fn *ssa.Function, a []Value) Value {
			tz, t := timeParts(a[0])
			uz, u := timeParts(a[1])
			return sym.And(uz, sym.Or(sym.Not(tz), sym.SLt(t, u)))
		},
		"(time.Time).Equal": func(m *Machine, c *frame, fn *ssa.Function, a []Value) Value {
			tz, t := timeParts(a[0])
			uz, u := timeParts(a[1])
			return sym.And(sym.Eq(tz, uz), sym.Or(sym.Not(tz), sym.Eq(t, u)))
		},
		"(time.Time).Add": func(m *Machine, c *frame, fn *ssa.Function, a []Value) Value {
			tz, t := timeParts(a[0])
			return m.mkTime(tz, sym.Add(t, m.term(a[1])))
		},
		"(time.Time).Sub": func(m *Machine, c *frame, fn *ssa.Function, a []Value) Value {
			_, t := timeParts(a[0])
			_, u := timeParts(a[1])
			return sym.Sub(t, u)
		},
		"(time.Time).Round":    func(m *Machine, c *frame, fn *ssa.Function, a []Value) Value { return a[0] },
		"(time.Time).Truncate": func(m *Machine, c *frame, fn *ssa.Function, a []Value) Value { return a[0] },
		"(time.Time).UTC":      func(m *Machine, c *frame, fn *ssa.Function, a []Value) Value { return a[0] },
		"(time.Time).Local":    func(m *Machine, c *frame, fn *ssa.Function, a []Value) Value { return a[0] },
		"(time.Time).String": func(m *Machine, c *frame, fn *ssa.Function, a []Value) Value {
			return sym.Var(m.freshName("timestr"), sym.StrSort)
		},
		// zones and text forms, for CONCRETE instants only: the real time package
		// does the work (a zone is carried in the flag word: 1 = UTC, zoneBase+offset
		// = a fixed zone); symbolic instants have no text form in the model
		"time.FixedZone": func(m *Machine, c *frame, fn *ssa.Function, a []Value) Value {
			off := m.term(a[1])
			if !off.Const {
				m.unsupported("time.FixedZone with a symbolic offset")
			}
			p := new(Value)
			*p = zero(m.eng.nativeType("time.Location"))
			m.natives[p] = m.newNative("zone", int(off.SInt()))
			return p
		},
		"(time.Time).In": func(m *Machine, c *frame, fn *ssa.Function, a []Value) Value {
			st := a[0].(Struct)
			lp, _ := a[1].(*Value)
			off := 0
			if lp != nil {
				if n := m.natives[lp]; n != nil {
					off, _ = n.Data.(int)
				}
			}
			nz, _ := timeParts(a[0])
			if !nz.Const || !nz.IsTrue() {
				return a[0]
			}
			return Struct{sym.BVConst(64, uint64(timeZoneBase+off)), st[1], (*Value)(nil)}
		},
		"(time.Time).MarshalText": func(m *Machine, c *frame, fn *ssa.Function, a []Value) Value {
			t := m.concreteTime(a[0], "Time.MarshalText")
			b, err := t.MarshalText()
			if err != nil {
				return Tuple{[]Value(nil), m.newErrorString(sym.Str(err.Error()))}
			}
			return Tuple{bytesOf(string(b)), Iface{}}
		},
		"(time.Time).Format": func(m *Machine, c *frame, fn *ssa.Function, a []Value) Value {
			t := m.concreteTime(a[0], "Time.Format")
			l := m.term(a[1])
			if !l.Const {
				m.unsupported("Time.Format with a symbolic layout")
			}
			return sym.Str(t.Format(l.S))
		},
		"(*time.Time).UnmarshalText": func(m *Machine, c *frame, fn *ssa.Function, a []Value) Value {
			data := m.concreteBytes(a[1], "Time.UnmarshalText")
			var t time.Time
			if err := t.UnmarshalText(data); err != nil {
				return m.newErrorString(sym.Str(err.Error()))
			}
			store(m.deref(c, a[0]), m.timeValueOf(t))
			return Iface{}
		},
		"time.Parse": func(m *Machine, c *frame, fn *ssa.Function, a []Value) Value {
			l, v := m.term(a[0]), m.term(a[1])
			if !l.Const || !v.Const {
				m.unsupported("time.Parse of symbolic text")
			}
			t, err := time.Parse(l.S, v.S)
			if err != nil {
				return Tuple{m.mkTime(sym.False(), sym.BVConst(64, 0)), m.newErrorString(sym.Str(err.Error()))}
			}
			return Tuple{m.timeValueOf(t), Iface{}}
		},
		"(time.Duration).String": func(m *Machine, c *frame, fn *ssa.Function, a []Value) Value {
			d := m.term(a[0])
			if d.Const {
				return sym.Str(time.Duration(d.SInt()).String())
			}
			t := sym.UF("uf_durstr", sym.StrSort, d)
			// Duration.String and time.ParseDuration are an inverse pair; never empty
			m.assertPC(sym.Not(sym.Eq(t, sym.Str(""))))
			m.assertPC(sym.UF("uf_dur_ok", sym.BoolSort, t))
			m.assertPC(sym.Eq(sym.UF("uf_dur_val", sym.BV(64), t), d))
			return t
		},
		"time.ParseDuration": func(m *Machine, c *frame, fn *ssa.Function, a []Value) Value {
			s := m.term(a[0])
			if s.Const {
				d, err := time.ParseDuration(s.S)
				if err != nil {
					return Tuple{sym.BVConst(64, 0), m.newErrorString(sym.Str(err.Error()))}
				}
				return Tuple{sym.BVConst(64, uint64(d)), Iface{}}
			}
			constLeaves(s, func(cst *sym.Term) {
				d, err := time.ParseDuration(cst.S)
				m.assertPC(sym.Eq(sym.UF("uf_dur_ok", sym.BoolSort, cst), sym.Bool(err == nil)))
				if err == nil {
					m.assertPC(sym.Eq(sym.UF("uf_dur_val", sym.BV(64), cst), sym.BVConst(64, uint64(d))))
				}
			})
			if m.branch(sym.UF("uf_dur_ok", sym.BoolSort, s)) {
				return Tuple{sym.UF("uf_dur_val", sym.BV(64), s), Iface{}}
			}
			return Tuple{sym.BVConst(64, 0), m.newErrorString(sym.Var(m.freshName("durerr"), sym.StrSort))}
		},

		// ---- misc runtime
		"runtime.KeepAlive":   zeroStub,
		"runtime.Gosched":     zeroStub,
		"runtime.SetFinalizer": zeroStub,
		"os.Getenv": func(m *Machine, c *frame, fn *ssa.Function, a []Value) Value { return sym.Str("") },

	}
}

// ---------------------------------------------------------------------------
// fmt

func (m *Machine) goValOf(v Value) (interface{}, bool) {
	switch v := v.(type) {
	case Iface:
		if v.T == nil {
			return nil, true
		}
		// values with String/Error methods are rendered opaquely
		if ms := m.eng.prog.MethodSets.MethodSet(v.T); ms.Lookup(nil, "String") != nil || ms.Lookup(nil, "Error") != nil {
			return nil, false
		}
		b, ok := v.T.Underlying().(*types.Basic)
		if !ok {
			return nil, false
		}
		t, ok := v.V.(*sym.Term)
		if !ok || !t.Const {
			return nil, false
		}
		switch {
		case b.Info()&types.IsBoolean != 0:
			return t.U == 1, true
		case b.Info()&types.IsString != 0:
			return t.S, true
		case b.Info()&types.IsInteger != 0:
			_, s := widthOf(b)
			if s {
				return t.SInt(), true
			}
			return t.U, true
		case b.Info()&types.IsFloat != 0:
			return t.F, true
		}
	}
	return nil, false
}

func (m *Machine) sprintf(format *sym.Term, args []Value) Value {
	if format.Const {
		gv := make([]interface{}, len(args))
		ok := true
		for i, a := range args {
			g, k := m.goValOf(a)
			if !k {
				ok = false
				break
			}
			gv[i] = g
		}
		if ok {
			return sym.Str(fmt.Sprintf(format.S, gv...))
		}
		// formats made only of %s / %d / %v verbs keep their meaning as concatenations
		if r, ok := m.sprintfConcat(format.S, args); ok {
			return r
		}
	}
	return sym.Var(m.freshName("sprintf"), sym.StrSort)
}

func (m *Machine) sprint(args []Value, ln bool) Value {
	gv := make([]interface{}, len(args))
	for i, a := range args {
		g, k := m.goValOf(a)
		if !k {
			return sym.Var(m.freshName("sprint"), sym.StrSort)
		}
		gv[i] = g
	}
	if ln {
		return sym.Str(fmt.Sprintln(gv...))
	}
	return sym.Str(fmt.Sprint(gv...))
}

func (m *Machine) newErrorString(msg Value) Value {
	t := m.eng.nativeType("errors.errorString")
	p := new(Value)
	*p = Struct{msg}
	return Iface{T: types.NewPointer(t), V: p}
}

func stubErrorf(m *Machine, c *frame, fn *ssa.Function, a []Value) Value {
	format := m.term(a[0])
	args := a[1].([]Value)
	msg := m.sprintf(format, args)
	if format.Const && strings.Contains(format.S, "%w") {
		// find the wrapped error: the operand matching %w
		idx := 0
		wi := -1
		f := format.S
		for i := 0; i < len(f); i++ {
			if f[i] == '%' && i+1 < len(f) {
				if f[i+1] == '%' {
					i++
					continue
				}
				j := i + 1
				for j < len(f) && strings.ContainsRune("+-# 0123456789.", rune(f[j])) {
					j++
				}
				if j < len(f) && f[j] == 'w' {
					wi = idx
				}
				idx++
				i = j
			}
		}
		if wi >= 0 && wi < len(args) {
			t := m.eng.nativeType("fmt.wrapError")
			p := new(Value)
			*p = Struct{msg, args[wi]}
			return Iface{T: types.NewPointer(t), V: p}
		}
	}
	return m.newErrorString(msg)
}

func (m *Machine) unwrapErr(c *frame, e Iface) (Iface, bool) {
	if e.T == nil {
		return Iface{}, false
	}
	f := m.findMethod(e.T, "Unwrap")
	if f == nil {
		return Iface{}, false
	}
	if f.Signature.Results().Len() != 1 {
		return Iface{}, false
	}
	r := m.call(c, 0, f, []Value{e.V})
	ri, ok := r.(Iface)
	return ri, ok
}

func stubErrorsIs(m *Machine, c *frame, fn *ssa.Function, a []Value) Value {
	err, _ := a[0].(Iface)
	target, _ := a[1].(Iface)
	for depth := 0; depth < 10; depth++ {
		if err.T == nil || target.T == nil {
			return sym.Bool(err.T == nil && target.T == nil)
		}
		if types.Comparable(err.T) {
			eq := m.equalValue(err, target)
			if m.branch(eq) {
				return sym.True()
			}
		}
		if f := m.findMethod(err.T, "Is"); f != nil {
			r := m.term(m.call(c, 0, f, []Value{err.V, target}))
			if m.branch(r) {
				return sym.True()
			}
		}
		next, ok := m.unwrapErr(c, err)
		if !ok {
			return sym.False()
		}
		err = next
	}
	return sym.False()
}

func stubErrorsUnwrap(m *Machine, c *frame, fn *ssa.Function, a []Value) Value {
	err, _ := a[0].(Iface)
	n, ok := m.unwrapErr(c, err)
	if !ok {
		return Iface{}
	}
	return n
}

// ---------------------------------------------------------------------------
// sync

type mutexData struct {
	writer  bool
	readers int
	rOwners []*coro // the lines of execution holding a read lock (nil = main line)
}

func (m *Machine) mutexOf(v Value) (*Native, *mutexData) {
	p, ok := v.(*Value)
	if !ok || p == nil {
		m.goPanicf("runtime error: invalid memory address or nil pointer dereference (nil mutex)")
	}
	n := m.natives[p]
	if n == nil {
		n = m.newNative("mutex", &mutexData{})
		m.natives[p] = n
	}
	return n, n.Data.(*mutexData)
}

func (m *Machine) lock(v Value, write bool, what string) {
	n, d := m.mutexOf(v)
	if d.writer || (write && d.readers > 0) {
		msg := fmt.Sprintf("%s of a mutex already held on this path (self-deadlock) at %s", what, m.where())
		m.blockedForever(msg)
	}
	if write {
		d.writer = true
	} else {
		// sync.RWMutex gives a pending writer priority over new readers: a read lock
		// taken again by the goroutine that already holds one deadlocks as soon as
		// another goroutine calls Lock in between ("this prohibits recursive read
		// locking"). Other goroutines using the mutex are what vrf_interference declares.
		if p, ok := v.(*Value); ok && len(m.interfere[p]) > 0 {
			for _, o := range d.rOwners {
				if o == m.curCoro {
					m.recordViolation(m.cfg.Func+".no-deadlock", fmt.Sprintf("recursive RLock at %s: deadlocks with a writer that calls Lock between the two read locks", m.where()))
					break
				}
			}
		}
		d.readers++
		d.rOwners = append(d.rOwners, m.curCoro)
	}
	m.heldLocks = append(m.heldLocks, n)
	// other goroutines may have run since we last held this mutex
	if p, ok := v.(*Value); ok && !m.inHavoc {
		for _, f := range m.interfere[p] {
			m.inHavoc = true
			saved := m.cur
			m.call(m.cur, 0, f, nil)
			m.cur = saved
			m.inHavoc = false
		}
	}
}

func (m *Machine) tryLock(v Value) bool {
	n, d := m.mutexOf(v)
	if d.writer || d.readers > 0 {
		return false
	}
	d.writer = true
	m.heldLocks = append(m.heldLocks, n)
	return true
}

func (m *Machine) unlock(v Value, write bool) {
	n, d := m.mutexOf(v)
	if write {
		if !d.writer {
			m.goPanicf("fatal error: sync: unlock of unlocked mutex")
		}
		d.writer = false
	} else {
		if d.readers == 0 {
			m.goPanicf("fatal error: sync: RUnlock of unlocked RWMutex")
		}
		d.readers--
		for i := len(d.rOwners) - 1; i >= 0; i-- {
			if d.rOwners[i] == m.curCoro {
				d.rOwners = append(d.rOwners[:i], d.rOwners[i+1:]...)
				break
			}
		}
	}
	for i := len(m.heldLocks) - 1; i >= 0; i-- {
		if m.heldLocks[i] == n {
			m.heldLocks = append(m.heldLocks[:i], m.heldLocks[i+1:]...)
			break
		}
	}
}

type wgData struct{ n int }

func (m *Machine) wg(v Value) *wgData {
	p := v.(*Value)
	n := m.natives[p]
	if n == nil {
		n = m.newNative("wg", &wgData{})
		m.natives[p] = n
	}
	return n.Data.(*wgData)
}

func atomicLoad(m *Machine, c *frame, fn *ssa.Function, a []Value) Value {
	return load(m.deref(c, a[0]))
}
func atomicStore(m *Machine, c *frame, fn *ssa.Function, a []Value) Value {
	store(m.deref(c, a[0]), a[1])
	return nil
}
func atomicAdd(m *Machine, c *frame, fn *ssa.Function, a []Value) Value {
	p := m.deref(c, a[0])
	n := sym.Add(m.term(*p), m.term(a[1]))
	*p = n
	return n
}
func atomicCAS(m *Machine, c *frame, fn *ssa.Function, a []Value) Value {
	p := m.deref(c, a[0])
	if m.branch(sym.Eq(m.term(*p), m.term(a[1]))) {
		*p = a[2]
		return sym.True()
	}
	return sym.False()
}

func (m *Machine) sprintfConcat(f string, args []Value) (*sym.Term, bool) {
	res := sym.Str("")
	ai := 0
	lit := ""
	for i := 0; i < len(f); i++ {
		if f[i] != '%' {
			lit += string(f[i])
			continue
		}
		if i+1 >= len(f) {
			return nil, false
		}
		v := f[i+1]
		i++
		if v == '%' {
			lit += "%"
			continue
		}
		if ai >= len(args) {
			return nil, false
		}
		var piece *sym.Term
		switch v {
		case 'd':
			t, ok := m.fmtIntArg(args[ai])
			if !ok {
				return nil, false
			}
			piece = t
		case 's', 'v':
			itf, isI := args[ai].(Iface)
			if !isI || itf.T == nil {
				return nil, false
			}
			// Stringer / error operands are rendered by their own (interpreted) method
			if _, isNat := itf.V.(*Native); !isNat {
				var meth *ssa.Function
				if f := m.findMethod(itf.T, "Error"); f != nil && f.Signature.Params().Len() == 0 {
					meth = f
				} else if f := m.findMethod(itf.T, "String"); f != nil && f.Signature.Params().Len() == 0 {
					meth = f
				}
				if meth != nil {
					if p, isP := itf.V.(*Value); isP && p == nil {
						return nil, false
					}
					r, ok := m.call(m.cur, 0, meth, []Value{itf.V}).(*sym.Term)
					if !ok {
						return nil, false
					}
					piece = r
					ai++
					res = sym.Concat(sym.Concat(res, sym.Str(lit)), piece)
					lit = ""
					continue
				}
			}
			b, isB := itf.T.Underlying().(*types.Basic)
			t, isT := itf.V.(*sym.Term)
			if !isB || !isT {
				return nil, false
			}
			switch {
			case b.Info()&types.IsString != 0:
				piece = t
			case b.Info()&types.IsInteger != 0 && v == 'v':
				tt, ok := m.fmtIntArg(args[ai])
				if !ok {
					return nil, false
				}
				piece = tt
			default:
				return nil, false
			}
		default:
			return nil, false
		}
		ai++
		res = sym.Concat(sym.Concat(res, sym.Str(lit)), piece)
		lit = ""
	}
	if ai != len(args) {
		return nil, false
	}
	return sym.Concat(res, sym.Str(lit)), true
}

// ---- sync.Map as an engine map keyed by interface values

func (m *Machine) syncMap(v Value) *Map {
	p, ok := v.(*Value)
	if !ok || p == nil {
		m.goPanicf("nil sync.Map")
	}
	n := m.natives[p]
	if n == nil {
		n = m.newNative("syncmap", &Map{})
		m.natives[p] = n
	}
	return n.Data.(*Map)
}

func init() {
	natives["(*sync.Map).Load"] = func(m *Machine, c *frame, fn *ssa.Function, a []Value) Value {
		if e := m.mapFind(m.syncMap(a[0]), a[1]); e != nil {
			return Tuple{copyVal(e.val), sym.True()}
		}
		return Tuple{Iface{}, sym.False()}
	}
	natives["(*sync.Map).Store"] = func(m *Machine, c *frame, fn *ssa.Function, a []Value) Value {
		m.mapInsert(m.syncMap(a[0]), a[1], a[2])
		return nil
	}
	natives["(*sync.Map).Delete"] = func(m *Machine, c *frame, fn *ssa.Function, a []Value) Value {
		m.mapDelete(m.syncMap(a[0]), a[1])
		return nil
	}
	natives["(*sync.Map).LoadOrStore"] = func(m *Machine, c *frame, fn *ssa.Function, a []Value) Value {
		mp := m.syncMap(a[0])
		if e := m.mapFind(mp, a[1]); e != nil {
			return Tuple{copyVal(e.val), sym.True()}
		}
		mp.entries = append(mp.entries, &mapEntry{key: copyVal(a[1]), val: copyVal(a[2])})
		return Tuple{a[2], sym.False()}
	}
	natives["(*sync.Map).Range"] = func(m *Machine, c *frame, fn *ssa.Function, a []Value) Value {
		mp := m.syncMap(a[0])
		for _, e := range append([]*mapEntry{}, mp.entries...) {
			if e.deleted {
				continue
			}
			if !m.branch(m.term(m.call(c, 0, a[1], []Value{copyVal(e.key), copyVal(e.val)}))) {
				break
			}
		}
		return nil
	}
}

// ---- github.com/pkg/errors (captures stack traces with runtime.Callers)

func init() {
	const pe = "github.com/pkg/errors"
	natives[pe+".New"] = func(m *Machine, c *frame, fn *ssa.Function, a []Value) Value { return m.newErrorString(a[0]) }
	natives[pe+".Errorf"] = stubErrorf
	wrap := func(m *Machine, c *frame, fn *ssa.Function, a []Value) Value {
		err, _ := a[0].(Iface)
		if err.T == nil {
			return Iface{}
		}
		msg := m.term(a[1])
		inner := m.term(m.invokeMethod(c, err, "Error"))
		return m.newErrorString(sym.Concat(sym.Concat(msg, sym.Str(": ")), inner))
	}
	natives[pe+".Wrap"] = wrap
	natives[pe+".WithMessage"] = wrap
	natives[pe+".Wrapf"] = func(m *Machine, c *frame, fn *ssa.Function, a []Value) Value {
		err, _ := a[0].(Iface)
		if err.T == nil {
			return Iface{}
		}
		msg := m.term(m.sprintf(m.term(a[1]), a[2].([]Value)))
		inner := m.term(m.invokeMethod(c, err, "Error"))
		return m.newErrorString(sym.Concat(sym.Concat(msg, sym.Str(": ")), inner))
	}
	natives[pe+".WithStack"] = func(m *Machine, c *frame, fn *ssa.Function, a []Value) Value { return a[0] }
	natives[pe+".Cause"] = func(m *Machine, c *frame, fn *ssa.Function, a []Value) Value { return a[0] }
}

// findMethod returns the method called name of type T, or nil.
func (m *Machine) findMethod(T types.Type, name string) *ssa.Function {
	ms := m.eng.prog.MethodSets.MethodSet(T)
	for i := 0; i < ms.Len(); i++ {
		if ms.At(i).Obj().Name() == name {
			return m.eng.prog.MethodValue(ms.At(i))
		}
	}
	return nil
}

// ---- libp2p pubsub boundary of the CRDT component: the topic validator is
// captured when it is registered, so that a harness can call it.

func init() {
	const ps = "github.com/libp2p/go-libp2p-pubsub"
	natives["(*"+ps+".PubSub).RegisterTopicValidator"] = func(m *Machine, c *frame, fn *ssa.Function, a []Value) Value {
		m.topicValidator = a[2]
		m.event("pubsub: topic validator registered")
		return Iface{}
	}
	natives["github.com/ipfs/go-ds-crdt.NewPubSubBroadcaster"] = func(m *Machine, c *frame, fn *ssa.Function, a []Value) Value {
		return Tuple{(*Value)(nil), m.newErrorString(sym.Str("pubsub broadcaster is outside the model"))}
	}
	natives["github.com/multiformats/go-multihash.Sum"] = func(m *Machine, c *frame, fn *ssa.Function, a []Value) Value {
		return Tuple{[]Value(nil), m.newErrorString(sym.Str("hashing is outside the model"))}
	}
}

const timeZoneBase = 1000000

// concreteTime rebuilds the real time.Time behind a concrete model value.
func (m *Machine) concreteTime(v Value, what string) time.Time {
	st := v.(Struct)
	flag, ns := st[0].(*sym.Term), st[1].(*sym.Term)
	if !flag.Const || !ns.Const {
		m.unsupported("%s of a symbolic instant (text forms exist for concrete instants only)", what)
	}
	if flag.U == 0 {
		return time.Time{}
	}
	t := time.Unix(0, ns.SInt()).UTC()
	if flag.U >= timeZoneBase-86400 {
		off := int(int64(flag.U) - timeZoneBase)
		if off != 0 {
			t = t.In(time.FixedZone("", off))
		}
	}
	return t
}

func (m *Machine) timeValueOf(t time.Time) Value {
	if t.IsZero() {
		return m.mkTime(sym.False(), sym.BVConst(64, 0))
	}
	_, off := t.Zone()
	flag := uint64(1)
	if off != 0 {
		flag = uint64(timeZoneBase + off)
	}
	return Struct{sym.BVConst(64, flag), sym.BVConst(64, uint64(t.UnixNano())), (*Value)(nil)}
}
