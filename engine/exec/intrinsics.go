package exec

import (
	"fmt"
	"go/types"
	"strings"

	"golang.org/x/tools/go/ssa"

	"verif/engine/solver"
	"verif/engine/sym"
)

type stubFn func(m *Machine, caller *frame, fn *ssa.Function, args []Value) Value

func constStr(m *Machine, v Value, what string) string {
	t := m.term(v)
	if !t.Const {
		m.unsupported("%s must be a constant string", what)
	}
	return t.S
}

func (m *Machine) newNondet(tag, kind string, s sym.Sort) *sym.Term {
	t := sym.Var(m.freshName(tag), s)
	m.nondets = append(m.nondets, nondetRec{Tag: tag, Kind: kind, T: t})
	m.sol.Declare(t)
	m.pin(t, tag, kind)
	return t
}

func (e *Engine) intrinsic(name string) stubFn {
	switch name {
	case "vrf_nondet_bool":
		return func(m *Machine, c *frame, fn *ssa.Function, a []Value) Value {
			return m.newNondet(constStr(m, a[0], "tag"), "bool", sym.BoolSort)
		}
	case "vrf_nondet_int":
		return func(m *Machine, c *frame, fn *ssa.Function, a []Value) Value {
			return m.newNondet(constStr(m, a[0], "tag"), "int", sym.BV(64))
		}
	case "vrf_nondet_int64":
		return func(m *Machine, c *frame, fn *ssa.Function, a []Value) Value {
			return m.newNondet(constStr(m, a[0], "tag"), "int64", sym.BV(64))
		}
	case "vrf_nondet_uint64":
		return func(m *Machine, c *frame, fn *ssa.Function, a []Value) Value {
			return m.newNondet(constStr(m, a[0], "tag"), "uint64", sym.BV(64))
		}
	case "vrf_nondet_int32":
		return func(m *Machine, c *frame, fn *ssa.Function, a []Value) Value {
			return m.newNondet(constStr(m, a[0], "tag"), "int32", sym.BV(32))
		}
	case "vrf_nondet_uint32":
		return func(m *Machine, c *frame, fn *ssa.Function, a []Value) Value {
			return m.newNondet(constStr(m, a[0], "tag"), "uint32", sym.BV(32))
		}
	case "vrf_nondet_uint8":
		return func(m *Machine, c *frame, fn *ssa.Function, a []Value) Value {
			return m.newNondet(constStr(m, a[0], "tag"), "uint8", sym.BV(8))
		}
	case "vrf_nondet_string":
		return func(m *Machine, c *frame, fn *ssa.Function, a []Value) Value {
			return m.newNondet(constStr(m, a[0], "tag"), "string", sym.StrSort)
		}
	case "vrf_choice":
		return func(m *Machine, c *frame, fn *ssa.Function, a []Value) Value {
			tag := constStr(m, a[0], "tag")
			n := m.term(a[1])
			if !n.Const {
				m.unsupported("vrf_choice with symbolic n")
			}
			k := m.choice(int(n.SInt()), tag)
			t := sym.BVConst(64, uint64(k))
			m.nondets = append(m.nondets, nondetRec{Tag: tag, Kind: "int", T: t})
			return t
		}
	case "vrf_param":
		return func(m *Machine, c *frame, fn *ssa.Function, a []Value) Value {
			name := constStr(m, a[0], "param name")
			v, ok := m.cfg.Params[name]
			if !ok {
				m.end(endEngineError, "harness parameter %q not set in the check spec", name)
			}
			return sym.BVConst(64, uint64(int64(v)))
		}
	case "vrf_symbolic":
		return func(m *Machine, c *frame, fn *ssa.Function, a []Value) Value { return sym.True() }
	case "vrf_assume":
		return func(m *Machine, c *frame, fn *ssa.Function, a []Value) Value {
			t := m.term(a[0])
			if t.Const {
				if t.U == 0 {
					m.end(endInfeasible, "assumption false")
				}
				return nil
			}
			if m.pos < len(m.prefix) {
				// replaying a prefix: known feasible
				m.assertPC(t)
				return nil
			}
			r := m.feasible(t)
			if r == solver.Unsat {
				m.end(endInfeasible, "assumption unsatisfiable")
			}
			m.assertPC(t)
			return nil
		}
	case "vrf_assert":
		return func(m *Machine, c *frame, fn *ssa.Function, a []Value) Value {
			m.vrfAssert(m.term(a[0]), constStr(m, a[1], "label"))
			return nil
		}
	case "vrf_reach":
		return func(m *Machine, c *frame, fn *ssa.Function, a []Value) Value {
			m.res.Reached = append(m.res.Reached, constStr(m, a[0], "label"))
			return nil
		}
	case "vrf_event":
		return func(m *Machine, c *frame, fn *ssa.Function, a []Value) Value {
			m.event("%s", constStr(m, a[0], "event"))
			return nil
		}
	case "vrf_note_int":
		return func(m *Machine, c *frame, fn *ssa.Function, a []Value) Value {
			m.notes = append(m.notes, nondetRec{Tag: constStr(m, a[0], "tag"), Kind: "int", T: m.term(a[1])})
			return nil
		}
	case "vrf_note_bool":
		return func(m *Machine, c *frame, fn *ssa.Function, a []Value) Value {
			m.notes = append(m.notes, nondetRec{Tag: constStr(m, a[0], "tag"), Kind: "bool", T: m.term(a[1])})
			return nil
		}
	case "vrf_note_str":
		return func(m *Machine, c *frame, fn *ssa.Function, a []Value) Value {
			m.notes = append(m.notes, nondetRec{Tag: constStr(m, a[0], "tag"), Kind: "string", T: m.term(a[1])})
			return nil
		}
	case "vrf_and":
		return func(m *Machine, c *frame, fn *ssa.Function, a []Value) Value { return sym.And(m.term(a[0]), m.term(a[1])) }
	case "vrf_or":
		return func(m *Machine, c *frame, fn *ssa.Function, a []Value) Value { return sym.Or(m.term(a[0]), m.term(a[1])) }
	case "vrf_implies":
		return func(m *Machine, c *frame, fn *ssa.Function, a []Value) Value {
			return sym.Implies(m.term(a[0]), m.term(a[1]))
		}
	case "vrf_ite_int":
		return func(m *Machine, c *frame, fn *ssa.Function, a []Value) Value {
			return sym.Ite(m.term(a[0]), m.term(a[1]), m.term(a[2]))
		}
	case "vrf_ite_str":
		return func(m *Machine, c *frame, fn *ssa.Function, a []Value) Value {
			return sym.Ite(m.term(a[0]), m.term(a[1]), m.term(a[2]))
		}
	case "vrf_topic_validate":
		// vrf_topic_validate(ctx, source peer.ID, msg *pubsub.Message) bool: calls the
		// validator the component registered with pubsub
		return func(m *Machine, c *frame, fn *ssa.Function, a []Value) Value {
			if m.topicValidator == nil {
				m.end(endEngineError, "no topic validator was registered")
			}
			if itf, ok := m.topicValidator.(Iface); ok {
				return m.call(c, 0, itf.V, a)
			}
			return m.call(c, 0, m.topicValidator, a)
		}
	case "vrf_rpc_authorize":
		// vrf_rpc_authorize(s *rpc.Server, pid peer.ID, svc, method string) bool:
		// calls the authorisation function installed in the server, as gorpc does
		// for every remote request.
		return func(m *Machine, c *frame, fn *ssa.Function, a []Value) Value {
			p := m.deref(c, a[0])
			st := (*p).(Struct)
			T := m.eng.nativeType(rpcPkg + ".Server").Underlying().(*types.Struct)
			for i := 0; i < T.NumFields(); i++ {
				if T.Field(i).Name() == "authorize" {
					f := st[i]
					if isNilValue(f) {
						return sym.True() // gorpc: no authorisation function = allow
					}
					return m.call(c, 0, f, []Value{a[1], a[2], a[3]})
				}
			}
			m.unsupported("rpc.Server has no authorize field")
			return nil
		}
	case "vrf_rpc_method_names":
		// vrf_rpc_method_names(rcvr interface{}) []string: exported methods with the
		// gorpc signature func(ctx, in, *out) error, as gorpc's Register enumerates them
		return func(m *Machine, c *frame, fn *ssa.Function, a []Value) Value {
			itf := a[0].(Iface)
			ms := m.eng.prog.MethodSets.MethodSet(itf.T)
			var out []Value
			for i := 0; i < ms.Len(); i++ {
				f := ms.At(i).Obj().(*types.Func)
				sig := f.Type().(*types.Signature)
				if !f.Exported() || sig.Params().Len() != 3 || sig.Results().Len() != 1 {
					continue
				}
				out = append(out, sym.Str(f.Name()))
			}
			return out
		}
	case "vrf_strsuffix":
		return func(m *Machine, c *frame, fn *ssa.Function, a []Value) Value {
			return sym.StrSuffixOf(m.term(a[1]), m.term(a[0]))
		}
	case "vrf_strcontains":
		return func(m *Machine, c *frame, fn *ssa.Function, a []Value) Value {
			return sym.StrContains(m.term(a[0]), m.term(a[1]))
		}
	case "vrf_strprefix":
		return func(m *Machine, c *frame, fn *ssa.Function, a []Value) Value {
			return sym.StrPrefixOf(m.term(a[1]), m.term(a[0]))
		}
	case "vrf_protect":
		// vrf_protect(field, mutex interface{}, label string): *field may only be accessed holding *mutex
		return func(m *Machine, c *frame, fn *ssa.Function, a []Value) Value {
			f, _ := a[0].(Iface)
			mu, _ := a[1].(Iface)
			fp, ok1 := f.V.(*Value)
			mp, ok2 := mu.V.(*Value)
			if !ok1 || !ok2 || fp == nil || mp == nil {
				m.end(endEngineError, "vrf_protect needs two non-nil pointers")
			}
			if m.protected == nil {
				m.protected = map[*Value]*protInfo{}
			}
			pi := &protInfo{mutex: mp, label: constStr(m, a[2], "label")}
			m.protected[fp] = pi
			m.protectMap(load(fp), pi)
			return nil
		}
	case "vrf_interference":
		// vrf_interference(mutex interface{}, f func()): f runs at every acquisition of *mutex
		return func(m *Machine, c *frame, fn *ssa.Function, a []Value) Value {
			mu, _ := a[0].(Iface)
			mp, ok := mu.V.(*Value)
			if !ok || mp == nil {
				m.end(endEngineError, "vrf_interference needs a non-nil mutex pointer")
			}
			if m.interfere == nil {
				m.interfere = map[*Value][]Value{}
			}
			m.interfere[mp] = append(m.interfere[mp], a[1])
			return nil
		}
	case "vrf_shared":
		// vrf_shared(field interface{}, f func()): an unsynchronised field; f (another
		// goroutine's write) runs before every read of it
		return func(m *Machine, c *frame, fn *ssa.Function, a []Value) Value {
			f, _ := a[0].(Iface)
			fp, ok := f.V.(*Value)
			if !ok || fp == nil {
				m.end(endEngineError, "vrf_shared needs a non-nil pointer")
			}
			if m.shared == nil {
				m.shared = map[*Value]*protInfo{}
			}
			m.shared[fp] = &protInfo{havoc: a[1]}
			return nil
		}
	case "vrf_yield":
		// let the program's other goroutines run until each of them blocks
		return func(m *Machine, c *frame, fn *ssa.Function, a []Value) Value {
			for i := 0; i < 64 && m.runCoros(); i++ {
			}
			return nil
		}
	case "vrf_advance_time":
		// time passes: every running timer expires, then the goroutines run
		return func(m *Machine, c *frame, fn *ssa.Function, a []Value) Value {
			m.fireTimers()
			for i := 0; i < 64 && m.runCoros(); i++ {
			}
			return nil
		}
	case "vrf_env":
		// vrf_env(prefix, field string, set bool, value string): declares one environment variable
		return func(m *Machine, c *frame, fn *ssa.Function, a []Value) Value {
			if m.env == nil {
				m.env = map[string]envRec{}
			}
			key := m.envKey(constStr(m, a[0], "env prefix"), constStr(m, a[1], "env field"))
			m.env[key] = envRec{set: m.term(a[2]), val: m.term(a[3])}
			return nil
		}
	case "vrf_elapse":
		// vrf_elapse(ns int64): ns nanoseconds pass; timers expire at their instants
		return func(m *Machine, c *frame, fn *ssa.Function, a []Value) Value {
			m.elapse(m.term(a[0]))
			return nil
		}
	case "vrf_blocked_goroutines":
		return func(m *Machine, c *frame, fn *ssa.Function, a []Value) Value {
			n := 0
			for _, co := range m.coros {
				if !co.done && co.started {
					n++
				}
			}
			return sym.BVConst(64, uint64(n))
		}
	case "vrf_now":
		return func(m *Machine, c *frame, fn *ssa.Function, a []Value) Value { return m.nowTerm() }
	case "vrf_locks_held":
		return func(m *Machine, c *frame, fn *ssa.Function, a []Value) Value {
			return sym.BVConst(64, uint64(len(m.heldLocks)))
		}
	case "vrf_uf_bool":
		// vrf_uf_bool(name, arg string) bool : uninterpreted predicate over strings
		return func(m *Machine, c *frame, fn *ssa.Function, a []Value) Value {
			return sym.UF("uf_"+constStr(m, a[0], "uf name"), sym.BoolSort, m.term(a[1]))
		}
	case "vrf_uf_str":
		return func(m *Machine, c *frame, fn *ssa.Function, a []Value) Value {
			return sym.UF("uf_"+constStr(m, a[0], "uf name"), sym.StrSort, m.term(a[1]))
		}
	case "vrf_uf_u64":
		return func(m *Machine, c *frame, fn *ssa.Function, a []Value) Value {
			return sym.UF("uf_"+constStr(m, a[0], "uf name"), sym.BV(64), m.term(a[1]))
		}
	}
	return nil
}

// pin constrains a fresh input to the counterexample's value (pinned replay).
func (m *Machine) pin(t *sym.Term, tag, kind string) {
	if !m.pinnedOn {
		return
	}
	for m.pinPos < len(m.pinned) && m.pinned[m.pinPos].Tag != tag {
		m.pinPos++
	}
	if m.pinPos >= len(m.pinned) {
		return
	}
	mv := m.pinned[m.pinPos]
	m.pinPos++
	val := mv.Val
	if mv.Raw != "" {
		val = mv.Raw
	}
	var c *sym.Term
	switch t.Sort.K {
	case sym.KBool:
		c = sym.Bool(val == "true")
	case sym.KStr:
		c = sym.Str(val)
	case sym.KBV:
		if strings.HasPrefix(val, "-") {
			var x int64
			fmt.Sscanf(val, "%d", &x)
			c = sym.BVConst(t.Sort.W, uint64(x))
		} else {
			var x uint64
			fmt.Sscanf(val, "%d", &x)
			c = sym.BVConst(t.Sort.W, x)
		}
	default:
		return
	}
	m.assertPC(sym.Eq(t, c))
}

func (m *Machine) vrfAssert(c *sym.Term, label string) {
	if m.pos < len(m.prefix) && !m.pinnedOn {
		// replaying a prefix: this assertion was already examined by the path that forked us
		if c.Const && c.U == 0 {
			m.end(endInfeasible, "stopped after concrete assertion failure")
		}
		m.assertPC(c)
		return
	}
	if c.Const {
		if c.U == 1 {
			m.res.Asserts = append(m.res.Asserts, AssertResult{Label: label, Verdict: "const-true"})
			return
		}
		m.recordViolation(label, "assertion is concretely false at "+m.where())
		m.end(endInfeasible, "stopped after concrete assertion failure")
	}
	r := m.sol.Check(true, sym.Not(c))
	switch r {
	case solver.Unsat:
		m.res.Asserts = append(m.res.Asserts, AssertResult{Label: label, Verdict: "unsat"})
	case solver.Sat:
		ar := AssertResult{Label: label, Verdict: "VIOLATED", Where: m.where()}
		ar.Model = m.modelVals()
		ar.Notes = m.noteVals()
		m.sol.EndCheck()
		m.res.Asserts = append(m.res.Asserts, ar)
	default:
		m.res.Asserts = append(m.res.Asserts, AssertResult{Label: label, Verdict: "unknown", Where: m.where() + " " + m.sol.LastErr})
	}
	// continue under the asserted condition so that later labels are examined
	if m.pos >= len(m.prefix) {
		if m.feasible(c) == solver.Unsat {
			m.end(endInfeasible, "no values satisfy assertion %s on this path", label)
		}
	}
	m.assertPC(c)
}

func fmtEvents(ev []string) string { return strings.Join(ev, "; ") }

var _ = fmt.Sprintf
