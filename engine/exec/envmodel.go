package exec

import (
	"go/types"
	"reflect"
	"strings"

	"golang.org/x/tools/go/ssa"

	"verif/engine/sym"
)

// Model of github.com/kelseyhightower/envconfig.Process (a reflection walk over
// a struct, one environment variable per field). The environment is what the
// harness declared with vrf_env(prefix, field, set, value): set and value may be
// symbolic; a variable that was not declared is unset. Supported field kinds:
// string, bool, integers (decimal), nested structs; tags default/required/
// split_words are not modelled.

type envRec struct{ set, val *sym.Term }

func (m *Machine) envKey(prefix, name string) string {
	if prefix != "" {
		name = prefix + "_" + name
	}
	return strings.ToUpper(name)
}

var envTrue = []string{"1", "t", "T", "TRUE", "true", "True"}
var envFalse = []string{"0", "f", "F", "FALSE", "false", "False"}

func strIn(v *sym.Term, set []string) *sym.Term {
	r := sym.False()
	for _, s := range set {
		r = sym.Or(r, sym.Eq(v, sym.Str(s)))
	}
	return r
}

// envProcess fills the struct *p of type st; returns a non-nil error value when a supplied value does not parse.
func (m *Machine) envProcess(c *frame, prefix string, st *types.Struct, sv Struct) Value {
	for i := 0; i < st.NumFields(); i++ {
		f := st.Field(i)
		if !f.Exported() {
			continue
		}
		tag := reflect.StructTag(st.Tag(i))
		if v := tag.Get("ignored"); v == "true" || v == "1" {
			continue
		}
		for _, k := range []string{"default", "required", "split_words"} {
			if tag.Get(k) != "" {
				m.unsupported("envconfig tag %q", k)
			}
		}
		name := f.Name()
		if alt := tag.Get("envconfig"); alt != "" {
			name = alt
		}
		key := m.envKey(prefix, name)
		if pt, ok := f.Type().Underlying().(*types.Pointer); ok {
			// a pointer to a struct is followed (a nil one is left alone here: the
			// configurations modelled always allocate theirs)
			if inner, ok := pt.Elem().Underlying().(*types.Struct); ok {
				if pp, _ := sv[i].(*Value); pp != nil {
					if isv, _ := (*pp).(Struct); isv != nil {
						if e := m.envProcess(c, key, inner, isv); e != nil {
							return e
						}
					}
				}
				continue
			}
		}
		if inner, ok := f.Type().Underlying().(*types.Struct); ok {
			ip := key
			if f.Anonymous() {
				ip = prefix
			}
			isv, _ := sv[i].(Struct)
			if isv == nil {
				continue
			}
			if e := m.envProcess(c, ip, inner, isv); e != nil {
				return e
			}
			continue
		}
		rec, ok := m.env[key]
		if !ok {
			continue
		}
		b, _ := f.Type().Underlying().(*types.Basic)
		switch {
		case b != nil && b.Info()&types.IsString != 0:
			sv[i] = sym.Ite(rec.set, rec.val, m.term(sv[i]))
		case b != nil && b.Info()&types.IsBoolean != 0:
			tru, fls := strIn(rec.val, envTrue), strIn(rec.val, envFalse)
			if m.branch(sym.And(rec.set, sym.Not(sym.Or(tru, fls)))) {
				return m.newErrorString(sym.Str("envconfig.Process: assigning " + key + ": invalid syntax"))
			}
			sv[i] = sym.Ite(rec.set, tru, m.term(sv[i]))
		case b != nil && b.Info()&types.IsInteger != 0:
			if !m.branch(rec.set) {
				continue
			}
			if named, ok := f.Type().(*types.Named); ok && named.Obj().Pkg() != nil && named.Obj().Pkg().Path() == "time" {
				m.unsupported("envconfig into a time.Duration field")
			}
			w, signed := widthOf(b)
			fn := "strconv.ParseUint"
			if signed {
				fn = "strconv.ParseInt"
			}
			r := natives[fn](m, c, nil, []Value{rec.val, sym.BVConst(64, 10), sym.BVConst(64, 64)}).(Tuple)
			if e, _ := r[1].(Iface); e.T != nil {
				return m.newErrorString(sym.Str("envconfig.Process: assigning " + key + ": invalid syntax"))
			}
			sv[i] = sym.Resize(m.term(r[0]), w, signed)
		default:
			if m.branch(rec.set) {
				m.unsupported("envconfig into a field of type %v", f.Type())
			}
		}
	}
	return nil
}

func init() {
	natives["github.com/kelseyhightower/envconfig.Process"] = func(m *Machine, c *frame, fn *ssa.Function, a []Value) Value {
		prefix := constStr(m, a[0], "envconfig prefix")
		spec, _ := a[1].(Iface)
		pt, ok := spec.T.(*types.Pointer)
		if !ok {
			return m.newErrorString(sym.Str("specification must be a struct pointer"))
		}
		st, ok := pt.Elem().Underlying().(*types.Struct)
		p, _ := spec.V.(*Value)
		if !ok || p == nil {
			return m.newErrorString(sym.Str("specification must be a struct pointer"))
		}
		sv, _ := (*p).(Struct)
		if e := m.envProcess(c, prefix, st, sv); e != nil {
			return e
		}
		return Iface{}
	}
}

func init() {
	// the host name is one fixed name; the system's random source yields fixed
	// bytes (only the generated default cluster secret depends on it)
	natives["os.Hostname"] = func(m *Machine, c *frame, fn *ssa.Function, a []Value) Value {
		return Tuple{sym.Str("vrf-host"), Iface{}}
	}
	natives["crypto/rand.Read"] = func(m *Machine, c *frame, fn *ssa.Function, a []Value) Value {
		b, _ := a[0].([]Value)
		for i := range b {
			b[i] = sym.BVConst(8, uint64(0x40+i%64))
		}
		return Tuple{sym.BVConst(64, uint64(len(b))), Iface{}}
	}
}
