package exec

import (
	"fmt"
	"strconv"
	"go/types"
	"os"
	"path/filepath"
	"sort"
	"strings"
	"sync"
	"time"

	"golang.org/x/tools/go/packages"
	"golang.org/x/tools/go/ssa"
	"golang.org/x/tools/go/ssa/ssautil"

	"verif/engine/solver"
	"verif/engine/sym"
)

// EntryCfg configures the exploration of one harness entry point.
type EntryCfg struct {
	Func                string            `json:"func"`
	Unwind              int               `json:"unwind"`
	MaxLen              int               `json:"max_len"`
	MapOrder            int               `json:"map_order"`
	GoMode              string            `json:"go_mode"`
	GoModes             map[string]string `json:"go_modes"`
	UnbufferedAsMailbox bool              `json:"unbuffered_as_mailbox"`
	BlockedIsViolation  string            `json:"blocked_is_violation"`
	TimeoutsFire        bool              `json:"timeouts_fire"`
	Clock               string            `json:"clock"`
	Redirect            map[string]string `json:"redirect"`
	Params              map[string]int    `json:"params"`
	PanicOK             bool              `json:"panic_ok"`
	RequireLabels       []string          `json:"require_labels"`
	MaxPaths            int               `json:"max_paths"`
	Bounds              string            `json:"bounds"`
	InitAllow           []string          `json:"init_allow"`
	NativeReplay        *bool             `json:"native_replay"`
	TimersManual        bool              `json:"timers_manual"`
	WitnessReplay       bool              `json:"witness_replay"`
	ClockStart          int64             `json:"clock_start"`
	Race                bool              `json:"race"`
	Opaque              []string          `json:"opaque"`
}

type Engine struct {
	prog       *ssa.Program
	pkg        *ssa.Package
	pkgs       []*packages.Package
	StepBudget int
	TimeoutMS  int
	Workers    int
	Portfolio  bool
	CrossEach  int
	CrossFirst int
	Verbose    bool
	initAllow  []string
	typeCache  map[string]types.Type
	tcMu       sync.Mutex
	LoadTime   time.Duration
	buildMu    sync.Mutex
}

const qtlsFile = "/root/go/pkg/mod/github.com/lucas-clemente/quic-go@v0.21.1/internal/qtls/go118.go"

// Load type-checks pkgPath (with the overlay files) from source in repo and
// builds the SSA program.
func Load(repo, pkgPath string, overlay map[string][]byte) (*Engine, error) {
	t0 := time.Now()
	ov := map[string][]byte{}
	for k, v := range overlay {
		ov[k] = v
	}
	if _, err := os.Stat(qtlsFile); err == nil {
		ov[qtlsFile] = []byte("// +build go1.18\n\npackage qtls\n")
	}
	cfg := &packages.Config{
		Mode: packages.NeedName | packages.NeedFiles | packages.NeedCompiledGoFiles | packages.NeedImports |
			packages.NeedDeps | packages.NeedTypes | packages.NeedSyntax | packages.NeedTypesInfo | packages.NeedTypesSizes,
		Dir:     repo,
		Overlay: ov,
		Env:     append(os.Environ(), "GOFLAGS=-mod=mod", "GOPROXY=off", "GOSUMDB=off", "GOTOOLCHAIN=local"),
	}
	pkgs, err := packages.Load(cfg, pkgPath)
	if err != nil {
		return nil, err
	}
	var errs []string
	packages.Visit(pkgs, nil, func(p *packages.Package) {
		for _, e := range p.Errors {
			errs = append(errs, e.Error())
		}
	})
	if len(errs) > 0 {
		if len(errs) > 10 {
			errs = errs[:10]
		}
		return nil, fmt.Errorf("load errors:\n%s", strings.Join(errs, "\n"))
	}
	prog, ssapkgs := ssautil.AllPackages(pkgs, ssa.InstantiateGenerics)
	if len(ssapkgs) == 0 || ssapkgs[0] == nil {
		return nil, fmt.Errorf("no ssa package for %s", pkgPath)
	}
	ssapkgs[0].Build()
	e := &Engine{prog: prog, pkg: ssapkgs[0], pkgs: pkgs, StepBudget: 3000000, TimeoutMS: 10000, Workers: 16,
		typeCache: map[string]types.Type{}}
	e.initAllow = append([]string{}, defaultInitAllow...)
	e.LoadTime = time.Since(t0)
	return e, nil
}

var defaultInitAllow = []string{
	"github.com/ipfs/ipfs-cluster",
	"errors", "io", "context", "sort", "strconv", "strings", "bytes", "math", "unicode/utf8",
	"path", "path/filepath", "net/url", "container/ring", "io/fs", "os=no", "sync",
	"github.com/ipfs/go-cid", "github.com/libp2p/go-libp2p-core/peer", "github.com/ipfs/go-datastore",
	"github.com/libp2p/go-libp2p-gorpc", "github.com/ipfs/go-ds-crdt", "time=no",
	"github.com/multiformats/go-multiaddr", "github.com/multiformats/go-varint", "github.com/multiformats/go-multihash", "github.com/multiformats/go-multihash/core", "github.com/mr-tron/base58/base58", "net", "net/netip", "encoding/binary", "math/bits", "github.com/multiformats/go-multibase", "github.com/multiformats/go-base32", "encoding/base32", "encoding/hex", "unicode", "internal/itoa",
}

func (e *Engine) initAllowed(p *ssa.Package) bool {
	path := p.Pkg.Path()
	for _, a := range e.initAllow {
		if a == path || (strings.HasPrefix(a, "github.com/ipfs/ipfs-cluster") && strings.HasPrefix(path, a)) {
			return true
		}
	}
	return false
}

// nativeType looks up a named type "pkg.Name".
func (e *Engine) nativeType(qual string) types.Type {
	e.tcMu.Lock()
	defer e.tcMu.Unlock()
	if t, ok := e.typeCache[qual]; ok {
		return t
	}
	i := strings.LastIndex(qual, ".")
	p := e.prog.ImportedPackage(qual[:i])
	if p == nil {
		panic("nativeType: package not loaded: " + qual)
	}
	m := p.Members[qual[i+1:]]
	if m == nil {
		panic("nativeType: no member " + qual)
	}
	t := m.(*ssa.Type).Type()
	e.typeCache[qual] = t
	return t
}

// ---------------------------------------------------------------------------
// exploration

type EntryResult struct {
	Cfg          *EntryCfg
	Paths        int
	Ends         map[string]int
	EndMsgs      map[string][]string
	Asserts      map[string]map[string]int // label -> verdict -> count
	Reached      map[string]int
	Violations   []*Violation
	Funcs        map[string]bool
	Stubs        map[string]bool
	Notes        map[string]bool
	Samples      []PathSample
	Stats        solver.Stats
	Wall         time.Duration
	Exhaustive   bool
	Nontrivial   int
	SolverDecided int
	Transitions  int
	MaxUnwind    int
	Unknowns     int
	Inconclusive []string
	ForkSites    map[string]int
}

type PathSample struct {
	Decisions []int      `json:"decisions"`
	End       string     `json:"end"`
	Asserts   []string   `json:"asserts"`
	Inputs    []ModelVal `json:"inputs,omitempty"`
	Events    []string   `json:"events,omitempty"`
}

type Violation struct {
	Entry     string     `json:"entry"`
	Label     string     `json:"label"`
	Msg       string     `json:"msg"`
	Decisions []int      `json:"decisions"`
	Model     []ModelVal `json:"model"`
	Notes     []string   `json:"notes"`
	Events    []string   `json:"events"`
	Where     string     `json:"where"`
	Params    map[string]int `json:"params"`
}

func (e *Engine) FindFunc(name string) *ssa.Function {
	return e.pkg.Func(name)
}

func (e *Engine) RunEntry(cfg *EntryCfg, deadline time.Time) (*EntryResult, error) {
	fn := e.pkg.Func(cfg.Func)
	if fn == nil {
		return nil, fmt.Errorf("entry function %s not found in %s", cfg.Func, e.pkg.Pkg.Path())
	}
	if cfg.Unwind == 0 {
		cfg.Unwind = 8
	}
	if cfg.MaxLen == 0 {
		cfg.MaxLen = 8
	}
	if cfg.MaxPaths == 0 {
		cfg.MaxPaths = 2000000
	}
	t0 := time.Now()
	res := &EntryResult{Cfg: cfg, Ends: map[string]int{}, EndMsgs: map[string][]string{}, Asserts: map[string]map[string]int{},
		Reached: map[string]int{}, Funcs: map[string]bool{}, Stubs: map[string]bool{}, Notes: map[string]bool{}}
	res.Stats.Fallback = map[string]int{}

	var mu sync.Mutex
	cond := sync.NewCond(&mu)
	queue := [][]int{{}}
	busy := 0
	stop := false
	violSeen := map[string]int{}

	worker := func(id int) {
		sol, err := solver.New(e.TimeoutMS)
		if err != nil {
			mu.Lock()
			res.Inconclusive = append(res.Inconclusive, "cannot start solver: "+err.Error())
			stop = true
			cond.Broadcast()
			mu.Unlock()
			return
		}
		sol.Portfolio = e.Portfolio
		sol.CrossEach = e.CrossEach
		sol.CrossFirst = e.CrossFirst
		defer func() {
			mu.Lock()
			mergeStats(&res.Stats, &sol.Stats)
			mu.Unlock()
			sol.Close()
		}()
		for {
			mu.Lock()
			for len(queue) == 0 && busy > 0 && !stop {
				cond.Wait()
			}
			if stop || (len(queue) == 0 && busy == 0) {
				cond.Broadcast()
				mu.Unlock()
				return
			}
			prefix := queue[len(queue)-1]
			queue = queue[:len(queue)-1]
			busy++
			mu.Unlock()

			pr := e.runPath(sol, fn, cfg, prefix)

			mu.Lock()
			busy--
			res.Paths++
			res.Ends[pr.End.String()]++
			if pr.End != endOK && pr.End != endInfeasible {
				k := pr.End.String()
				if len(res.EndMsgs[k]) < 5 {
					dup := false
					for _, x := range res.EndMsgs[k] {
						if x == pr.Msg {
							dup = true
						}
					}
					if !dup {
						res.EndMsgs[k] = append(res.EndMsgs[k], pr.Msg)
					}
				}
			}
			nontriv := false
			var alabels []string
			for _, a := range pr.Asserts {
				if res.Asserts[a.Label] == nil {
					res.Asserts[a.Label] = map[string]int{}
				}
				res.Asserts[a.Label][a.Verdict]++
				alabels = append(alabels, a.Label+"="+a.Verdict)
				if a.Verdict != "const-true" {
					nontriv = true
				}
				if a.Verdict == "unknown" && len(res.EndMsgs["unknown-assert"]) < 3 {
					res.EndMsgs["unknown-assert"] = append(res.EndMsgs["unknown-assert"], a.Label+" "+a.Where)
				}
				if a.Verdict == "VIOLATED" {
					vk := a.Label + "|" + strings.Join(a.Notes, ",")
					violSeen[vk]++
					if violSeen[vk] <= 3 && len(res.Violations) < 300 {
						res.Violations = append(res.Violations, &Violation{Entry: cfg.Func, Label: a.Label, Msg: a.Where,
							Decisions: pr.Decisions, Model: a.Model, Notes: a.Notes, Events: pr.Events, Where: a.Where, Params: cfg.Params})
					}
				}
			}
			if nontriv && pr.End != endInfeasible {
				res.SolverDecided++
			}
			if len(pr.Asserts) > 0 && pr.End != endInfeasible && (nontriv || len(pr.Decisions) > 0) {
				res.Nontrivial++
			}
			res.Transitions += len(pr.Decisions)
			for k, v := range pr.ForkSites {
				if res.ForkSites == nil {
					res.ForkSites = map[string]int{}
				}
				res.ForkSites[k] += v
			}
			for _, l := range pr.Reached {
				res.Reached[l]++
			}
			for f := range pr.Funcs {
				res.Funcs[f] = true
			}
			for f := range pr.Stubs {
				res.Stubs[f] = true
			}
			for _, n := range pr.Notes {
				res.Notes[n] = true
			}
			if pr.MaxUnwind > res.MaxUnwind {
				res.MaxUnwind = pr.MaxUnwind
			}
			res.Unknowns += pr.Unknowns
			if len(res.Samples) < 6 && pr.End == endOK && (nontriv || len(res.Samples) < 2) {
				res.Samples = append(res.Samples, PathSample{Decisions: pr.Decisions, End: pr.End.String(), Asserts: alabels, Inputs: pr.PathModel, Events: trimEvents(pr.Events)})
			}
			queue = append(queue, pr.NewWork...)
			if res.Paths >= cfg.MaxPaths || time.Now().After(deadline) {
				if (len(queue) > 0 || busy > 0) && !stop {
					res.Inconclusive = append(res.Inconclusive, fmt.Sprintf("exploration stopped after %d paths with %d prefixes pending (max_paths/deadline)", res.Paths, len(queue)))
				}
				stop = true
			}
			if e.Verbose && res.Paths%200 == 0 {
				fmt.Fprintf(os.Stderr, "  [%s] paths=%d queue=%d\n", cfg.Func, res.Paths, len(queue))
			}
			cond.Broadcast()
			mu.Unlock()
		}
	}
	var wg sync.WaitGroup
	n := e.Workers
	if n < 1 {
		n = 1
	}
	for i := 0; i < n; i++ {
		wg.Add(1)
		go func(i int) { defer wg.Done(); worker(i) }(i)
	}
	wg.Wait()
	res.Wall = time.Since(t0)
	if e.Verbose && len(res.ForkSites) > 0 {
		type kv struct {
			k string
			v int
		}
		var l []kv
		for k, v := range res.ForkSites {
			l = append(l, kv{k, v})
		}
		sort.Slice(l, func(i, j int) bool { return l[i].v > l[j].v })
		for i, x := range l {
			if i >= 25 {
				break
			}
			fmt.Fprintf(os.Stderr, "  fork-site %6d %s\n", x.v, x.k)
		}
	}
	res.Exhaustive = !stop
	// classify inconclusive ends
	for _, k := range []string{"unsupported", "unwind-exceeded", "budget", "engine-error"} {
		if res.Ends[k] > 0 {
			res.Inconclusive = append(res.Inconclusive, fmt.Sprintf("%d path(s) ended %s: %s", res.Ends[k], k, strings.Join(res.EndMsgs[k], " | ")))
		}
	}
	if res.Ends["blocked"] > 0 && cfg.BlockedIsViolation == "" {
		res.Inconclusive = append(res.Inconclusive, fmt.Sprintf("%d path(s) blocked: %s", res.Ends["blocked"], strings.Join(res.EndMsgs["blocked"], " | ")))
	}
	for l, vs := range res.Asserts {
		if vs["unknown"] > 0 {
			res.Inconclusive = append(res.Inconclusive, fmt.Sprintf("assertion %s: %d unknown solver answers (%s)", l, vs["unknown"], strings.Join(res.EndMsgs["unknown-assert"], " | ")))
		}
	}
	for _, l := range cfg.RequireLabels {
		if res.Reached[l] == 0 && res.Asserts[l] == nil {
			res.Inconclusive = append(res.Inconclusive, "VACUOUS: label "+l+" never reached on a feasible path")
		}
	}
	sort.Strings(res.Inconclusive)
	return res, nil
}

func trimEvents(ev []string) []string {
	if len(ev) > 12 {
		return ev[:12]
	}
	return ev
}

func mergeStats(dst, src *solver.Stats) {
	dst.Queries += src.Queries
	dst.Sat += src.Sat
	dst.Unsat += src.Unsat
	dst.Unknown += src.Unknown
	dst.Errors += src.Errors
	dst.SolverTime += src.SolverTime
	if src.MaxQuery > dst.MaxQuery {
		dst.MaxQuery = src.MaxQuery
	}
	dst.CrossChecks += src.CrossChecks
	dst.CrossDiffs += src.CrossDiffs
	for k, v := range src.Fallback {
		dst.Fallback[k] += v
	}
}

func (e *Engine) runPath(sol *solver.Session, fn *ssa.Function, cfg *EntryCfg, prefix []int) (pr *PathResult) {
	return e.runPathOpts(sol, fn, cfg, prefix, nil)
}

func (e *Engine) runPathOpts(sol *solver.Session, fn *ssa.Function, cfg *EntryCfg, prefix []int, pinned []ModelVal) (pr *PathResult) {
	sol.Reset()
	pr = &PathResult{Funcs: map[string]bool{}, Stubs: map[string]bool{}}
	m := &Machine{eng: e, sol: sol, prefix: prefix, res: pr, cfg: cfg,
		globals: map[*ssa.Global]*Value{}, inited: map[*ssa.Package]bool{}, natives: map[*Value]*Native{},
		rpc: map[*Value]*rpcServer{}, pinned: pinned, pinnedOn: pinned != nil}
	defer func() {
		func() {
			defer func() { recover() }()
			m.killCoros()
		}()
		pr.Decisions = m.trace
		pr.Steps = m.steps
		pr.SymInputs = len(m.nondets)
		if r := recover(); r != nil {
			switch r := r.(type) {
			case pathEnd:
				pr.End = r.kind
				pr.Msg = r.msg
			case *goPanic:
				pr.End = endPanic
				pr.Msg = r.msg + " @ " + r.at
				if !cfg.PanicOK {
					func() {
						defer func() {
							if r2 := recover(); r2 != nil {
								if pe, ok := r2.(pathEnd); ok {
									pr.Msg += " (while recording: " + pe.msg + ")"
								} else {
									panic(r2)
								}
							}
						}()
						m.recordViolation(cfg.Func+".no-panic", r.msg+" @ "+r.at)
					}()
				}
			default:
				pr.End = endEngineError
				pr.Msg = fmt.Sprintf("engine panic: %v", r)
			}
		}
		if pr.End == endOK && len(pr.Asserts) > 0 {
			pr.PathModel = m.pathModel()
		}
	}()
	m.callSSA(nil, fn, nil, nil)
	return pr
}

func (m *Machine) pathModel() (mv []ModelVal) {
	defer func() {
		if r := recover(); r != nil {
			mv = nil
		}
	}()
	if m.sol.Check(false) != solver.Sat {
		return nil
	}
	return m.modelVals()
}

var replayWitnessCids = []string{
	"QmUaFyXjZUNaUwYF8rBtbJc7fEJ46aJXvgV8z2HHs6jvmJ",
	"QmbrCtydGyPeHiLURSPMqrvE5mCgMCwFYq3UD4XLCeAYw6",
	"QmZHKZDavkvNfA9gSAg7HALv8jF7BJaKjUc9U2LSuvUySB",
	"QmP63DkAFEnDYNjDYBpyNDfttu1fvUw99x1brscPzpqmmq",
}

func (m *Machine) modelVals() []ModelVal {
	var ts []*sym.Term
	for _, n := range m.nondets {
		ts = append(ts, n.T)
	}
	// Strings that the code decodes are abstracted by uninterpreted predicates
	// (decodable? decoded value): read those too so that the replayed input
	// can be made to mean natively what the model says it means.
	type ufq struct{ ok, val *sym.Term }
	codecs := []struct {
		okN, valN string
		valSort    sym.Sort
	}{
		{"uf_cid_ok", "uf_cid_bytes", sym.StrSort},
		{"uf_peer_ok", "uf_peer_bytes", sym.StrSort},
		{"uf_pi_ok", "uf_pi_val", sym.BV(64)},
		{"uf_pu_ok", "uf_pu_val", sym.BV(64)},
	}
	ufs := map[int][]ufq{}
	for i, n := range m.nondets {
		if n.Kind != "string" || n.T.Const {
			continue
		}
		for _, cd := range codecs {
			q := ufq{}
			if m.sol.HasDecl(cd.okN) && m.reachesDecoder(cd.okN, n.T) {
				q.ok = sym.UF(cd.okN, sym.BoolSort, n.T)
				ts = append(ts, q.ok)
				if m.sol.HasDecl(cd.valN) {
					q.val = sym.UF(cd.valN, cd.valSort, n.T)
					ts = append(ts, q.val)
				}
			}
			ufs[i] = append(ufs[i], q)
		}
	}
	vals, err := m.sol.Values(ts)
	if err != nil {
		return []ModelVal{{Tag: "error", Kind: "error", Val: err.Error()}}
	}
	witness := map[string]string{}
	var out []ModelVal
	for i, n := range m.nondets {
		v := vals[n.T]
		s := termGoVal(v, n.Kind)
		if qs, ok := ufs[i]; ok {
			anyOK := false
			for k, q := range qs {
				if q.ok == nil || vals[q.ok] == nil || !vals[q.ok].IsTrue() {
					continue
				}
				anyOK = true
				switch k {
				case 0, 1:
					key := fmt.Sprintf("%d:", k)
					if q.val != nil && vals[q.val] != nil {
						key += vals[q.val].S
					}
					if _, seen := witness[key]; !seen {
						witness[key] = replayWitnessCids[len(witness)%len(replayWitnessCids)]
					}
					s = witness[key]
				case 2:
					if q.val != nil && vals[q.val] != nil {
						s = fmt.Sprintf("%d", vals[q.val].SInt())
					}
				case 3:
					if q.val != nil && vals[q.val] != nil {
						s = fmt.Sprintf("%d", vals[q.val].U)
					}
				}
				break
			}
			if !anyOK && len(qs) > 0 {
				anyDeclared := false
				for _, q := range qs {
					if q.ok != nil {
						anyDeclared = true
					}
				}
				// not decodable by any codec applied to it: make sure the native
				// decoders agree (a model string such as "7" would parse)
				if anyDeclared && s != "" && replayLooksDecodable(s) {
					s = "!" + s
				}
			}
		}
		mv := ModelVal{Tag: n.Tag, Kind: n.Kind, Val: s}
		if raw := termGoVal(v, n.Kind); raw != s {
			mv.Raw = raw
		}
		out = append(out, mv)
	}
	return out
}

func replayLooksDecodable(s string) bool {
	if _, err := strconv.ParseInt(s, 10, 64); err == nil {
		return true
	}
	if _, ok := cidDecodeConcrete(s); ok {
		return true
	}
	return false
}

func termGoVal(v *sym.Term, kind string) string {
	if v == nil {
		switch kind {
		case "bool":
			return "false"
		case "string":
			return ""
		}
		return "0"
	}
	switch v.Sort.K {
	case sym.KBool:
		if v.U == 1 {
			return "true"
		}
		return "false"
	case sym.KBV:
		switch kind {
		case "int", "int64", "int32", "int16", "int8":
			return fmt.Sprintf("%d", v.SInt())
		}
		return fmt.Sprintf("%d", v.U)
	case sym.KStr:
		return v.S
	}
	return "0"
}

// recordViolation records a violated label together with a model of the current path.
func (m *Machine) recordViolation(label, msg string) {
	ar := AssertResult{Label: label, Verdict: "VIOLATED", Where: msg}
	r := m.sol.Check(true)
	if r == solver.Sat {
		ar.Model = m.modelVals()
		ar.Notes = m.noteVals()
	} else if r == solver.Unknown {
		ar.Verdict = "unknown"
	} else {
		return // path infeasible after all
	}
	m.res.Asserts = append(m.res.Asserts, ar)
}

func (m *Machine) noteVals() []string {
	var out []string
	var ts []*sym.Term
	for _, n := range m.notes {
		ts = append(ts, n.T)
	}
	vals, err := m.sol.Values(ts)
	if err != nil {
		return []string{"error: " + err.Error()}
	}
	for _, n := range m.notes {
		out = append(out, n.Tag+"="+termGoVal(vals[n.T], n.Kind))
	}
	return out
}

// ---------------------------------------------------------------------------
// overlay helpers

// HarnessOverlay maps the harness files of dir into pkgDir of the repo.
func HarnessOverlay(repo, pkgDir, harnessDirs string, symbolic bool) (map[string][]byte, error) {
	ov := map[string][]byte{}
	for _, harnessDir := range strings.Split(harnessDirs, ",") {
		ents, err := os.ReadDir(harnessDir)
		if err != nil {
			return nil, err
		}
		for _, en := range ents {
			name := en.Name()
			if !strings.HasSuffix(name, ".go") {
				continue
			}
			if strings.HasSuffix(name, "_replay.go") && symbolic {
				continue
			}
			if strings.HasSuffix(name, "_sym.go") && !symbolic {
				continue
			}
			b, err := os.ReadFile(filepath.Join(harnessDir, name))
			if err != nil {
				return nil, err
			}
			ov[filepath.Join(repo, pkgDir, "zz_vrf_"+filepath.Base(harnessDir)+"_"+name)] = b
		}
	}
	return ov, nil
}

// ReplayPinned re-executes the path of a counterexample with every symbolic
// input pinned to the model's value and reports whether the labelled assertion
// is violated again. Used for entries whose environment cannot be built
// natively; the final query is re-decided by the fallback portfolio as well.
func (e *Engine) ReplayPinned(cfg *EntryCfg, v *Violation) (bool, string) {
	fn := e.pkg.Func(cfg.Func)
	if fn == nil {
		return false, "entry not found"
	}
	sol, err := solver.New(e.TimeoutMS)
	if err != nil {
		return false, err.Error()
	}
	defer sol.Close()
	sol.Portfolio = true
	sol.CrossEach = 1
	pr := e.runPathOpts(sol, fn, cfg, v.Decisions, v.Model)
	for _, a := range pr.Asserts {
		if a.Label == v.Label && a.Verdict == "VIOLATED" {
			return true, fmt.Sprintf("pinned re-execution violated %s again (cross-solver checks: %d, disagreements: %d)", v.Label, sol.Stats.CrossChecks, sol.Stats.CrossDiffs)
		}
	}
	if os.Getenv("VRF_DEBUG_PINNED") != "" {
		for _, a := range pr.Asserts {
			fmt.Fprintf(os.Stderr, "pinned: %s %s %s notes=%v\n", a.Label, a.Verdict, a.Where, a.Notes)
		}
		fmt.Fprintf(os.Stderr, "pinned: decisions want=%v got=%v\n", v.Decisions, pr.Decisions)
	}
	return false, fmt.Sprintf("pinned re-execution ended %s (%s) without violating %s", pr.End, pr.Msg, v.Label)
}
