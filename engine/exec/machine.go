package exec

import (
	"fmt"
	"go/constant"
	"go/token"
	"go/types"
	"runtime/debug"
	"strings"

	"golang.org/x/tools/go/ssa"

	"verif/engine/solver"
	"verif/engine/sym"
)

type endKind int

const (
	endOK endKind = iota
	endInfeasible
	endUnsupported
	endUnwind
	endPanic
	endBlocked
	endBudget
	endEngineError
	endExit
)

func (k endKind) String() string {
	return [...]string{"ok", "infeasible", "unsupported", "unwind-exceeded", "panic", "blocked", "budget", "engine-error", "exit"}[k]
}

// pathEnd terminates the current path (thrown as a Go panic, never recovered
// by interpreted defers).
type pathEnd struct {
	kind endKind
	msg  string
}

// goPanic is a panic of the interpreted program.
type goPanic struct {
	v   Value
	msg string
	at  string
}

type deferred struct {
	fn   Value
	args []Value
	pos  token.Pos
}

type frame struct {
	m         *Machine
	caller    *frame
	fn        *ssa.Function
	block     *ssa.BasicBlock
	prevBlock *ssa.BasicBlock
	env       map[ssa.Value]Value
	defers    []*deferred
	result    Value
	panicking bool
	panicV    *goPanic
	symIf     map[ssa.Instruction]int
	depth     int
	curInstr  ssa.Instruction
	selSpin   map[*ssa.Select]int // consecutive takes of a closed-channel case
}

type nondetRec struct {
	Tag  string
	Kind string
	T    *sym.Term
}

type AssertResult struct {
	Label   string
	Verdict string // "const-true", "unsat", "VIOLATED", "unknown"
	Model   []ModelVal
	Notes   []string
	Where   string
}

type ModelVal struct {
	Tag  string `json:"tag"`
	Kind string `json:"kind"`
	Val  string `json:"val"`
	Raw  string `json:"raw,omitempty"` // solver's value when Val was re-synthesised for native replay
}

type PathResult struct {
	ForkSites map[string]int
	Decisions []int
	End       endKind
	Msg       string
	Asserts   []AssertResult
	Reached   []string
	NewWork   [][]int
	Steps     int
	SymInputs int
	Notes     []string
	Funcs     map[string]bool
	Stubs     map[string]bool
	PathModel []ModelVal
	MaxUnwind int
	Unknowns  int
	Events    []string
}

// Machine executes one path.
type Machine struct {
	eng     *Engine
	sol     *solver.Session
	prefix  []int
	pos     int
	trace   []int
	pc      []*sym.Term
	nondets []nondetRec
	// decoder name -> the string terms it was applied to on this path
	ufArgs  map[string][]*sym.Term
	notes   []nondetRec
	globals map[*ssa.Global]*Value
	inited  map[*ssa.Package]bool
	initing int
	initPkgs []*ssa.Package
	steps   int
	fresh   int
	res     *PathResult
	cfg     *EntryCfg
	cur     *frame

	// model side tables
	natives   map[*Value]*Native // per-object model state (mutexes, rpc clients, ...)
	nextID    int
	heldLocks []*Native
	lastPanic *goPanic
	inAssert  bool
	clock     *sym.Term
	rpc       map[*Value]*rpcServer
	httpS     *httpSide
	protoMsgs []protoMsg
	texts     []*sym.Term // documents built as text (display JSON)
	hashes    map[string]Array
	cborN     int
	topicValidator Value
	pinned    []ModelVal
	coros     []*coro
	protected map[*Value]*protInfo
	codecVals []Iface // values behind the codec byte handles
	protMaps  map[*Map]*protInfo // map objects reachable from a protected cell
	protMapSeen map[*Map]bool
	interfere map[*Value][]Value // mutex -> closures run at each acquisition
	shared    map[*Value]*protInfo
	inHavoc   bool
	protSeen  map[*Value]bool
	curCoro   *coro
	mainW     waiter
	env       map[string]envRec
	timers    []*Native
	pinnedOn  bool
	pinPos    int
	fs        map[string]*fsEnt
	errNotExist Value
}

func (m *Machine) freshName(base string) string {
	m.fresh++
	base = strings.Map(func(r rune) rune {
		if (r >= 'a' && r <= 'z') || (r >= 'A' && r <= 'Z') || (r >= '0' && r <= '9') || r == '_' {
			return r
		}
		return '_'
	}, base)
	return fmt.Sprintf("v%d_%s", m.fresh, base)
}

func (m *Machine) end(kind endKind, format string, args ...interface{}) {
	panic(pathEnd{kind, fmt.Sprintf(format, args...)})
}

func (m *Machine) unsupported(format string, args ...interface{}) {
	where := ""
	if m.cur != nil && m.cur.curInstr != nil {
		where = " at " + m.eng.prog.Fset.Position(m.cur.curInstr.Pos()).String() + " in " + m.cur.fn.String()
	}
	panic(pathEnd{endUnsupported, fmt.Sprintf(format, args...) + where})
}

func (m *Machine) where() string {
	fr := m.cur
	for fr != nil {
		if fr.curInstr != nil && fr.curInstr.Pos() != token.NoPos {
			return m.eng.prog.Fset.Position(fr.curInstr.Pos()).String()
		}
		fr = fr.caller
	}
	return "?"
}

func (m *Machine) stack() string {
	var b []string
	for fr := m.cur; fr != nil && len(b) < 12; fr = fr.caller {
		pos := ""
		if fr.curInstr != nil {
			pos = m.eng.prog.Fset.Position(fr.curInstr.Pos()).String()
		}
		b = append(b, fr.fn.String()+" "+pos)
	}
	return strings.Join(b, " <- ")
}

func (m *Machine) goPanicf(format string, args ...interface{}) {
	msg := fmt.Sprintf(format, args...)
	panic(&goPanic{v: Iface{T: types.Typ[types.String], V: sym.Str(msg)}, msg: msg, at: m.stack()})
}

// term coerces v to a scalar term.
func (m *Machine) term(v Value) *sym.Term {
	switch v := v.(type) {
	case *sym.Term:
		return v
	case *Opaque:
		m.unsupported("use of opaque value (%s)", v.Why)
	}
	m.unsupported("expected scalar, got %T", v)
	return nil
}

// ---------------------------------------------------------------------------
// path condition, branching

func (m *Machine) assertPC(t *sym.Term) {
	if t.IsTrue() {
		return
	}
	m.pc = append(m.pc, t)
	m.sol.Assert(t)
}

func (m *Machine) feasible(t *sym.Term) solver.Result {
	r := m.sol.Check(false, t)
	if r == solver.Sat {
		m.sol.EndCheck()
	}
	if r == solver.Unknown {
		m.res.Unknowns++
	}
	return r
}

// branch decides a (possibly symbolic) condition, forking when both sides are feasible.
func (m *Machine) branch(c *sym.Term) bool {
	if c.Const {
		return c.U == 1
	}
	if m.pos < len(m.prefix) {
		d := m.prefix[m.pos]
		m.pos++
		m.trace = append(m.trace, d)
		if d == 1 {
			m.assertPC(c)
		} else {
			m.assertPC(sym.Not(c))
		}
		return d == 1
	}
	rt := m.feasible(c)
	var rf solver.Result
	if rt == solver.Unsat {
		rf = solver.Sat // pc is satisfiable, so the other side must be
	} else {
		rf = m.feasible(sym.Not(c))
	}
	tOK := rt != solver.Unsat
	fOK := rf != solver.Unsat
	switch {
	case tOK && fOK:
		alt := append(append([]int{}, m.trace...), 0)
		m.res.NewWork = append(m.res.NewWork, alt)
		m.forkSite()
		m.pos++
		m.trace = append(m.trace, 1)
		m.assertPC(c)
		return true
	case tOK:
		m.pos++
		m.trace = append(m.trace, 1)
		m.assertPC(c)
		return true
	case fOK:
		m.pos++
		m.trace = append(m.trace, 0)
		m.assertPC(sym.Not(c))
		return false
	}
	m.end(endInfeasible, "both branch sides unsat (path condition became unsatisfiable)")
	return false
}

// choice makes an n-way unconstrained decision.
func (m *Machine) choice(n int, what string) int {
	if n <= 1 {
		return 0
	}
	if m.pos < len(m.prefix) {
		d := m.prefix[m.pos]
		m.pos++
		m.trace = append(m.trace, d)
		if d >= n {
			m.end(endEngineError, "choice replay mismatch (%s): %d >= %d", what, d, n)
		}
		return d
	}
	for k := 1; k < n; k++ {
		alt := append(append([]int{}, m.trace...), k)
		m.res.NewWork = append(m.res.NewWork, alt)
	}
	m.forkSite()
	m.pos++
	m.trace = append(m.trace, 0)
	return 0
}

// concretize returns a concrete value of the 64-bit term idx within [0,limit],
// forking over the feasible values.
func (m *Machine) concretize(idx *sym.Term, limit int, what string) int {
	if idx.Const {
		return int(idx.SInt())
	}
	for v := 0; v <= limit; v++ {
		if m.branch(sym.Eq(idx, sym.BVConst(idx.Sort.W, uint64(v)))) {
			return v
		}
	}
	m.unsupported("symbolic %s exceeds case-split limit %d", what, limit)
	return 0
}

// ---------------------------------------------------------------------------
// frames

func (fr *frame) get(v ssa.Value) Value {
	switch v := v.(type) {
	case *ssa.Const:
		return fr.m.constValue(v)
	case *ssa.Global:
		return fr.m.global(v)
	case *ssa.Function:
		return v
	case *ssa.Builtin:
		return v
	}
	if r, ok := fr.env[v]; ok {
		return r
	}
	panic(fmt.Sprintf("get: no value for %T %v (%s) in %s", v, v, v.Name(), fr.fn))
}

func (m *Machine) constValue(c *ssa.Const) Value {
	if c.Value == nil {
		t := c.Type()
		if b, ok := t.(*types.Basic); ok && b.Kind() == types.UntypedNil {
			return (*Value)(nil)
		}
		if _, ok := t.(*types.TypeParam); ok {
			m.unsupported("const of type parameter")
		}
		return zero(t)
	}
	t := c.Type().Underlying()
	if b, ok := t.(*types.Basic); ok {
		switch {
		case b.Info()&types.IsBoolean != 0:
			return sym.Bool(constant.BoolVal(c.Value))
		case b.Info()&types.IsInteger != 0:
			w, signed := widthOf(b)
			if signed {
				return sym.BVConst(w, uint64(c.Int64()))
			}
			return sym.BVConst(w, c.Uint64())
		case b.Info()&types.IsString != 0:
			if c.Value.Kind() == constant.String {
				return sym.Str(constant.StringVal(c.Value))
			}
			return sym.Str(string(rune(c.Int64())))
		case b.Info()&types.IsFloat != 0:
			return sym.F64(c.Float64())
		case b.Info()&types.IsComplex != 0:
			return &Opaque{T: t, Why: "complex constant"}
		}
	}
	m.unsupported("constant %v of type %v", c.Value, c.Type())
	return nil
}

func (m *Machine) global(g *ssa.Global) *Value {
	if p, ok := m.globals[g]; ok {
		return p
	}
	pkg := g.Pkg
	if !m.inited[pkg] {
		m.inited[pkg] = true
		if m.initAllowed(pkg) {
			m.runInit(pkg)
		}
	}
	if p, ok := m.globals[g]; ok {
		return p
	}
	p := new(Value)
	et := g.Type().(*types.Pointer).Elem()
	if m.initAllowed(pkg) {
		*p = zero(et)
	} else {
		*p = m.uninitGlobal(g, et)
	}
	m.globals[g] = p
	return p
}

func (m *Machine) uninitGlobal(g *ssa.Global, et types.Type) Value {
	// sync primitives and plain zero-able aggregates of foreign packages are kept
	// zero; everything else is opaque so that a use is noticed.
	switch et.Underlying().(type) {
	case *types.Struct, *types.Array:
		return zero(et)
	}
	return &Opaque{T: et, Why: "global " + g.String() + " of a package whose initialiser is not executed"}
}

func (m *Machine) runInit(pkg *ssa.Package) {
	initFn := pkg.Func("init")
	if initFn == nil {
		return
	}
	pkg.Build()
	m.initing++
	m.initPkgs = append(m.initPkgs, pkg)
	saved := m.cur
	defer func() {
		m.initing--
		m.initPkgs = m.initPkgs[:len(m.initPkgs)-1]
		m.cur = saved
		if r := recover(); r != nil {
			if pe, ok := r.(pathEnd); ok && (pe.kind == endUnsupported) {
				m.res.Notes = append(m.res.Notes, "init of "+pkg.Pkg.Path()+" stopped: "+pe.msg)
				return
			}
			if gp, ok := r.(*goPanic); ok {
				m.res.Notes = append(m.res.Notes, "init of "+pkg.Pkg.Path()+" panicked: "+gp.msg)
				return
			}
			panic(r)
		}
	}()
	m.callSSA(nil, initFn, nil, nil)
}

func (m *Machine) call(caller *frame, pos token.Pos, fn Value, args []Value) Value {
	switch fn := fn.(type) {
	case *ssa.Function:
		if fn == nil {
			m.goPanicf("call of nil function")
		}
		return m.callFunction(caller, fn, args, nil)
	case *Closure:
		if fn == nil {
			m.goPanicf("call of nil function")
		}
		return m.callFunction(caller, fn.Fn, args, fn.Env)
	case *ssa.Builtin:
		return m.callBuiltin(caller, fn, args)
	case *NativeFunc:
		return fn.Fn(m, args)
	case *Opaque:
		m.unsupported("call of opaque function value (%s)", fn.Why)
	}
	m.unsupported("cannot call %T", fn)
	return nil
}

func zeroResults(sig *types.Signature) Value {
	r := sig.Results()
	switch r.Len() {
	case 0:
		return nil
	case 1:
		return zero(r.At(0).Type())
	}
	return zero(r)
}

func (m *Machine) callFunction(caller *frame, fn *ssa.Function, args []Value, env []Value) Value {
	name := fn.String()
	// package initialisers of dependencies are run lazily, on first global access
	if fn.Synthetic == "package initializer" && caller != nil {
		return nil
	}
	if h := m.eng.lookupStub(m, fn, name); h != nil {
		m.res.Stubs[name] = true
		return h(m, caller, fn, args)
	}
	// a library whose objects are engine models must not be entered through an
	// unmodelled method: its real body would run on the placeholder struct and
	// silently do nothing
	if m.initing == 0 && fn.Signature.Recv() != nil && modelledReceivers[strings.TrimPrefix(fn.Signature.Recv().Type().String(), "*")] {
		m.unsupported("method %s of an object that is an engine model is not part of that model", name)
	}
	if fn.Pkg != nil { // Build is once-guarded and waits for a build in progress on another worker
		fn.Pkg.Build()
	}
	if fn.Blocks == nil {
		if m.initing > 0 {
			return m.opaqueResults(fn.Signature, "result of "+name+" (no body) during init")
		}
		m.unsupported("call of function without Go body: %s", name)
	}
	if m.initing > 0 && len(m.initPkgs) > 0 && fn.Pkg != nil && fn.Pkg != m.initPkgs[len(m.initPkgs)-1] && !m.initAllowed(fn.Pkg) {
		// inside a package initialiser, a call into a foreign package that cannot be
		// executed yields opaque results instead of aborting the whole initialiser
		return m.callIsolated(caller, fn, args, env, name)
	}
	return m.callSSA(caller, fn, args, env)
}

// modelledReceivers: types whose values are placeholders for engine models. A
// method of theirs that has no native implementation must not run from its SSA.
var modelledReceivers = map[string]bool{
	"github.com/gorilla/mux.Router":            true,
	"github.com/gorilla/mux.Route":             true,
	"encoding/json.Decoder":                    true,
	"encoding/json.Encoder":                    true,
	"github.com/ugorji/go/codec.Encoder":       true,
	"github.com/ugorji/go/codec.Decoder":       true,
	"time.Timer":                               true,
	"time.Ticker":                              true,
	"os.File":                                  true,
	"bufio.Scanner":                            true,
	"github.com/libp2p/go-libp2p-gorpc.Client": true,
	"github.com/rs/cors.Cors":                  true,
}

func (m *Machine) callIsolated(caller *frame, fn *ssa.Function, args []Value, env []Value, name string) (res Value) {
	saved := m.cur
	defer func() {
		if r := recover(); r != nil {
			if pe, ok := r.(pathEnd); ok && pe.kind == endUnsupported {
				m.cur = saved
				res = m.opaqueResults(fn.Signature, "result of "+name+" (unsupported during init: "+pe.msg+")")
				return
			}
			panic(r)
		}
	}()
	return m.callSSA(caller, fn, args, env)
}

func (m *Machine) opaqueResults(sig *types.Signature, why string) Value {
	r := sig.Results()
	mk := func(t types.Type) Value {
		m.nextID++
		return &Opaque{ID: m.nextID, T: t, Why: why}
	}
	switch r.Len() {
	case 0:
		return nil
	case 1:
		return mk(r.At(0).Type())
	}
	t := make(Tuple, r.Len())
	for i := range t {
		t[i] = mk(r.At(i).Type())
	}
	return t
}

func (m *Machine) callSSA(caller *frame, fn *ssa.Function, args []Value, env []Value) Value {
	depth := 0
	if caller != nil {
		depth = caller.depth + 1
	}
	if depth > 400 {
		m.end(endBudget, "call depth exceeded in %s", fn)
	}
	m.res.Funcs[fn.String()] = true
	fr := &frame{m: m, caller: caller, fn: fn, depth: depth}
	fr.env = make(map[ssa.Value]Value, 16)
	fr.block = fn.Blocks[0]
	for _, l := range fn.Locals {
		fr.env[l] = new(Value)
	}
	if len(args) != len(fn.Params) {
		m.end(endEngineError, "arity mismatch calling %s: %d args for %d params", fn, len(args), len(fn.Params))
	}
	for i, p := range fn.Params {
		fr.env[p] = args[i]
	}
	for i, fv := range fn.FreeVars {
		fr.env[fv] = env[i]
	}
	saved := m.cur
	m.cur = fr
	for fr.block != nil {
		m.runFrame(fr)
	}
	m.cur = saved
	return fr.result
}

func (m *Machine) runFrame(fr *frame) {
	defer func() {
		if fr.block == nil {
			return // normal return
		}
		r := recover()
		switch r := r.(type) {
		case pathEnd:
			panic(r)
		case coroKill:
			panic(r)
		case *goPanic:
			fr.panicking = true
			fr.panicV = r
		default:
			panic(pathEnd{endEngineError, fmt.Sprintf("engine panic: %v in %s at %s\n%s", r, fr.fn, m.where(), shortStack())})
		}
		m.cur = fr
		fr.runDefers()
		// recovered
		fr.block = fr.fn.Recover
		if fr.block == nil {
			fr.result = zeroResults(fr.fn.Signature)
		}
	}()

	for {
		for _, instr := range fr.block.Instrs {
			m.steps++
			if m.steps > m.eng.StepBudget {
				m.end(endBudget, "step budget exceeded")
			}
			if _, isPhi := instr.(*ssa.Phi); isPhi {
				continue
			}
			fr.curInstr = instr
			switch m.visitInstr(fr, instr) {
			case kReturn:
				return
			case kNext:
			case kJump:
				goto jumped
			}
		}
		panic("block without terminator")
	jumped:
		// phis
		if len(fr.block.Instrs) > 0 {
			if _, ok := fr.block.Instrs[0].(*ssa.Phi); ok {
				idx := -1
				for i, p := range fr.block.Preds {
					if p == fr.prevBlock {
						idx = i
						break
					}
				}
				var vals []Value
				var phis []*ssa.Phi
				for _, instr := range fr.block.Instrs {
					phi, ok := instr.(*ssa.Phi)
					if !ok {
						break
					}
					phis = append(phis, phi)
					vals = append(vals, fr.get(phi.Edges[idx]))
				}
				for i, phi := range phis {
					fr.env[phi] = vals[i]
				}
			}
		}
	}
}

func (fr *frame) runDefers() {
	m := fr.m
	for len(fr.defers) > 0 {
		d := fr.defers[len(fr.defers)-1]
		fr.defers = fr.defers[:len(fr.defers)-1]
		fr.runDefer(d)
	}
	if fr.panicking {
		m.cur = fr.caller
		panic(fr.panicV)
	}
}

func (fr *frame) runDefer(d *deferred) {
	m := fr.m
	defer func() {
		if r := recover(); r != nil {
			switch r := r.(type) {
			case *goPanic:
				// a deferred call panicked: replaces the current panic
				fr.panicking = true
				fr.panicV = r
				m.cur = fr
			default:
				panic(r)
			}
		}
	}()
	m.call(fr, d.pos, d.fn, d.args)
}

type continuation int

const (
	kNext continuation = iota
	kReturn
	kJump
)

func (m *Machine) prepareCall(fr *frame, call *ssa.CallCommon) (fn Value, args []Value) {
	v := fr.get(call.Value)
	if call.Method == nil {
		fn = v
	} else {
		recv, ok := v.(Iface)
		if !ok {
			if o, isO := v.(*Opaque); isO {
				m.unsupported("method %s invoked on opaque value (%s)", call.Method.Name(), o.Why)
			}
			m.unsupported("invoke on %T", v)
		}
		if recv.T == nil {
			m.goPanicf("runtime error: invalid memory address or nil pointer dereference (method %s invoked on nil interface)", call.Method.Name())
		}
		if nat, ok := recv.V.(*Native); ok {
			fn = &nativeMethod{nat, call.Method.Name()}
		} else {
			f := m.eng.prog.LookupMethod(recv.T, call.Method.Pkg(), call.Method.Name())
			if f == nil {
				m.unsupported("method set of %v lacks %s", recv.T, call.Method)
			}
			fn = f
			args = append(args, recv.V)
		}
	}
	for _, a := range call.Args {
		args = append(args, fr.get(a))
	}
	return
}

type nativeMethod struct {
	obj  *Native
	name string
}

func (m *Machine) deref(fr *frame, v Value) *Value {
	p, ok := v.(*Value)
	if !ok {
		if o, isO := v.(*Opaque); isO {
			m.unsupported("dereference of opaque pointer (%s)", o.Why)
		}
		m.unsupported("dereference of %T", v)
	}
	if p == nil {
		m.goPanicf("runtime error: invalid memory address or nil pointer dereference")
	}
	return p
}

func (m *Machine) visitInstr(fr *frame, instr ssa.Instruction) continuation {
	switch instr := instr.(type) {
	case *ssa.DebugRef:

	case *ssa.UnOp:
		fr.env[instr] = m.unop(fr, instr, fr.get(instr.X))

	case *ssa.BinOp:
		fr.env[instr] = m.binop(instr.Op, instr.X.Type(), fr.get(instr.X), fr.get(instr.Y))

	case *ssa.Call:
		fn, args := m.prepareCall(fr, &instr.Call)
		var r Value
		if nm, ok := fn.(*nativeMethod); ok {
			r = m.callNativeMethod(fr, nm, args, instr.Call.Signature())
		} else {
			r = m.call(fr, instr.Pos(), fn, args)
		}
		m.cur = fr
		fr.env[instr] = r

	case *ssa.ChangeInterface:
		fr.env[instr] = fr.get(instr.X)

	case *ssa.ChangeType:
		fr.env[instr] = fr.get(instr.X)

	case *ssa.Convert:
		fr.env[instr] = m.conv(instr.Type(), instr.X.Type(), fr.get(instr.X))

	case *ssa.SliceToArrayPointer:
		sl, _ := fr.get(instr.X).([]Value)
		n := int(instr.Type().Underlying().(*types.Pointer).Elem().Underlying().(*types.Array).Len())
		if len(sl) < n {
			m.goPanicf("runtime error: cannot convert slice with length %d to array or pointer to array with length %d", len(sl), n)
		}
		p := new(Value)
		if sl == nil {
			p = nil
		} else {
			*p = Array(sl[:n:n]) // shares the backing array
		}
		fr.env[instr] = p

	case *ssa.MakeInterface:
		fr.env[instr] = Iface{T: instr.X.Type(), V: fr.get(instr.X)}

	case *ssa.Extract:
		t, ok := fr.get(instr.Tuple).(Tuple)
		if !ok {
			m.unsupported("extract from %T", fr.get(instr.Tuple))
		}
		fr.env[instr] = t[instr.Index]

	case *ssa.Slice:
		fr.env[instr] = m.slice(fr, instr)

	case *ssa.Return:
		switch len(instr.Results) {
		case 0:
		case 1:
			fr.result = fr.get(instr.Results[0])
		default:
			res := make(Tuple, len(instr.Results))
			for i, r := range instr.Results {
				res[i] = fr.get(r)
			}
			fr.result = res
		}
		fr.block = nil
		return kReturn

	case *ssa.RunDefers:
		fr.runDefers()
		m.cur = fr

	case *ssa.Panic:
		v := fr.get(instr.X)
		panic(&goPanic{v: v, msg: "panic: " + describe(v, 0), at: m.stack()})

	case *ssa.Send:
		m.chanSend(fr, fr.get(instr.Chan), fr.get(instr.X))

	case *ssa.Store:
		addr := m.deref(fr, fr.get(instr.Addr))
		if m.protected != nil || m.shared != nil {
			m.checkAccess(addr, true)
			if pi, ok := m.protected[addr]; ok {
				m.protectMap(fr.get(instr.Val), pi)
			}
		}
		store(addr, fr.get(instr.Val))

	case *ssa.If:
		c := m.term(fr.get(instr.Cond))
		if !c.Const {
			if fr.symIf == nil {
				fr.symIf = map[ssa.Instruction]int{}
			}
			fr.symIf[instr]++
			n := fr.symIf[instr]
			if n > m.res.MaxUnwind {
				m.res.MaxUnwind = n
			}
			if n > m.cfg.Unwind {
				m.end(endUnwind, "symbolic branch at %s evaluated more than %d times in one activation of %s", m.eng.prog.Fset.Position(instr.Pos()), m.cfg.Unwind, fr.fn)
			}
		}
		succ := 1
		if m.branch(c) {
			succ = 0
		}
		fr.prevBlock, fr.block = fr.block, fr.block.Succs[succ]
		return kJump

	case *ssa.Jump:
		fr.prevBlock, fr.block = fr.block, fr.block.Succs[0]
		return kJump

	case *ssa.Defer:
		fn, args := m.prepareCall(fr, &instr.Call)
		target := fr
		if instr.DeferStack != nil {
			if t, ok := fr.get(instr.DeferStack).(*frame); ok && t != nil {
				target = t
			}
		}
		target.defers = append(target.defers, &deferred{fn: fn, args: args, pos: instr.Pos()})

	case *ssa.Go:
		fn, args := m.prepareCall(fr, &instr.Call)
		m.goStmt(fr, instr, fn, args)

	case *ssa.MakeChan:
		n := m.term(fr.get(instr.Size))
		if !n.Const {
			m.unsupported("channel with symbolic capacity")
		}
		m.nextID++
		fr.env[instr] = &Chan{ID: m.nextID, Cap: int(n.SInt()), ElemT: instr.Type().Underlying().(*types.Chan).Elem()}

	case *ssa.Alloc:
		var addr *Value
		if instr.Heap {
			addr = new(Value)
			fr.env[instr] = addr
		} else {
			addr = fr.env[instr].(*Value)
		}
		*addr = zero(instr.Type().Underlying().(*types.Pointer).Elem())

	case *ssa.MakeSlice:
		ln := m.concretize(m.term(fr.get(instr.Len)), m.cfg.MaxLen, "make length")
		cp := m.concretize(m.term(fr.get(instr.Cap)), m.cfg.MaxLen*2+ln, "make capacity")
		if ln < 0 || cp < ln {
			m.goPanicf("runtime error: makeslice: len out of range")
		}
		if cp > 1<<20 {
			m.unsupported("make slice of capacity %d", cp)
		}
		s := make([]Value, cp)
		et := instr.Type().Underlying().(*types.Slice).Elem()
		for i := range s {
			s[i] = zero(et)
		}
		fr.env[instr] = s[:ln]

	case *ssa.MakeMap:
		fr.env[instr] = &Map{KeyT: instr.Type().Underlying().(*types.Map).Key()}

	case *ssa.Range:
		fr.env[instr] = m.rangeIter(fr, fr.get(instr.X), instr.X.Type())

	case *ssa.Next:
		fr.env[instr] = m.iterNext(fr, fr.get(instr.Iter), instr)

	case *ssa.FieldAddr:
		p := m.deref(fr, fr.get(instr.X))
		s, ok := (*p).(Struct)
		if !ok {
			m.unsupported("FieldAddr on %T", *p)
		}
		fr.env[instr] = &s[instr.Field]

	case *ssa.Field:
		s, ok := fr.get(instr.X).(Struct)
		if !ok {
			m.unsupported("Field on %T", fr.get(instr.X))
		}
		fr.env[instr] = s[instr.Field]

	case *ssa.IndexAddr:
		x := fr.get(instr.X)
		idx := m.term(fr.get(instr.Index))
		switch x := x.(type) {
		case []Value:
			i := m.index(idx, instr.Index.Type(), len(x))
			fr.env[instr] = &x[i]
		case *Value:
			if x == nil {
				m.goPanicf("runtime error: invalid memory address or nil pointer dereference")
			}
			a := (*x).(Array)
			i := m.index(idx, instr.Index.Type(), len(a))
			fr.env[instr] = &a[i]
		default:
			m.unsupported("IndexAddr on %T", x)
		}

	case *ssa.Index:
		x := fr.get(instr.X)
		idx := m.term(fr.get(instr.Index))
		switch x := x.(type) {
		case Array:
			i := m.index(idx, instr.Index.Type(), len(x))
			fr.env[instr] = x[i]
		case *sym.Term: // string
			if !x.Const {
				m.unsupported("index of symbolic string")
			}
			i := m.index(idx, instr.Index.Type(), len(x.S))
			fr.env[instr] = sym.BVConst(8, uint64(x.S[i]))
		default:
			m.unsupported("Index on %T", x)
		}

	case *ssa.Lookup:
		fr.env[instr] = m.lookup(fr, instr, fr.get(instr.X), fr.get(instr.Index))

	case *ssa.MapUpdate:
		mp, ok := fr.get(instr.Map).(*Map)
		if !ok {
			m.unsupported("MapUpdate on %T", fr.get(instr.Map))
		}
		if mp == nil {
			m.goPanicf("assignment to entry in nil map")
		}
		m.checkMapAccess(mp, true)
		m.mapInsert(mp, fr.get(instr.Key), fr.get(instr.Value))

	case *ssa.TypeAssert:
		fr.env[instr] = m.typeAssert(fr, instr, fr.get(instr.X))

	case *ssa.MakeClosure:
		var bindings []Value
		for _, b := range instr.Bindings {
			bindings = append(bindings, fr.get(b))
		}
		fr.env[instr] = &Closure{instr.Fn.(*ssa.Function), bindings}

	case *ssa.Phi:
		panic("unreachable phi")

	case *ssa.Select:
		fr.env[instr] = m.selectStmt(fr, instr)

	default:
		m.unsupported("instruction %T", instr)
	}
	return kNext
}

// index resolves an index against a concrete length, with a bounds check.
func (m *Machine) index(idx *sym.Term, it types.Type, n int) int {
	if idx.Sort.W != 64 {
		idx = sym.Resize(idx, 64, isSigned(it))
	}
	if idx.Const {
		i := idx.SInt()
		if i < 0 || i >= int64(n) {
			m.goPanicf("runtime error: index out of range [%d] with length %d", i, n)
		}
		return int(i)
	}
	inb := sym.ULt(idx, sym.BVConst(64, uint64(n)))
	if !m.branch(inb) {
		m.goPanicf("runtime error: index out of range [symbolic] with length %d", n)
	}
	return m.concretize(idx, n-1, "index")
}

func (m *Machine) slice(fr *frame, instr *ssa.Slice) Value {
	x := fr.get(instr.X)
	getb := func(v ssa.Value) *sym.Term {
		if v == nil {
			return nil
		}
		t := m.term(fr.get(v))
		if t.Sort.W != 64 {
			t = sym.Resize(t, 64, isSigned(v.Type()))
		}
		return t
	}
	lo, hi, max := getb(instr.Low), getb(instr.High), getb(instr.Max)
	if s, ok := x.(*sym.Term); ok { // string
		if lo == nil {
			lo = sym.BVConst(64, 0)
		}
		ln := sym.StrLen(s)
		if hi == nil {
			hi = ln
		}
		okc := sym.And(sym.ULe(lo, hi), sym.ULe(hi, ln))
		if !m.branch(okc) {
			m.goPanicf("runtime error: slice bounds out of range (string)")
		}
		return sym.StrSubstr(s, lo, sym.Sub(hi, lo))
	}
	var base []Value
	switch x := x.(type) {
	case []Value:
		base = x
	case *Value:
		if x == nil {
			m.goPanicf("runtime error: invalid memory address or nil pointer dereference")
		}
		base = []Value((*x).(Array))
	default:
		m.unsupported("slice of %T", x)
	}
	cp := cap(base)
	l, h, mx := 0, len(base), cp
	if lo != nil {
		l = m.boundIn(lo, cp)
	}
	if hi != nil {
		h = m.boundIn(hi, cp)
	}
	if max != nil {
		mx = m.boundIn(max, cp)
	}
	if l > h || h > mx || mx > cp {
		m.goPanicf("runtime error: slice bounds out of range [%d:%d:%d] with capacity %d", l, h, mx, cp)
	}
	if base == nil {
		return []Value(nil)
	}
	return base[l:h:mx]
}

func (m *Machine) boundIn(t *sym.Term, cp int) int {
	if t.Const {
		v := t.SInt()
		if v < 0 || v > int64(cp) {
			m.goPanicf("runtime error: slice bounds out of range [%d] with capacity %d", v, cp)
		}
		return int(v)
	}
	inb := sym.ULe(t, sym.BVConst(64, uint64(cp)))
	if !m.branch(inb) {
		m.goPanicf("runtime error: slice bounds out of range [symbolic] with capacity %d", cp)
	}
	return m.concretize(t, cp, "slice bound")
}

func (m *Machine) typeAssert(fr *frame, instr *ssa.TypeAssert, x Value) Value {
	itf, ok := x.(Iface)
	if !ok {
		if o, isO := x.(*Opaque); isO {
			m.unsupported("type assertion on opaque value (%s)", o.Why)
		}
		m.unsupported("type assertion on %T", x)
	}
	var v Value
	okk := false
	if idst, isI := instr.AssertedType.Underlying().(*types.Interface); isI {
		if itf.T != nil {
			if _, isNat := itf.V.(*Native); isNat {
				okk = true // engine objects satisfy the interfaces they are used through
			} else {
				okk = types.Implements(itf.T, idst)
			}
		}
		if okk {
			v = itf
		}
	} else if itf.T != nil && types.Identical(itf.T, instr.AssertedType) {
		v = itf.V
		okk = true
	}
	if instr.CommaOk {
		if !okk {
			v = zero(instr.AssertedType)
		}
		return Tuple{v, sym.Bool(okk)}
	}
	if !okk {
		m.goPanicf("interface conversion: interface is %v, not %v", itf.T, instr.AssertedType)
	}
	return v
}

func shortStack() string {
	st := string(debug.Stack())
	lines := strings.Split(st, "\n")
	var out []string
	for _, l := range lines {
		if strings.Contains(l, "/verif/engine/") && len(out) < 8 {
			out = append(out, strings.TrimSpace(l))
		}
	}
	return strings.Join(out, " < ")
}

func (m *Machine) forkSite() {
	if !m.eng.Verbose {
		return
	}
	if m.res.ForkSites == nil {
		m.res.ForkSites = map[string]int{}
	}
	m.res.ForkSites[m.where()]++
}

func (m *Machine) initAllowed(p *ssa.Package) bool {
	if m.eng.initAllowed(p) {
		return true
	}
	for _, a := range m.cfg.InitAllow {
		if a == p.Pkg.Path() {
			return true
		}
	}
	return false
}

// ---------------------------------------------------------------------------
// lock discipline (rely/guarantee): protected cells must only be touched while
// their mutex is held; interference closures run whenever the mutex is
// (re)acquired, standing for what other goroutines did meanwhile.

type protInfo struct {
	mutex *Value
	label string
	havoc Value // for unprotected shared cells: run before each read
}

func (m *Machine) inHarness() bool {
	if m.cur == nil || m.cur.fn == nil {
		return false
	}
	fn := m.cur.fn
	for fn.Parent() != nil {
		fn = fn.Parent()
	}
	return strings.Contains(m.eng.prog.Fset.Position(fn.Pos()).Filename, "zz_vrf_")
}

// protectMap extends the protection of a cell to the map object stored in it
// and to the maps stored inside that map (a map of maps is one guarded
// structure: Go maps are not safe for a write concurrent with anything).
func (m *Machine) protectMap(v Value, pi *protInfo) {
	mp, ok := v.(*Map)
	if !ok || mp == nil {
		return
	}
	if m.protMaps == nil {
		m.protMaps = map[*Map]*protInfo{}
	}
	if _, done := m.protMaps[mp]; done {
		return
	}
	m.protMaps[mp] = pi
	for _, e := range mp.entries {
		if !e.deleted {
			m.protectMap(e.val, pi)
		}
	}
}

func (m *Machine) checkMapAccess(mp *Map, write bool) {
	if m.protMaps == nil || mp == nil || m.inHavoc || m.inHarness() {
		return
	}
	pi, ok := m.protMaps[mp]
	if !ok {
		return
	}
	held := false
	if n := m.natives[pi.mutex]; n != nil {
		if d, ok := n.Data.(*mutexData); ok {
			held = d.writer || (!write && d.readers > 0)
		}
	}
	if held || m.protMapSeen[mp] {
		return
	}
	if m.protMapSeen == nil {
		m.protMapSeen = map[*Map]bool{}
	}
	m.protMapSeen[mp] = true
	kind := "read"
	if write {
		kind = "write"
	}
	m.recordViolation(pi.label+".guarded-access", fmt.Sprintf("%s of a map inside a protected field without holding its mutex (a write needs the write lock) at %s", kind, m.where()))
}

func (m *Machine) checkAccess(addr *Value, write bool) {
	if m.inHavoc || m.inHarness() {
		return
	}
	if pi, ok := m.protected[addr]; ok {
		n := m.natives[pi.mutex]
		held := false
		if n != nil {
			if d, ok := n.Data.(*mutexData); ok {
				held = d.writer || (!write && d.readers > 0)
			}
		}
		if !held && !m.protSeen[addr] {
			if m.protSeen == nil {
				m.protSeen = map[*Value]bool{}
			}
			m.protSeen[addr] = true
			kind := "read"
			if write {
				kind = "write"
			}
			m.recordViolation(pi.label+".guarded-access", fmt.Sprintf("%s of a protected field without holding its mutex at %s", kind, m.where()))
		}
	}
	if pi, ok := m.shared[addr]; ok && !write && pi.havoc != nil {
		m.inHavoc = true
		saved := m.cur
		m.call(m.cur, 0, pi.havoc, nil)
		m.cur = saved
		m.inHavoc = false
	}
}
