package exec

import (
	"go/types"
	"net/textproto"
	"net/url"

	"golang.org/x/tools/go/ssa"

	"verif/engine/sym"
)

// Models for the HTTP boundary of the REST API and the IPFS proxy handlers.
// Handlers are driven directly with a request object built by the harness;
// gorilla/mux routing, net/http transport and the JSON/query codecs are
// replaced by contract stubs:
//   mux.Vars(mux.SetURLVars(r, v)) == v
//   (*url.URL).Query() / url.ParseQuery of Values.Encode(v) == v
//   r.BasicAuth() after r.SetBasicAuth(u, p) == (u, p, true)
//   json Encoder.Encode writes exactly one document to its writer

type httpSide struct {
	vars      map[*Value]Value      // request -> vars map
	basicAuth map[*Value][2]Value   // request -> user, password
	encoded   map[*sym.Term]*Map    // Values.Encode() result -> values
	encoders  map[*Value]Value      // *json.Encoder -> writer (Iface)
}

func (m *Machine) http() *httpSide {
	if m.httpS == nil {
		m.httpS = &httpSide{vars: map[*Value]Value{}, basicAuth: map[*Value][2]Value{}, encoded: map[*sym.Term]*Map{}, encoders: map[*Value]Value{}}
	}
	return m.httpS
}

func copyMap(mp *Map) *Map {
	if mp == nil {
		return nil
	}
	c := &Map{KeyT: mp.KeyT}
	for _, e := range mp.entries {
		if !e.deleted {
			c.entries = append(c.entries, &mapEntry{key: copyVal(e.key), val: copySliceVal(e.val)})
		}
	}
	return c
}

func copySliceVal(v Value) Value {
	if s, ok := v.([]Value); ok && s != nil {
		c := make([]Value, len(s))
		for i := range s {
			c[i] = copyVal(s[i])
		}
		return c
	}
	return copyVal(v)
}

func fieldIndex(t types.Type, name string) int {
	st := t.Underlying().(*types.Struct)
	for i := 0; i < st.NumFields(); i++ {
		if st.Field(i).Name() == name {
			return i
		}
	}
	return -1
}

func (m *Machine) valuesFromGo(v url.Values) *Map {
	mp := &Map{KeyT: types.Typ[types.String]}
	for k, vs := range v {
		s := make([]Value, len(vs))
		for i, x := range vs {
			s[i] = sym.Str(x)
		}
		mp.entries = append(mp.entries, &mapEntry{key: sym.Str(k), val: s})
	}
	return mp
}

func (m *Machine) parseQueryTerm(q *sym.Term) (*Map, bool) {
	if q.Const {
		v, err := url.ParseQuery(q.S)
		if err != nil {
			return nil, false
		}
		return m.valuesFromGo(v), true
	}
	if mp, ok := m.http().encoded[q]; ok {
		return copyMap(mp), true
	}
	m.unsupported("query string that was not produced by url.Values.Encode")
	return nil, false
}

func (m *Machine) invokeMethod(c *frame, recv Value, name string, args ...Value) Value {
	itf, ok := recv.(Iface)
	if !ok || itf.T == nil {
		m.goPanicf("method %s invoked on nil interface", name)
	}
	f := m.eng.prog.LookupMethod(itf.T, nil, name)
	if f == nil {
		// unexported or embedded: search the method set
		ms := m.eng.prog.MethodSets.MethodSet(itf.T)
		for i := 0; i < ms.Len(); i++ {
			if ms.At(i).Obj().Name() == name {
				f = m.eng.prog.MethodValue(ms.At(i))
			}
		}
	}
	if f == nil {
		m.unsupported("no method %s on %v", name, itf.T)
	}
	return m.call(c, 0, f, append([]Value{itf.V}, args...))
}

var marshalJSONModel stubFn

func init() {
	natives["github.com/gorilla/mux.SetURLVars"] = func(m *Machine, c *frame, fn *ssa.Function, a []Value) Value {
		p := a[0].(*Value)
		m.http().vars[p] = a[1]
		return p
	}
	natives["github.com/gorilla/mux.Vars"] = func(m *Machine, c *frame, fn *ssa.Function, a []Value) Value {
		if v, ok := m.http().vars[a[0].(*Value)]; ok {
			return v
		}
		return (*Map)(nil)
	}
	natives["(net/url.Values).Encode"] = func(m *Machine, c *frame, fn *ssa.Function, a []Value) Value {
		mp, _ := a[0].(*Map)
		allConst := true
		gv := url.Values{}
		if mp != nil {
			for _, e := range mp.entries {
				if e.deleted {
					continue
				}
				k := e.key.(*sym.Term)
				vs, _ := e.val.([]Value)
				for _, x := range vs {
					t := x.(*sym.Term)
					if !t.Const || !k.Const {
						allConst = false
					} else {
						gv.Add(k.S, t.S)
					}
				}
			}
		}
		if allConst {
			return sym.Str(gv.Encode())
		}
		t := sym.Var(m.freshName("encoded_query"), sym.StrSort)
		m.http().encoded[t] = copyMap(mp)
		return t
	}
	natives["(*net/url.URL).Query"] = func(m *Machine, c *frame, fn *ssa.Function, a []Value) Value {
		p := m.deref(c, a[0])
		st := (*p).(Struct)
		raw := m.term(st[fieldIndex(m.eng.nativeType("net/url.URL"), "RawQuery")])
		mp, ok := m.parseQueryTerm(raw)
		if !ok {
			return &Map{KeyT: types.Typ[types.String]}
		}
		return mp
	}
	natives["net/url.ParseQuery"] = func(m *Machine, c *frame, fn *ssa.Function, a []Value) Value {
		mp, ok := m.parseQueryTerm(m.term(a[0]))
		if !ok {
			return Tuple{&Map{KeyT: types.Typ[types.String]}, m.newErrorString(sym.Str("invalid query"))}
		}
		return Tuple{mp, Iface{}}
	}
	natives["(*net/http.Request).SetBasicAuth"] = func(m *Machine, c *frame, fn *ssa.Function, a []Value) Value {
		m.http().basicAuth[a[0].(*Value)] = [2]Value{a[1], a[2]}
		return nil
	}
	natives["(*net/http.Request).BasicAuth"] = func(m *Machine, c *frame, fn *ssa.Function, a []Value) Value {
		if up, ok := m.http().basicAuth[a[0].(*Value)]; ok {
			return Tuple{up[0], up[1], sym.True()}
		}
		return Tuple{sym.Str(""), sym.Str(""), sym.False()}
	}
	hdrKey := func(m *Machine, v Value) Value {
		t := m.term(v)
		if t.Const {
			return sym.Str(textproto.CanonicalMIMEHeaderKey(t.S))
		}
		return t
	}
	natives["(net/http.Header).Set"] = func(m *Machine, c *frame, fn *ssa.Function, a []Value) Value {
		mp := a[0].(*Map)
		if mp == nil {
			m.goPanicf("assignment to entry in nil map")
		}
		m.mapInsert(mp, hdrKey(m, a[1]), []Value{a[2]})
		return nil
	}
	natives["(net/http.Header).Add"] = func(m *Machine, c *frame, fn *ssa.Function, a []Value) Value {
		mp := a[0].(*Map)
		if mp == nil {
			m.goPanicf("assignment to entry in nil map")
		}
		k := hdrKey(m, a[1])
		if e := m.mapFind(mp, k); e != nil {
			e.val = append(e.val.([]Value), a[2])
			return nil
		}
		mp.entries = append(mp.entries, &mapEntry{key: k, val: []Value{a[2]}})
		return nil
	}
	natives["(net/http.Header).Get"] = func(m *Machine, c *frame, fn *ssa.Function, a []Value) Value {
		mp, _ := a[0].(*Map)
		if e := m.mapFind(mp, hdrKey(m, a[1])); e != nil {
			if vs := e.val.([]Value); len(vs) > 0 {
				return vs[0]
			}
		}
		return sym.Str("")
	}
	natives["(net/http.Header).Del"] = func(m *Machine, c *frame, fn *ssa.Function, a []Value) Value {
		mp, _ := a[0].(*Map)
		if mp != nil {
			m.mapDelete(mp, hdrKey(m, a[1]))
		}
		return nil
	}
	natives["(net/http.Header).Values"] = func(m *Machine, c *frame, fn *ssa.Function, a []Value) Value {
		mp, _ := a[0].(*Map)
		if e := m.mapFind(mp, hdrKey(m, a[1])); e != nil {
			return e.val
		}
		return []Value(nil)
	}
	natives["net/http.Error"] = func(m *Machine, c *frame, fn *ssa.Function, a []Value) Value {
		m.invokeMethod(c, a[0], "WriteHeader", a[2])
		m.invokeMethod(c, a[0], "Write", bytesOf("<error text>\n"))
		return nil
	}
	natives["(*net/http.Request).MultipartReader"] = func(m *Machine, c *frame, fn *ssa.Function, a []Value) Value {
		p := m.deref(c, a[0])
		st := (*p).(Struct)
		hdr, _ := st[fieldIndex(m.eng.nativeType("net/http.Request"), "Header")].(*Map)
		ct := ""
		if e := m.mapFind(hdr, sym.Str("Content-Type")); e != nil {
			if vs := e.val.([]Value); len(vs) > 0 {
				t := m.term(vs[0])
				if !t.Const {
					m.unsupported("symbolic Content-Type")
				}
				ct = t.S
			}
		}
		if len(ct) >= 10 && ct[:10] == "multipart/" {
			r := new(Value)
			*r = zero(m.eng.nativeType("mime/multipart.Reader"))
			return Tuple{r, Iface{}}
		}
		return Tuple{(*Value)(nil), m.newErrorString(sym.Str("request Content-Type isn't multipart/form-data"))}
	}
	natives["encoding/json.NewEncoder"] = func(m *Machine, c *frame, fn *ssa.Function, a []Value) Value {
		p := new(Value)
		*p = zero(m.eng.nativeType("encoding/json.Encoder"))
		m.http().encoders[p] = a[0]
		return p
	}
	natives["(*encoding/json.Encoder).Encode"] = func(m *Machine, c *frame, fn *ssa.Function, a []Value) Value {
		w, ok := m.http().encoders[a[0].(*Value)]
		if !ok {
			m.unsupported("json.Encoder not created by json.NewEncoder")
		}
		// one document per call, followed by a newline; a struct is written as the
		// handle json.Unmarshal resolves (see marshal below)
		doc := bytesOf("<json document>\n")
		if t, ok := marshalJSONModel(m, c, fn, a[1:]).(Tuple); ok {
			if b, ok := t[0].([]Value); ok && len(b) == 9 {
				doc = append(append([]Value{}, b...), sym.BVConst(8, '\n'))
			}
		}
		r := m.invokeMethod(c, w, "Write", doc)
		if t, ok := r.(Tuple); ok {
			return t[1]
		}
		return Iface{}
	}
	natives["(*encoding/json.Encoder).SetIndent"] = zeroStub
	natives["(*encoding/json.Encoder).SetEscapeHTML"] = zeroStub
	// json.Marshal of a struct (or pointer to struct): a handle that json.Unmarshal
	// into the same struct type resolves to a deep copy ("JSON is the identity on
	// the serialised struct"); anything else is an opaque document
	marshal := func(m *Machine, c *frame, fn *ssa.Function, a []Value) Value {
		v, _ := a[0].(Iface)
		if v.T != nil {
			T, val := v.T, v.V
			if pt, ok := T.(*types.Pointer); ok {
				if p, ok := val.(*Value); ok && p != nil {
					T, val = pt.Elem(), load(p)
				}
			}
			if _, ok := T.Underlying().(*types.Struct); ok {
				if m.findMethod(types.NewPointer(T), "MarshalJSON") == nil {
					m.protoMsgs = append(m.protoMsgs, protoMsg{T: T, V: copyValDeep(val)})
					id := uint64(len(m.protoMsgs))
					out := make([]Value, 9)
					out[0] = sym.BVConst(8, 0xA8)
					for i := 0; i < 8; i++ {
						out[1+i] = sym.BVConst(8, (id>>(8*uint(7-i)))&0xff)
					}
					return Tuple{out, Iface{}}
				}
			}
		}
		return Tuple{bytesOf("<json document>"), Iface{}}
	}
	marshalJSONModel = marshal
	natives["encoding/json.Marshal"] = marshal
	natives["encoding/json.MarshalIndent"] = marshal

	// go-path
	natives["github.com/ipfs/go-path.ParsePath"] = func(m *Machine, c *frame, fn *ssa.Function, a []Value) Value {
		s := m.term(a[0])
		if s.Const {
			if fn.Pkg != nil { // Build is once-guarded and waits for a build in progress on another worker
				fn.Pkg.Build()
			}
			return m.callSSA(c, fn, a, nil)
		}
		ok := sym.UF("uf_path_ok", sym.BoolSort, s)
		if m.branch(ok) {
			// a parsed path is never empty
			m.assertPC(sym.Not(sym.Eq(s, sym.Str(""))))
			return Tuple{s, Iface{}}
		}
		return Tuple{sym.Str(""), m.newErrorString(sym.Var(m.freshName("patherr"), sym.StrSort))}
	}
}

func bytesOf(s string) []Value {
	out := make([]Value, len(s))
	for i := 0; i < len(s); i++ {
		out[i] = sym.BVConst(8, uint64(s[i]))
	}
	return out
}
