package exec

import (
	"go/types"
	"reflect"
	"strings"

	"golang.org/x/tools/go/ssa"

	"verif/engine/sym"
)

// ugorji/go codec as a faithful stream of values: an Encoder appends deep
// copies of the encoded values to the stream of its writer; a Decoder over the
// same object reads them back in order and answers io.EOF at the end. What the
// msgpack bytes look like is outside the claim. When the writer is a
// *bytes.Buffer each encoded value is also written to it as a 9-byte handle, so
// that the bytes can travel (be published, copied, stored) and a decoder over
// a buffer or byte slice holding such handles reads the values back; bytes that
// are not handles do not decode. Fields tagged `omitempty` are left out of the
// encoding when they hold their zero value, hence are NOT assigned by Decode:
// the target keeps what it held.

const ugorji = "github.com/ugorji/go/codec"

type codecStream struct {
	vals    []Iface
	garbage bool // the bytes were not produced by the Encoder model
}

type codecEnd struct {
	stream *codecStream
	pos    int
	writer Value
}

func (m *Machine) codecStreamOf(rw Value) *codecStream {
	itf, _ := rw.(Iface)
	p, ok := itf.V.(*Value)
	if !ok || p == nil {
		m.unsupported("codec over a reader/writer that is not a pointer object (%T)", itf.V)
	}
	n := m.natives[p]
	if n == nil {
		n = m.newNative("codecstream", &codecStream{})
		m.natives[p] = n
	}
	st, ok := n.Data.(*codecStream)
	if !ok {
		m.unsupported("object already has another model attached")
	}
	return st
}

const codecHandleTag = 0xA7

func isBytesBuffer(v Value) bool {
	itf, ok := v.(Iface)
	return ok && itf.T != nil && itf.T.String() == "*bytes.Buffer"
}

// codecStreamFromBytes resolves a byte string made of handles; ok=false when
// the bytes are something else.
func (m *Machine) codecStreamFromBytes(bs []Value) (*codecStream, bool) {
	st := &codecStream{}
	if len(bs)%9 != 0 {
		return st, false
	}
	for i := 0; i < len(bs); i += 9 {
		var id uint64
		for j := 0; j < 9; j++ {
			t, ok := bs[i+j].(*sym.Term)
			if !ok || !t.Const {
				return st, false
			}
			if j == 0 {
				if t.U != codecHandleTag {
					return st, false
				}
				continue
			}
			id = id<<8 | (t.U & 0xff)
		}
		if id < 1 || id > uint64(len(m.codecVals)) {
			return st, false
		}
		st.vals = append(st.vals, m.codecVals[id-1])
	}
	return st, true
}

func init() {
	mk := func(typeName string) stubFn {
		return func(m *Machine, c *frame, fn *ssa.Function, a []Value) Value {
			var st *codecStream
			if itf, _ := a[0].(Iface); typeName == "Decoder" && isBytesBuffer(a[0]) && m.natives[itf.V.(*Value)] == nil {
				bs, _ := m.invokeMethod(c, a[0], "Bytes").([]Value)
				s2, ok := m.codecStreamFromBytes(bs)
				if !ok {
					s2 = &codecStream{garbage: true}
				}
				st = s2
			} else {
				st = m.codecStreamOf(a[0])
			}
			p := new(Value)
			*p = zero(m.eng.nativeType(ugorji + "." + typeName))
			m.natives[p] = m.newNative("codecend", &codecEnd{stream: st, writer: a[0]})
			return p
		}
	}
	natives[ugorji+".NewEncoder"] = mk("Encoder")
	natives[ugorji+".NewDecoder"] = mk("Decoder")
	natives["(*"+ugorji+".Encoder).Encode"] = func(m *Machine, c *frame, fn *ssa.Function, a []Value) Value {
		e := m.natives[a[0].(*Value)].Data.(*codecEnd)
		v, _ := a[1].(Iface)
		// encoding through a pointer encodes the pointed-to value
		if pt, ok := v.T.(*types.Pointer); ok {
			if p, ok := v.V.(*Value); ok && p != nil {
				v = Iface{T: pt.Elem(), V: load(p)}
			}
		}
		enc := Iface{T: v.T, V: copyValDeep(v.V)}
		e.stream.vals = append(e.stream.vals, enc)
		if e.writer != nil && isBytesBuffer(e.writer) {
			m.codecVals = append(m.codecVals, enc)
			id := uint64(len(m.codecVals))
			out := make([]Value, 9)
			out[0] = sym.BVConst(8, codecHandleTag)
			for i := 0; i < 8; i++ {
				out[1+i] = sym.BVConst(8, (id>>(8*uint(7-i)))&0xff)
			}
			m.invokeMethod(c, e.writer, "Write", out)
		}
		return Iface{}
	}
	natives[ugorji+".NewDecoderBytes"] = func(m *Machine, c *frame, fn *ssa.Function, a []Value) Value {
		bs, _ := a[0].([]Value)
		st, ok := m.codecStreamFromBytes(bs)
		if !ok {
			st = &codecStream{garbage: true}
		}
		p := new(Value)
		*p = zero(m.eng.nativeType(ugorji + ".Decoder"))
		m.natives[p] = m.newNative("codecend", &codecEnd{stream: st})
		return p
	}
	natives["(*"+ugorji+".Decoder).ResetBytes"] = func(m *Machine, c *frame, fn *ssa.Function, a []Value) Value {
		d := m.natives[a[0].(*Value)].Data.(*codecEnd)
		bs, _ := a[1].([]Value)
		st, ok := m.codecStreamFromBytes(bs)
		if !ok {
			st = &codecStream{garbage: true}
		}
		d.stream, d.pos = st, 0
		return nil
	}
	natives["(*"+ugorji+".Decoder).Decode"] = func(m *Machine, c *frame, fn *ssa.Function, a []Value) Value {
		d := m.natives[a[0].(*Value)].Data.(*codecEnd)
		if d.stream.garbage {
			return m.newErrorString(sym.Str("codec: bytes are not an encoded value"))
		}
		if d.pos >= len(d.stream.vals) {
			return m.pkgVar("io", "EOF")
		}
		v := d.stream.vals[d.pos]
		d.pos++
		tgt, _ := a[1].(Iface)
		pt, ok := tgt.T.(*types.Pointer)
		if !ok || !types.Identical(pt.Elem(), v.T) {
			return m.newErrorString(sym.Str("codec: cannot decode into this type"))
		}
		dst := m.deref(c, tgt.V)
		cur := load(dst)
		store(dst, m.codecDecodeInto(v.T, cur, copyValDeep(v.V)))
		return Iface{}
	}
}

// codecDecodeInto mirrors how the decoder fills an existing value: a byte
// slice that is already there and large enough is REUSED (the bytes are written
// into its backing array, which anybody still holding the old slice sees);
// structs are filled field by field; everything else is replaced.
func (m *Machine) codecDecodeInto(T types.Type, cur, nv Value) Value {
	switch u := T.Underlying().(type) {
	case *types.Struct:
		cs, ok1 := cur.(Struct)
		ns, ok2 := nv.(Struct)
		if !ok1 || !ok2 {
			return nv
		}
		out := make(Struct, len(ns))
		for i := range ns {
			if codecOmitEmpty(u.Tag(i)) {
				out[i] = m.codecKeepIfZero(cs[i], ns[i], func() Value { return m.codecDecodeInto(u.Field(i).Type(), cs[i], ns[i]) })
				continue
			}
			out[i] = m.codecDecodeInto(u.Field(i).Type(), cs[i], ns[i])
		}
		return out
	case *types.Slice:
		if eb, ok := u.Elem().Underlying().(*types.Basic); ok && eb.Kind() == types.Uint8 {
			old, _ := cur.([]Value)
			fresh, _ := nv.([]Value)
			if old != nil && fresh != nil && cap(old) >= len(fresh) && len(fresh) > 0 {
				re := old[:len(fresh)]
				copy(re, fresh)
				return re
			}
		}
	}
	return nv
}

func codecOmitEmpty(tag string) bool {
	v, ok := reflect.StructTag(tag).Lookup("codec")
	if !ok {
		return false
	}
	parts := strings.Split(v, ",")
	for _, p := range parts[1:] {
		if p == "omitempty" {
			return true
		}
	}
	return false
}

// codecKeepIfZero: an omitempty field holding its zero value is absent from the
// encoding, so the decoder leaves the target's field as it is.
func (m *Machine) codecKeepIfZero(cur, nv Value, fill func() Value) Value {
	switch x := nv.(type) {
	case *sym.Term:
		var z *sym.Term
		switch x.Sort.K {
		case sym.KBool:
			z = sym.Bool(false)
		case sym.KBV:
			z = sym.BVConst(x.Sort.W, 0)
		case sym.KStr:
			z = sym.Str("")
		default:
			return fill()
		}
		isZero := sym.Eq(x, z)
		if isZero.Const {
			if isZero.IsTrue() {
				return cur
			}
			return fill()
		}
		if ct, ok := cur.(*sym.Term); ok {
			return sym.Ite(isZero, ct, x)
		}
		if m.branch(isZero) {
			return cur
		}
		return fill()
	case []Value:
		if len(x) == 0 {
			return cur
		}
	case *Map:
		if x == nil || x.Len() == 0 {
			return cur
		}
	case *Value:
		if x == nil {
			return cur
		}
	case Iface:
		if x.T == nil {
			return cur
		}
	case Struct:
		if structAllZero(x) {
			return cur
		}
	}
	return fill()
}

func structAllZero(s Struct) bool {
	for _, f := range s {
		switch x := f.(type) {
		case *sym.Term:
			if !x.Const {
				return false
			}
			switch x.Sort.K {
			case sym.KBool, sym.KBV:
				if x.U != 0 {
					return false
				}
			case sym.KStr:
				if x.S != "" {
					return false
				}
			default:
				return false
			}
		case []Value:
			if len(x) != 0 {
				return false
			}
		case *Map:
			if x != nil && x.Len() != 0 {
				return false
			}
		case *Value:
			if x != nil {
				return false
			}
		case Iface:
			if x.T != nil {
				return false
			}
		case Struct:
			if !structAllZero(x) {
				return false
			}
		default:
			return false
		}
	}
	return true
}
