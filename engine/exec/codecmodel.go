package exec

import (
	"go/types"

	"golang.org/x/tools/go/ssa"

	"verif/engine/sym"
)

// ugorji/go codec as a faithful stream of values: an Encoder appends deep
// copies of the encoded values to the stream of its writer; a Decoder over the
// same object reads them back in order and answers io.EOF at the end. What the
// msgpack bytes look like is outside the claim.

const ugorji = "github.com/ugorji/go/codec"

type codecStream struct{ vals []Iface }

type codecEnd struct {
	stream *codecStream
	pos    int
}

func (m *Machine) codecStreamOf(rw Value) *codecStream {
	itf, _ := rw.(Iface)
	p, ok := itf.V.(*Value)
	if !ok || p == nil {
		m.unsupported("codec over a reader/writer that is not a pointer object (%T)", itf.V)
	}
	n := m.natives[p]
	if n == nil {
		n = m.newNative("codecstream", &codecStream{})
		m.natives[p] = n
	}
	st, ok := n.Data.(*codecStream)
	if !ok {
		m.unsupported("object already has another model attached")
	}
	return st
}

func init() {
	mk := func(typeName string) stubFn {
		return func(m *Machine, c *frame, fn *ssa.Function, a []Value) Value {
			st := m.codecStreamOf(a[0])
			p := new(Value)
			*p = zero(m.eng.nativeType(ugorji + "." + typeName))
			m.natives[p] = m.newNative("codecend", &codecEnd{stream: st})
			return p
		}
	}
	natives[ugorji+".NewEncoder"] = mk("Encoder")
	natives[ugorji+".NewDecoder"] = mk("Decoder")
	natives["(*"+ugorji+".Encoder).Encode"] = func(m *Machine, c *frame, fn *ssa.Function, a []Value) Value {
		e := m.natives[a[0].(*Value)].Data.(*codecEnd)
		v, _ := a[1].(Iface)
		// encoding through a pointer encodes the pointed-to value
		if pt, ok := v.T.(*types.Pointer); ok {
			if p, ok := v.V.(*Value); ok && p != nil {
				v = Iface{T: pt.Elem(), V: load(p)}
			}
		}
		e.stream.vals = append(e.stream.vals, Iface{T: v.T, V: copyValDeep(v.V)})
		return Iface{}
	}
	natives["(*"+ugorji+".Decoder).Decode"] = func(m *Machine, c *frame, fn *ssa.Function, a []Value) Value {
		d := m.natives[a[0].(*Value)].Data.(*codecEnd)
		if d.pos >= len(d.stream.vals) {
			return m.pkgVar("io", "EOF")
		}
		v := d.stream.vals[d.pos]
		d.pos++
		tgt, _ := a[1].(Iface)
		pt, ok := tgt.T.(*types.Pointer)
		if !ok || !types.Identical(pt.Elem(), v.T) {
			return m.newErrorString(sym.Str("codec: cannot decode into this type"))
		}
		dst := m.deref(c, tgt.V)
		cur := load(dst)
		store(dst, m.codecDecodeInto(v.T, cur, copyValDeep(v.V)))
		return Iface{}
	}
}

// codecDecodeInto mirrors how the decoder fills an existing value: a byte
// slice that is already there and large enough is REUSED (the bytes are written
// into its backing array, which anybody still holding the old slice sees);
// structs are filled field by field; everything else is replaced.
func (m *Machine) codecDecodeInto(T types.Type, cur, nv Value) Value {
	switch u := T.Underlying().(type) {
	case *types.Struct:
		cs, ok1 := cur.(Struct)
		ns, ok2 := nv.(Struct)
		if !ok1 || !ok2 {
			return nv
		}
		out := make(Struct, len(ns))
		for i := range ns {
			out[i] = m.codecDecodeInto(u.Field(i).Type(), cs[i], ns[i])
		}
		return out
	case *types.Slice:
		if eb, ok := u.Elem().Underlying().(*types.Basic); ok && eb.Kind() == types.Uint8 {
			old, _ := cur.([]Value)
			fresh, _ := nv.([]Value)
			if old != nil && fresh != nil && cap(old) >= len(fresh) && len(fresh) > 0 {
				re := old[:len(fresh)]
				copy(re, fresh)
				return re
			}
		}
	}
	return nv
}
