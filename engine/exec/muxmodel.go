package exec

import (
	"go/types"
	"net/http"
	"net/url"

	"github.com/gorilla/mux"
	"golang.org/x/tools/go/ssa"

	"verif/engine/sym"
)

// Model of gorilla/mux (v1.8.0) routing: the interpreted program builds its
// router through the usual calls (NewRouter, Methods, PathPrefix, Subrouter,
// Path, Handler, HandlerFunc, Name, StrictSlash, NotFoundHandler); the engine
// mirrors every call on a REAL mux.Router of its own runtime whose handlers are
// markers. ServeHTTP (concrete method and path) asks the real router for the
// match and then calls the interpreted handler of the matched route with the
// route variables set. Matching itself is therefore gorilla/mux's own code,
// executed natively.

type muxRouter struct {
	real *mux.Router
	top  *muxRouter // the router created by NewRouter
	// interpreted handlers by marker index (shared by the whole tree)
	handlers *[]Value
	ptr      *Value // the interpreted *mux.Router value
}

type muxRoute struct {
	real   *mux.Route
	router *muxRouter
	ptr    *Value
}

type muxMarker struct{ idx int }

func (muxMarker) ServeHTTP(http.ResponseWriter, *http.Request) {}

func (m *Machine) newMuxRouter(real *mux.Router, parent *muxRouter) *Value {
	p := new(Value)
	*p = zero(m.eng.nativeType("github.com/gorilla/mux.Router"))
	r := &muxRouter{real: real, ptr: p}
	if parent != nil {
		r.top, r.handlers = parent.top, parent.handlers
	} else {
		r.top, r.handlers = r, &[]Value{}
	}
	m.natives[p] = m.newNative("mux.Router", r)
	return p
}

func (m *Machine) newMuxRoute(real *mux.Route, router *muxRouter) *Value {
	p := new(Value)
	*p = zero(m.eng.nativeType("github.com/gorilla/mux.Route"))
	m.natives[p] = m.newNative("mux.Route", &muxRoute{real: real, router: router, ptr: p})
	return p
}

func (m *Machine) muxRouterOf(v Value) *muxRouter {
	p, _ := v.(*Value)
	if p == nil || m.natives[p] == nil {
		m.unsupported("mux.Router not created through mux.NewRouter")
	}
	r, ok := m.natives[p].Data.(*muxRouter)
	if !ok {
		m.unsupported("value is not a modelled mux.Router")
	}
	return r
}

func (m *Machine) muxRouteOf(v Value) *muxRoute {
	p, _ := v.(*Value)
	if p == nil || m.natives[p] == nil {
		m.unsupported("mux.Route not created through the modelled router")
	}
	r, ok := m.natives[p].Data.(*muxRoute)
	if !ok {
		m.unsupported("value is not a modelled mux.Route")
	}
	return r
}

func (m *Machine) constStrings(v Value, what string) []string {
	vs, _ := v.([]Value)
	out := make([]string, len(vs))
	for i, x := range vs {
		out[i] = constStr(m, x, what)
	}
	return out
}

func (m *Machine) muxMark(r *muxRouter, h Value) http.Handler {
	*r.handlers = append(*r.handlers, h)
	return muxMarker{idx: len(*r.handlers) - 1}
}

// reqField reads a string field of the interpreted *http.Request / *url.URL
func (m *Machine) structField(v Value, T types.Type, name string) Value {
	st, _ := v.(Struct)
	return st[fieldIndex(T, name)]
}

func init() {
	const pkg = "github.com/gorilla/mux"
	natives[pkg+".NewRouter"] = func(m *Machine, c *frame, fn *ssa.Function, a []Value) Value {
		return m.newMuxRouter(mux.NewRouter(), nil)
	}
	natives["(*"+pkg+".Router).StrictSlash"] = func(m *Machine, c *frame, fn *ssa.Function, a []Value) Value {
		r := m.muxRouterOf(a[0])
		r.real.StrictSlash(m.term(a[1]).IsTrue())
		return r.ptr
	}
	natives["(*"+pkg+".Router).UseEncodedPath"] = func(m *Machine, c *frame, fn *ssa.Function, a []Value) Value {
		r := m.muxRouterOf(a[0])
		r.real.UseEncodedPath()
		return r.ptr
	}
	natives["(*"+pkg+".Router).SkipClean"] = func(m *Machine, c *frame, fn *ssa.Function, a []Value) Value {
		r := m.muxRouterOf(a[0])
		r.real.SkipClean(m.term(a[1]).IsTrue())
		return r.ptr
	}
	// route constructors on a router
	natives["(*"+pkg+".Router).Methods"] = func(m *Machine, c *frame, fn *ssa.Function, a []Value) Value {
		r := m.muxRouterOf(a[0])
		return m.newMuxRoute(r.real.Methods(m.constStrings(a[1], "mux methods")...), r)
	}
	natives["(*"+pkg+".Router).Path"] = func(m *Machine, c *frame, fn *ssa.Function, a []Value) Value {
		r := m.muxRouterOf(a[0])
		return m.newMuxRoute(r.real.Path(constStr(m, a[1], "mux path")), r)
	}
	natives["(*"+pkg+".Router).PathPrefix"] = func(m *Machine, c *frame, fn *ssa.Function, a []Value) Value {
		r := m.muxRouterOf(a[0])
		return m.newMuxRoute(r.real.PathPrefix(constStr(m, a[1], "mux path prefix")), r)
	}
	natives["(*"+pkg+".Router).NewRoute"] = func(m *Machine, c *frame, fn *ssa.Function, a []Value) Value {
		r := m.muxRouterOf(a[0])
		return m.newMuxRoute(r.real.NewRoute(), r)
	}
	natives["(*"+pkg+".Router).Handle"] = func(m *Machine, c *frame, fn *ssa.Function, a []Value) Value {
		r := m.muxRouterOf(a[0])
		return m.newMuxRoute(r.real.Handle(constStr(m, a[1], "mux path"), m.muxMark(r, a[2])), r)
	}
	natives["(*"+pkg+".Router).HandleFunc"] = func(m *Machine, c *frame, fn *ssa.Function, a []Value) Value {
		r := m.muxRouterOf(a[0])
		return m.newMuxRoute(r.real.Handle(constStr(m, a[1], "mux path"), m.muxMark(r, a[2])), r)
	}
	// route refinement
	natives["(*"+pkg+".Route).Methods"] = func(m *Machine, c *frame, fn *ssa.Function, a []Value) Value {
		rt := m.muxRouteOf(a[0])
		rt.real.Methods(m.constStrings(a[1], "mux methods")...)
		return rt.ptr
	}
	natives["(*"+pkg+".Route).Path"] = func(m *Machine, c *frame, fn *ssa.Function, a []Value) Value {
		rt := m.muxRouteOf(a[0])
		rt.real.Path(constStr(m, a[1], "mux path"))
		return rt.ptr
	}
	natives["(*"+pkg+".Route).PathPrefix"] = func(m *Machine, c *frame, fn *ssa.Function, a []Value) Value {
		rt := m.muxRouteOf(a[0])
		rt.real.PathPrefix(constStr(m, a[1], "mux path prefix"))
		return rt.ptr
	}
	natives["(*"+pkg+".Route).Name"] = func(m *Machine, c *frame, fn *ssa.Function, a []Value) Value {
		rt := m.muxRouteOf(a[0])
		rt.real.Name(constStr(m, a[1], "mux route name"))
		return rt.ptr
	}
	natives["(*"+pkg+".Route).Handler"] = func(m *Machine, c *frame, fn *ssa.Function, a []Value) Value {
		rt := m.muxRouteOf(a[0])
		rt.real.Handler(m.muxMark(rt.router, a[1]))
		return rt.ptr
	}
	natives["(*"+pkg+".Route).HandlerFunc"] = func(m *Machine, c *frame, fn *ssa.Function, a []Value) Value {
		rt := m.muxRouteOf(a[0])
		rt.real.Handler(m.muxMark(rt.router, a[1]))
		return rt.ptr
	}
	natives["(*"+pkg+".Route).Subrouter"] = func(m *Machine, c *frame, fn *ssa.Function, a []Value) Value {
		rt := m.muxRouteOf(a[0])
		return m.newMuxRouter(rt.real.Subrouter(), rt.router)
	}
	natives["(*"+pkg+".Router).ServeHTTP"] = func(m *Machine, c *frame, fn *ssa.Function, a []Value) Value {
		r := m.muxRouterOf(a[0])
		reqP, _ := a[2].(*Value)
		if reqP == nil {
			m.goPanicf("nil *http.Request")
		}
		reqT := m.eng.nativeType("net/http.Request")
		urlT := m.eng.nativeType("net/url.URL")
		method := constStr(m, m.structField(*reqP, reqT, "Method"), "request method")
		up, _ := m.structField(*reqP, reqT, "URL").(*Value)
		if up == nil {
			m.goPanicf("request without URL")
		}
		path := constStr(m, m.structField(*up, urlT, "Path"), "request path")
		rawPath := constStr(m, m.structField(*up, urlT, "RawPath"), "request raw path")
		nreq := &http.Request{Method: method, URL: &url.URL{Path: path, RawPath: rawPath}, Header: http.Header{}}
		var match mux.RouteMatch
		var handler Value
		matched := r.real.Match(nreq, &match)
		if match.MatchErr == mux.ErrMethodMismatch {
			// the path is known but not with this method: gorilla/mux answers 405
			m.event("mux: %s %s -> method not allowed", method, path)
			m.invokeMethod(c, a[1], "WriteHeader", sym.BVConst(64, 405))
			return nil
		}
		if matched && match.MatchErr == nil {
			if mk, ok := match.Handler.(muxMarker); ok {
				handler = (*r.handlers)[mk.idx]
			} else if match.Handler != nil {
				m.unsupported("gorilla/mux internal handler (strict-slash redirect) for %s %s", method, path)
			}
			if len(match.Vars) > 0 || handler != nil {
				vm := &Map{KeyT: types.Typ[types.String]}
				keys := make([]string, 0, len(match.Vars))
				for k := range match.Vars {
					keys = append(keys, k)
				}
				sortStrings(keys)
				for _, k := range keys {
					m.mapInsert(vm, sym.Str(k), sym.Str(match.Vars[k]))
				}
				m.http().vars[reqP] = vm
			}
			m.event("mux: %s %s -> route %q", method, path, match.Route.GetName())
		} else {
			m.event("mux: %s %s -> no route", method, path)
		}
		if handler == nil {
			// NotFoundHandler field of the interpreted router (set by assignment), else 404
			nf := m.structField(*r.top.ptr, m.eng.nativeType("github.com/gorilla/mux.Router"), "NotFoundHandler")
			if it, ok := nf.(Iface); ok && it.T != nil {
				handler = nf
			} else {
				m.invokeMethod(c, a[1], "WriteHeader", sym.BVConst(64, 404))
				return nil
			}
		}
		switch h := handler.(type) {
		case Iface:
			m.invokeMethod(c, h, "ServeHTTP", a[1], a[2])
		default:
			// a func(http.ResponseWriter, *http.Request) value
			m.call(c, 0, handler, []Value{a[1], a[2]})
		}
		return nil
	}
}

// Stubs that let a component constructor run up to its router wiring: listening
// sockets are opaque, the request logger is transparent, the reverse proxy to
// the daemon hands the request to the harness (hook vrfDaemonServe).
func init() {
	natives["net.Listen"] = func(m *Machine, c *frame, fn *ssa.Function, a []Value) Value {
		p := new(Value)
		T := m.eng.nativeType("net.TCPListener")
		*p = zero(T)
		return Tuple{Iface{T: types.NewPointer(T), V: p}, Iface{}}
	}
	natives["github.com/gorilla/handlers.LoggingHandler"] = func(m *Machine, c *frame, fn *ssa.Function, a []Value) Value {
		return a[1]
	}
	natives["(*net/http.Server).SetKeepAlivesEnabled"] = zeroStub
	natives["net/http/httputil.NewSingleHostReverseProxy"] = func(m *Machine, c *frame, fn *ssa.Function, a []Value) Value {
		p := new(Value)
		*p = zero(m.eng.nativeType("net/http/httputil.ReverseProxy"))
		return p
	}
	// CORS and tracing wrappers are transparent
	natives["github.com/rs/cors.New"] = func(m *Machine, c *frame, fn *ssa.Function, a []Value) Value {
		p := new(Value)
		*p = zero(m.eng.nativeType("github.com/rs/cors.Cors"))
		return p
	}
	natives["(*github.com/rs/cors.Cors).Handler"] = func(m *Machine, c *frame, fn *ssa.Function, a []Value) Value { return a[1] }
	natives["go.opencensus.io/plugin/ochttp.WithRouteTag"] = func(m *Machine, c *frame, fn *ssa.Function, a []Value) Value { return a[0] }
	// the opencensus HTTP wrapper hands the request to the handler it wraps
	natives["(*go.opencensus.io/plugin/ochttp.Handler).ServeHTTP"] = func(m *Machine, c *frame, fn *ssa.Function, a []Value) Value {
		p, _ := a[0].(*Value)
		if p == nil {
			m.goPanicf("nil ochttp.Handler")
		}
		inner := m.structField(*p, m.eng.nativeType("go.opencensus.io/plugin/ochttp.Handler"), "Handler")
		if it, ok := inner.(Iface); !ok || it.T == nil {
			m.unsupported("ochttp.Handler without an inner handler (http.DefaultServeMux)")
		}
		m.invokeMethod(c, inner, "ServeHTTP", a[1], a[2])
		return nil
	}
	natives["(*net/http/httputil.ReverseProxy).ServeHTTP"] = func(m *Machine, c *frame, fn *ssa.Function, a []Value) Value {
		hook := m.eng.pkg.Func("vrfDaemonServe")
		if hook == nil {
			m.unsupported("request relayed to the daemon (reverse proxy) without a harness hook vrfDaemonServe")
		}
		m.callSSA(c, hook, []Value{a[1], a[2]}, nil)
		return nil
	}
}
