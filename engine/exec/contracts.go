package exec

import (
	"encoding/base32"
	"fmt"
	"go/types"
	"math/big"
	"strconv"
	"strings"

	"golang.org/x/tools/go/ssa"

	"verif/engine/sym"
)

// Contract stubs: library codecs run natively on concrete data and become
// uninterpreted functions with their documented inverse laws on symbolic data.

const b58Alphabet = "123456789ABCDEFGHJKLMNPQRSTUVWXYZabcdefghijkmnopqrstuvwxyz"

func b58Encode(b []byte) string {
	x := new(big.Int).SetBytes(b)
	base := big.NewInt(58)
	zero := big.NewInt(0)
	mod := new(big.Int)
	var out []byte
	for x.Cmp(zero) > 0 {
		x.DivMod(x, base, mod)
		out = append(out, b58Alphabet[mod.Int64()])
	}
	for _, c := range b {
		if c != 0 {
			break
		}
		out = append(out, '1')
	}
	for i, j := 0, len(out)-1; i < j; i, j = i+1, j-1 {
		out[i], out[j] = out[j], out[i]
	}
	return string(out)
}

func b58Decode(s string) ([]byte, bool) {
	x := big.NewInt(0)
	base := big.NewInt(58)
	for _, c := range s {
		i := strings.IndexRune(b58Alphabet, c)
		if i < 0 {
			return nil, false
		}
		x.Mul(x, base)
		x.Add(x, big.NewInt(int64(i)))
	}
	out := x.Bytes()
	for _, c := range s {
		if c != '1' {
			break
		}
		out = append([]byte{0}, out...)
	}
	return out, true
}

func uvarint(b []byte) (uint64, int) {
	var x uint64
	var s uint
	for i, c := range b {
		if i >= 9 {
			return 0, -1
		}
		if c < 0x80 {
			return x | uint64(c)<<s, i + 1
		}
		x |= uint64(c&0x7f) << s
		s += 7
	}
	return 0, 0
}

func validMultihash(b []byte) bool {
	_, n := uvarint(b)
	if n <= 0 {
		return false
	}
	l, n2 := uvarint(b[n:])
	if n2 <= 0 {
		return false
	}
	return uint64(len(b)-n-n2) == l
}

var b32 = base32.NewEncoding("abcdefghijklmnopqrstuvwxyz234567").WithPadding(base32.NoPadding)

func cidDecodeConcrete(v string) (string, bool) {
	if len(v) < 2 {
		return "", false
	}
	if len(v) == 46 && v[:2] == "Qm" {
		b, ok := b58Decode(v)
		if !ok || len(b) != 34 || b[0] != 0x12 || b[1] != 0x20 {
			return "", false
		}
		return string(b), true
	}
	var data []byte
	switch v[0] {
	case 'b':
		d, err := b32.DecodeString(v[1:])
		if err != nil {
			return "", false
		}
		data = d
	case 'z':
		d, ok := b58Decode(v[1:])
		if !ok {
			return "", false
		}
		data = d
	default:
		return "", false
	}
	// Cast: v0 (34 bytes sha256 multihash) or v1
	if len(data) == 34 && data[0] == 0x12 && data[1] == 0x20 {
		return string(data), true
	}
	ver, n := uvarint(data)
	if n <= 0 || ver != 1 {
		return "", false
	}
	_, n2 := uvarint(data[n:])
	if n2 <= 0 {
		return "", false
	}
	if !validMultihash(data[n+n2:]) {
		return "", false
	}
	return string(data), true
}

func cidStringConcrete(s string) string {
	if len(s) == 34 && s[0] == 0x12 && s[1] == 0x20 {
		return b58Encode([]byte(s))
	}
	return "b" + b32.EncodeToString([]byte(s))
}

const cidPkg = "github.com/ipfs/go-cid"
const peerPkg = "github.com/libp2p/go-libp2p-core/peer"

func (m *Machine) cidValue(str *sym.Term) Value { return Struct{str} }

// addCodecAxioms asserts the inverse laws for every encoder application inside t.
func (m *Machine) addCodecAxioms(t *sym.Term, seen map[*sym.Term]bool) {
	if t.Const || seen[t] {
		return
	}
	seen[t] = true
	if t.Op == "uf" {
		switch t.Name {
		case "uf_cid_str":
			m.assertPC(sym.UF("uf_cid_ok", sym.BoolSort, t))
			m.assertPC(sym.Eq(sym.UF("uf_cid_bytes", sym.StrSort, t), t.Args[0]))
		case "uf_peer_str":
			m.assertPC(sym.UF("uf_peer_ok", sym.BoolSort, t))
			m.assertPC(sym.Eq(sym.UF("uf_peer_bytes", sym.StrSort, t), t.Args[0]))
		case "uf_fmtu":
			m.assertPC(sym.UF("uf_pu_ok", sym.BoolSort, t))
			m.assertPC(sym.Eq(sym.UF("uf_pu_val", sym.BV(64), t), t.Args[0]))
			// an unsigned rendering read back as a signed number: fits iff below 2^63
			fits := sym.SLe(sym.BVConst(64, 0), t.Args[0])
			m.assertPC(sym.Eq(sym.UF("uf_pi_ok", sym.BoolSort, t), fits))
			m.assertPC(sym.Implies(fits, sym.Eq(sym.UF("uf_pi_val", sym.BV(64), t), t.Args[0])))
		case "uf_fmti":
			m.assertPC(sym.UF("uf_pi_ok", sym.BoolSort, t))
			m.assertPC(sym.Eq(sym.UF("uf_pi_val", sym.BV(64), t), t.Args[0]))
			// a signed rendering read back as an unsigned number: parses iff not negative
			nonneg := sym.SLe(sym.BVConst(64, 0), t.Args[0])
			m.assertPC(sym.Eq(sym.UF("uf_pu_ok", sym.BoolSort, t), nonneg))
			m.assertPC(sym.Implies(nonneg, sym.Eq(sym.UF("uf_pu_val", sym.BV(64), t), t.Args[0])))
		}
	}
	for _, a := range t.Args {
		m.addCodecAxioms(a, seen)
	}
}

// constLeaves calls f for every constant string leaf of an ite-tree.
func constLeaves(t *sym.Term, f func(c *sym.Term)) {
	if t.Const {
		f(t)
		return
	}
	if t.Op == "ite" {
		constLeaves(t.Args[1], f)
		constLeaves(t.Args[2], f)
	}
}

func init() {
	natives[cidPkg+".Decode"] = func(m *Machine, c *frame, fn *ssa.Function, a []Value) Value {
		s := m.term(a[0])
		if s.Const {
			str, ok := cidDecodeConcrete(s.S)
			if !ok {
				return Tuple{m.cidValue(sym.Str("")), m.newErrorString(sym.Str("invalid cid: " + s.S))}
			}
			return Tuple{m.cidValue(sym.Str(str)), Iface{}}
		}
		m.addCodecAxioms(s, map[*sym.Term]bool{})
		constLeaves(s, func(cst *sym.Term) {
			str, ok := cidDecodeConcrete(cst.S)
			m.assertPC(sym.Eq(sym.UF("uf_cid_ok", sym.BoolSort, cst), sym.Bool(ok)))
			if ok {
				m.assertPC(sym.Eq(sym.UF("uf_cid_bytes", sym.StrSort, cst), sym.Str(str)))
			}
		})
		ok := sym.UF("uf_cid_ok", sym.BoolSort, s)
		m.noteDecoded("uf_cid_ok", s)
		m.assertPC(sym.Implies(sym.Eq(s, sym.Str("")), sym.Not(ok))) // the empty text decodes to nothing
		if m.branch(ok) {
			bs := sym.UF("uf_cid_bytes", sym.StrSort, s)
			// a decoded CID is never the undefined CID
			m.assertPC(sym.Not(sym.Eq(bs, sym.Str(""))))
			return Tuple{m.cidValue(bs), Iface{}}
		}
		return Tuple{m.cidValue(sym.Str("")), m.newErrorString(sym.Var(m.freshName("ciderr"), sym.StrSort))}
	}
	natives["("+cidPkg+".Cid).String"] = func(m *Machine, c *frame, fn *ssa.Function, a []Value) Value {
		s := m.term(a[0].(Struct)[0])
		if s.Const {
			if s.S == "" {
				m.goPanicf("cid.Undef.String(): invalid cid")
			}
			return sym.Str(cidStringConcrete(s.S))
		}
		return sym.UF("uf_cid_str", sym.StrSort, s)
	}
	natives["("+cidPkg+".Cid).Bytes"] = func(m *Machine, c *frame, fn *ssa.Function, a []Value) Value {
		s := m.term(a[0].(Struct)[0])
		if !s.Const {
			m.unsupported("Cid.Bytes of symbolic cid")
		}
		out := make([]Value, len(s.S))
		for i := range out {
			out[i] = sym.BVConst(8, uint64(s.S[i]))
		}
		return out
	}

	natives[cidPkg+".Cast"] = func(m *Machine, c *frame, fn *ssa.Function, a []Value) Value {
		bs, _ := a[0].([]Value)
		buf := make([]byte, len(bs))
		for i, b := range bs {
			t := m.term(b)
			if !t.Const {
				m.unsupported("cid.Cast of symbolic bytes")
			}
			buf[i] = byte(t.U)
		}
		ok := false
		if len(buf) == 34 && buf[0] == 0x12 && buf[1] == 0x20 {
			ok = true
		} else if ver, n := uvarint(buf); n > 0 && ver == 1 {
			if _, n2 := uvarint(buf[n:]); n2 > 0 && validMultihash(buf[n+n2:]) {
				ok = true
			}
		}
		if !ok {
			return Tuple{m.cidValue(sym.Str("")), m.newErrorString(sym.Str("invalid cid bytes"))}
		}
		return Tuple{m.cidValue(sym.Str(string(buf))), Iface{}}
	}
	// protobuf: proto.Marshal/Unmarshal are the identity on the message; the
	// produced bytes are a handle that survives copying
	natives["github.com/golang/protobuf/proto.Marshal"] = stubProtoMarshal
	natives["google.golang.org/protobuf/proto.Marshal"] = stubProtoMarshal
	natives["github.com/gogo/protobuf/proto.Marshal"] = stubProtoMarshal
	natives["github.com/golang/protobuf/proto.Unmarshal"] = stubProtoUnmarshal
	natives["google.golang.org/protobuf/proto.Unmarshal"] = stubProtoUnmarshal
	natives["github.com/gogo/protobuf/proto.Unmarshal"] = stubProtoUnmarshal

	peerStr := func(m *Machine, c *frame, fn *ssa.Function, a []Value) Value {
		s := m.term(a[0])
		if s.Const {
			return sym.Str(b58Encode([]byte(s.S)))
		}
		return sym.UF("uf_peer_str", sym.StrSort, s)
	}
	natives["("+peerPkg+".ID).Pretty"] = peerStr
	natives["("+peerPkg+".ID).String"] = peerStr
	natives[peerPkg+".Encode"] = peerStr
	natives[peerPkg+".IDB58Encode"] = peerStr
	natives["("+peerPkg+".ID).ShortString"] = func(m *Machine, c *frame, fn *ssa.Function, a []Value) Value {
		return sym.Var(m.freshName("peershort"), sym.StrSort)
	}
	peerDecode := func(m *Machine, c *frame, fn *ssa.Function, a []Value) Value {
		s := m.term(a[0])
		decode := func(v string) (string, bool) {
			if strings.HasPrefix(v, "Qm") || strings.HasPrefix(v, "1") {
				b, ok := b58Decode(v)
				if !ok || !validMultihash(b) {
					return "", false
				}
				return string(b), true
			}
			return "", false
		}
		if s.Const {
			str, ok := decode(s.S)
			if !ok {
				return Tuple{sym.Str(""), m.newErrorString(sym.Str("failed to parse peer ID"))}
			}
			return Tuple{sym.Str(str), Iface{}}
		}
		m.addCodecAxioms(s, map[*sym.Term]bool{})
		constLeaves(s, func(cst *sym.Term) {
			str, ok := decode(cst.S)
			m.assertPC(sym.Eq(sym.UF("uf_peer_ok", sym.BoolSort, cst), sym.Bool(ok)))
			if ok {
				m.assertPC(sym.Eq(sym.UF("uf_peer_bytes", sym.StrSort, cst), sym.Str(str)))
			}
		})
		ok := sym.UF("uf_peer_ok", sym.BoolSort, s)
		m.noteDecoded("uf_peer_ok", s)
		m.assertPC(sym.Implies(sym.Eq(s, sym.Str("")), sym.Not(ok)))
		if m.branch(ok) {
			bs := sym.UF("uf_peer_bytes", sym.StrSort, s)
			m.assertPC(sym.Not(sym.Eq(bs, sym.Str(""))))
			return Tuple{bs, Iface{}}
		}
		return Tuple{sym.Str(""), m.newErrorString(sym.Var(m.freshName("peererr"), sym.StrSort))}
	}
	natives[peerPkg+".Decode"] = peerDecode
	natives[peerPkg+".IDB58Decode"] = peerDecode

	// ---- strconv on symbolic data
	parseU := func(signed bool) stubFn {
		okN, valN := "uf_pu_ok", "uf_pu_val"
		if signed {
			okN, valN = "uf_pi_ok", "uf_pi_val"
		}
		return func(m *Machine, c *frame, fn *ssa.Function, a []Value) Value {
			s := m.term(a[0])
			m.noteDecoded(okN, s)
			m.addCodecAxioms(s, map[*sym.Term]bool{})
			constLeaves(s, func(cst *sym.Term) {
				var v uint64
				var err error
				if signed {
					var iv int64
					iv, err = strconv.ParseInt(cst.S, 10, 64)
					v = uint64(iv)
				} else {
					v, err = strconv.ParseUint(cst.S, 10, 64)
				}
				m.assertPC(sym.Eq(sym.UF(okN, sym.BoolSort, cst), sym.Bool(err == nil)))
				if err == nil {
					m.assertPC(sym.Eq(sym.UF(valN, sym.BV(64), cst), sym.BVConst(64, v)))
				}
			})
			ok := sym.UF(okN, sym.BoolSort, s)
			// the empty text is not a number (also when s only happens to be empty)
			if !s.Const {
				m.assertPC(sym.Implies(sym.Eq(s, sym.Str("")), sym.Not(ok)))
			}
			if m.branch(ok) {
				return Tuple{sym.UF(valN, sym.BV(64), s), Iface{}}
			}
			return Tuple{sym.BVConst(64, 0), m.newErrorString(sym.Var(m.freshName("numerr"), sym.StrSort))}
		}
	}
	wrapBase10 := func(name string, f interface{}, model stubFn) {
		natives[name] = goNative(name, f, func(m *Machine, c *frame, fn *ssa.Function, a []Value) Value {
			for _, x := range a[1:] {
				if t, ok := x.(*sym.Term); !ok || !t.Const {
					m.unsupported("%s with symbolic base/size", name)
				}
			}
			if len(a) > 1 && m.term(a[1]).U != 10 {
				m.unsupported("%s with base != 10 on symbolic data", name)
			}
			return model(m, c, fn, a)
		})
	}
	wrapBase10("strconv.ParseUint", strconv.ParseUint, parseU(false))
	wrapBase10("strconv.ParseInt", strconv.ParseInt, parseU(true))
	natives["strconv.Atoi"] = goNative("strconv.Atoi", strconv.Atoi, parseU(true))
	wrapBase10("strconv.FormatUint", strconv.FormatUint, func(m *Machine, c *frame, fn *ssa.Function, a []Value) Value {
		return m.fmtTerm(m.term(a[0]), false)
	})
	wrapBase10("strconv.FormatInt", strconv.FormatInt, func(m *Machine, c *frame, fn *ssa.Function, a []Value) Value {
		return m.fmtTerm(m.term(a[0]), true)
	})
	natives["strconv.Itoa"] = goNative("strconv.Itoa", strconv.Itoa, func(m *Machine, c *frame, fn *ssa.Function, a []Value) Value {
		return m.fmtTerm(m.term(a[0]), true)
	})
}

// fmtTerm builds the decimal rendering of a symbolic integer together with the
// facts every such rendering satisfies: it is not empty and parses back.
func (m *Machine) fmtTerm(v *sym.Term, signed bool) *sym.Term {
	name, okN, valN := "uf_fmtu", "uf_pu_ok", "uf_pu_val"
	if signed {
		name, okN, valN = "uf_fmti", "uf_pi_ok", "uf_pi_val"
	}
	t := sym.UF(name, sym.StrSort, v)
	m.assertPC(sym.Not(sym.Eq(t, sym.Str(""))))
	m.assertPC(sym.UF(okN, sym.BoolSort, t))
	m.assertPC(sym.Eq(sym.UF(valN, sym.BV(64), t), v))
	return t
}

// fmtIntArg renders "%d" of a symbolic integer as the inverse-pair encoder.
func (m *Machine) fmtIntArg(v Value) (*sym.Term, bool) {
	itf, ok := v.(Iface)
	if !ok || itf.T == nil {
		return nil, false
	}
	b, ok := itf.T.Underlying().(*types.Basic)
	if !ok || b.Info()&types.IsInteger == 0 {
		return nil, false
	}
	t, ok := itf.V.(*sym.Term)
	if !ok {
		return nil, false
	}
	w, signed := widthOf(b)
	if t.Const {
		if signed {
			return sym.Str(fmt.Sprintf("%d", t.SInt())), true
		}
		return sym.Str(fmt.Sprintf("%d", t.U)), true
	}
	if w != 64 {
		t = sym.Resize(t, 64, signed)
	}
	return m.fmtTerm(t, signed), true
}

func stubProtoMarshal(m *Machine, c *frame, fn *ssa.Function, a []Value) Value {
	msg, _ := a[0].(Iface)
	if msg.T == nil {
		return Tuple{[]Value(nil), m.newErrorString(sym.Str("proto: Marshal called with nil"))}
	}
	p, ok := msg.V.(*Value)
	if !ok || p == nil {
		m.unsupported("proto.Marshal of %T", msg.V)
	}
	m.protoMsgs = append(m.protoMsgs, protoMsg{T: msg.T, V: copyValDeep(*p)})
	id := uint64(len(m.protoMsgs))
	out := make([]Value, 9)
	out[0] = sym.BVConst(8, 0xA7) // handle marker
	for i := 0; i < 8; i++ {
		out[1+i] = sym.BVConst(8, (id>>(8*uint(7-i)))&0xff)
	}
	return Tuple{out, Iface{}}
}

func stubProtoUnmarshal(m *Machine, c *frame, fn *ssa.Function, a []Value) Value {
	bs, _ := a[0].([]Value)
	msg, _ := a[1].(Iface)
	bad := func() Value { return m.newErrorString(sym.Str("proto: cannot parse invalid wire-format data")) }
	if len(bs) == 0 {
		// empty input is the empty message
		if p, ok := msg.V.(*Value); ok && p != nil {
			store(p, zero(msg.T.Underlying().(*types.Pointer).Elem()))
		}
		return Iface{}
	}
	if len(bs) != 9 {
		return bad()
	}
	var id uint64
	for i, b := range bs {
		t := m.term(b)
		if !t.Const {
			m.unsupported("proto.Unmarshal of symbolic bytes")
		}
		if i == 0 {
			if t.U != 0xA7 {
				return bad()
			}
			continue
		}
		id = id<<8 | t.U
	}
	if id == 0 || id > uint64(len(m.protoMsgs)) {
		return bad()
	}
	src := m.protoMsgs[id-1]
	if msg.T == nil || !types.Identical(msg.T, src.T) {
		return bad()
	}
	store(msg.V.(*Value), copyValDeep(src.V))
	return Iface{}
}

type protoMsg struct {
	T types.Type
	V Value
}

// copyValDeep copies aggregates and also slices, maps and pointed-to structs
// (a serialised message shares nothing with the original).
func copyValDeep(v Value) Value {
	switch v := v.(type) {
	case Struct:
		c := make(Struct, len(v))
		for i, f := range v {
			c[i] = copyValDeep(f)
		}
		return c
	case Array:
		c := make(Array, len(v))
		for i, f := range v {
			c[i] = copyValDeep(f)
		}
		return c
	case []Value:
		if v == nil {
			return v
		}
		c := make([]Value, len(v))
		for i, f := range v {
			c[i] = copyValDeep(f)
		}
		return c
	case *Map:
		if v == nil {
			return v
		}
		c := &Map{KeyT: v.KeyT}
		for _, e := range v.entries {
			if !e.deleted {
				c.entries = append(c.entries, &mapEntry{key: copyValDeep(e.key), val: copyValDeep(e.val)})
			}
		}
		return c
	case *Value:
		if v == nil {
			return v
		}
		p := new(Value)
		*p = copyValDeep(*v)
		return p
	case Iface:
		return Iface{T: v.T, V: copyValDeep(v.V)}
	}
	return v
}

// ---- blake2b.Sum256 as an uninterpreted, collision-free hash; bytes.Compare on symbolic bytes

func init() {
	natives["golang.org/x/crypto/blake2b.Sum256"] = func(m *Machine, c *frame, fn *ssa.Function, a []Value) Value {
		in := string(m.concreteBytes(a[0], "blake2b.Sum256 input"))
		if m.hashes == nil {
			m.hashes = map[string]Array{}
		}
		if h, ok := m.hashes[in]; ok {
			return copyVal(h)
		}
		h := make(Array, 32)
		for i := range h {
			t := sym.Var(m.freshName("blake2b_byte"), sym.BV(8))
			m.sol.Declare(t)
			m.nondets = append(m.nondets, nondetRec{Tag: "blake2b(" + strconv.Quote(in) + ")[" + strconv.Itoa(i) + "]", Kind: "uint8", T: t})
			m.pin(t, "blake2b("+strconv.Quote(in)+")["+strconv.Itoa(i)+"]", "uint8")
			h[i] = t
		}
		// collision-free: differs from every hash of a different input
		for _, other := range m.hashes {
			same := sym.True()
			for i := range h {
				same = sym.And(same, sym.Eq(h[i].(*sym.Term), other[i].(*sym.Term)))
			}
			m.assertPC(sym.Not(same))
		}
		m.hashes[in] = h
		return copyVal(h)
	}
	concreteCompare := natives["bytes.Compare"]
	natives["bytes.Compare"] = func(m *Machine, c *frame, fn *ssa.Function, a []Value) Value {
		x, _ := a[0].([]Value)
		y, _ := a[1].([]Value)
		allConst := true
		for _, v := range append(append([]Value{}, x...), y...) {
			if t, ok := v.(*sym.Term); !ok || !t.Const {
				allConst = false
			}
		}
		if allConst && concreteCompare != nil {
			return concreteCompare(m, c, fn, a)
		}
		// lexicographic comparison as a term
		n := len(x)
		if len(y) < n {
			n = len(y)
		}
		var res *sym.Term
		switch {
		case len(x) < len(y):
			res = sym.BVConst(64, ^uint64(0))
		case len(x) > len(y):
			res = sym.BVConst(64, 1)
		default:
			res = sym.BVConst(64, 0)
		}
		for i := n - 1; i >= 0; i-- {
			xi, yi := m.term(x[i]), m.term(y[i])
			res = sym.Ite(sym.ULt(xi, yi), sym.BVConst(64, ^uint64(0)), sym.Ite(sym.ULt(yi, xi), sym.BVConst(64, 1), res))
		}
		return res
	}
}

// ---- go-ipld-cbor: WrapObject yields a fresh node with a fresh CID (hashing
// and CBOR encoding are outside the model); Cid/RawData/Size run from their SSA
// on the fields set here.

func init() {
	const cb = "github.com/ipfs/go-ipld-cbor"
	natives[cb+".WrapObject"] = func(m *Machine, c *frame, fn *ssa.Function, a []Value) Value {
		T := m.eng.nativeType(cb + ".Node")
		st := zero(T).(Struct)
		m.cborN++
		cidBytes := append([]byte{0x01, 0x71, 0x12, 0x20}, make([]byte, 32)...)
		cidBytes[4] = 0xcb
		cidBytes[34] = byte(m.cborN >> 8)
		cidBytes[35] = byte(m.cborN)
		st[fieldIndex(T, "cid")] = Struct{sym.Str(string(cidBytes))}
		st[fieldIndex(T, "raw")] = bytesOf("cbor-node")
		st[fieldIndex(T, "obj")] = a[0]
		// the links of the node: one per CID value of a wrapped map (what the real
		// WrapObject finds by traversing the object)
		if it, ok := a[0].(Iface); ok {
			if mp, ok := it.V.(*Map); ok && mp != nil {
				if mt, ok := it.T.Underlying().(*types.Map); ok && strings.HasSuffix(mt.Elem().String(), "go-cid.Cid") {
					LT := m.eng.nativeType("github.com/ipfs/go-ipld-format.Link")
					var links []Value
					for _, e := range mp.entries {
						if e.deleted {
							continue
						}
						l := zero(LT).(Struct)
						l[fieldIndex(LT, "Cid")] = copyVal(e.val)
						lp := new(Value)
						*lp = l
						links = append(links, lp)
					}
					st[fieldIndex(T, "links")] = links
				}
			}
		}
		p := new(Value)
		*p = st
		return Tuple{p, Iface{}}
	}
}

// noteDecoded records that a decoder was applied to the string term s on this
// path; only inputs that reach a decoder are rewritten for native replay.
func (m *Machine) noteDecoded(okN string, s *sym.Term) {
	if m.ufArgs == nil {
		m.ufArgs = map[string][]*sym.Term{}
	}
	m.ufArgs[okN] = append(m.ufArgs[okN], s)
}

func (m *Machine) reachesDecoder(okN string, v *sym.Term) bool {
	seen := map[*sym.Term]bool{}
	var walk func(t *sym.Term) bool
	walk = func(t *sym.Term) bool {
		if t == v {
			return true
		}
		if t.Const || seen[t] {
			return false
		}
		seen[t] = true
		for _, a := range t.Args {
			if walk(a) {
				return true
			}
		}
		return false
	}
	for _, t := range m.ufArgs[okN] {
		if walk(t) {
			return true
		}
	}
	return false
}
