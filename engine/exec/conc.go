package exec

import (
	"fmt"
	"go/types"

	"golang.org/x/tools/go/ssa"

	"verif/engine/sym"
)

// ---------------------------------------------------------------------------
// channels

// chanState refreshes a model-owned channel (ctx.Done(), timer.C) from its owner.
func (m *Machine) chanRefresh(c *Chan) {
	if c == nil || c.Owner == nil {
		return
	}
	switch d := c.Owner.Data.(type) {
	case *ctxData:
		if m.ctxCancelled(d) {
			c.Closed = true
		}
	}
}

// chanMayFire reports whether an environment transition could make the channel ready.
func (m *Machine) chanMayFire(c *Chan) bool {
	if c == nil || c.Owner == nil {
		return false
	}
	switch d := c.Owner.Data.(type) {
	case *ctxData:
		return !m.ctxCancelled(d) && m.ctxMayFire(d)
	case *timerData:
		return d.active && len(c.Buf) == 0
	}
	return false
}

func (m *Machine) chanFire(c *Chan) {
	switch d := c.Owner.Data.(type) {
	case *ctxData:
		m.ctxFire(d)
		c.Closed = true
	case *timerData:
		d.active = d.periodic
		d.fired++
		c.Buf = append(c.Buf, m.nowValue())
		m.event("timer#%d fires", c.Owner.ID)
	}
}

func (m *Machine) chanSend(fr *frame, ch Value, v Value) {
	c, _ := ch.(*Chan)
	if c == nil {
		m.end(endBlocked, "send on nil channel blocks forever at %s", m.where())
	}
	if c.Closed {
		m.goPanicf("send on closed channel")
	}
	if len(c.Buf) < c.Cap {
		c.Buf = append(c.Buf, copyVal(v))
		return
	}
	if m.cfg.UnbufferedAsMailbox && c.Cap == 0 && len(c.Buf) == 0 {
		c.Buf = append(c.Buf, copyVal(v))
		return
	}
	m.end(endBlocked, "send blocks (channel full, no receiver modelled) at %s", m.where())
}

func (m *Machine) chanRecv(fr *frame, ch Value, commaOk bool, instr *ssa.UnOp) Value {
	c, _ := ch.(*Chan)
	if c == nil {
		m.end(endBlocked, "receive on nil channel blocks forever at %s", m.where())
	}
	m.chanRefresh(c)
	var v Value
	ok := true
	switch {
	case len(c.Buf) > 0:
		v = c.Buf[0]
		c.Buf = c.Buf[1:]
	case c.Closed:
		v = zero(c.ElemT)
		ok = false
	case m.chanMayFire(c):
		m.chanFire(c)
		if len(c.Buf) > 0 {
			v = c.Buf[0]
			c.Buf = c.Buf[1:]
		} else {
			v = zero(c.ElemT)
			ok = false
		}
	default:
		m.blockedForever(fmt.Sprintf("receive blocks forever (empty channel, nothing can make it ready) at %s", m.where()))
	}
	if commaOk {
		return Tuple{v, sym.Bool(ok)}
	}
	return v
}

func (m *Machine) blockedForever(msg string) {
	m.event("BLOCKED-FOREVER: %s", msg)
	if m.cfg.BlockedIsViolation != "" {
		m.recordViolation(m.cfg.BlockedIsViolation, msg)
	}
	m.end(endBlocked, "%s", msg)
}

func (m *Machine) chanClose(ch Value) {
	c, _ := ch.(*Chan)
	if c == nil {
		m.goPanicf("close of nil channel")
	}
	if c.Closed {
		m.goPanicf("close of closed channel")
	}
	c.Closed = true
}

func (m *Machine) selectStmt(fr *frame, instr *ssa.Select) Value {
	type cand struct {
		idx  int
		fire bool
	}
	var ready []cand
	for i, st := range instr.States {
		c, _ := fr.get(st.Chan).(*Chan)
		if c == nil {
			continue
		}
		m.chanRefresh(c)
		if st.Dir == types.RecvOnly {
			if len(c.Buf) > 0 || c.Closed {
				ready = append(ready, cand{i, false})
			} else if m.chanMayFire(c) {
				ready = append(ready, cand{i, true})
			}
		} else {
			if c.Closed || len(c.Buf) < c.Cap || (m.cfg.UnbufferedAsMailbox && c.Cap == 0 && len(c.Buf) == 0) {
				ready = append(ready, cand{i, false})
			}
		}
	}
	chosen := -1
	definitely := 0
	for _, r := range ready {
		if !r.fire {
			definitely++
		}
	}
	if !instr.Blocking {
		// default is taken only when no case is ready right now; environment
		// transitions (timer fires) may or may not have happened: both explored.
		n := len(ready)
		if definitely == 0 {
			n++ // default is an option
		}
		k := 0
		if n > 1 {
			k = m.choice(n, "select")
		}
		if k < len(ready) {
			chosen = k
		} else {
			chosen = -1
		}
		if len(ready) == 0 {
			chosen = -1
		}
	} else {
		if len(ready) == 0 {
			m.blockedForever(fmt.Sprintf("select blocks forever (no case can become ready) at %s", m.where()))
		}
		chosen = m.choice(len(ready), "select")
	}
	r := Tuple{nil, sym.False()}
	selIdx := -1
	var recvV Value
	recvOK := false
	if chosen >= 0 {
		cd := ready[chosen]
		selIdx = cd.idx
		st := instr.States[cd.idx]
		c := fr.get(st.Chan).(*Chan)
		if cd.fire {
			m.chanFire(c)
		}
		if st.Dir == types.RecvOnly {
			if len(c.Buf) > 0 {
				recvV = c.Buf[0]
				c.Buf = c.Buf[1:]
				recvOK = true
			} else {
				recvV = zero(c.ElemT)
			}
		} else {
			if c.Closed {
				m.goPanicf("send on closed channel")
			}
			c.Buf = append(c.Buf, copyVal(fr.get(st.Send)))
		}
		m.event("select@%s takes case %d", m.eng.prog.Fset.Position(instr.Pos()), cd.idx)
	} else {
		m.event("select@%s takes default", m.eng.prog.Fset.Position(instr.Pos()))
	}
	r[0] = sym.BVConst(64, uint64(int64(selIdx)))
	r[1] = sym.Bool(recvOK)
	for i, st := range instr.States {
		if st.Dir == types.RecvOnly {
			if i == selIdx && recvOK {
				r = append(r, recvV)
			} else {
				r = append(r, zero(st.Chan.Type().Underlying().(*types.Chan).Elem()))
			}
		}
	}
	return r
}

func (m *Machine) event(format string, args ...interface{}) {
	if len(m.res.Events) < 400 {
		m.res.Events = append(m.res.Events, fmt.Sprintf(format, args...))
	}
}

// ---------------------------------------------------------------------------
// goroutines

func (m *Machine) goStmt(fr *frame, instr *ssa.Go, fn Value, args []Value) {
	name := ""
	switch f := fn.(type) {
	case *ssa.Function:
		name = f.String()
	case *Closure:
		name = f.Fn.String()
	}
	mode := m.cfg.GoMode
	for pat, md := range m.cfg.GoModes {
		if matchName(pat, name) {
			mode = md
		}
	}
	switch mode {
	case "inline":
		m.event("go %s (run inline)", name)
		if nm, ok := fn.(*nativeMethod); ok {
			m.callNativeMethod(fr, nm, args, instr.Call.Signature())
		} else {
			m.call(fr, instr.Pos(), fn, args)
		}
		m.cur = fr
	default:
		m.event("go %s (not executed)", name)
		m.note("goroutine %s is not executed (declared irrelevant to the claim)", name)
	}
}

func matchName(pat, name string) bool {
	if pat == name {
		return true
	}
	if len(pat) > 0 && pat[len(pat)-1] == '*' {
		p := pat[:len(pat)-1]
		return len(name) >= len(p) && name[:len(p)] == p
	}
	return false
}

// ---------------------------------------------------------------------------
// contexts

type ctxData struct {
	parent    Value // Iface
	cancelled bool
	err       Value
	done      *Chan
	timeout   bool
	key, val  Value
	hasKV     bool
}

func (m *Machine) newNative(kind string, data interface{}) *Native {
	m.nextID++
	return &Native{Kind: kind, Data: data, ID: m.nextID}
}

func (m *Machine) ctxParentData(d *ctxData) *ctxData {
	if p, ok := d.parent.(Iface); ok {
		if n, ok := p.V.(*Native); ok {
			if pd, ok := n.Data.(*ctxData); ok {
				return pd
			}
		}
	}
	return nil
}

func (m *Machine) ctxCancelled(d *ctxData) bool {
	for x := d; x != nil; x = m.ctxParentData(x) {
		if x.cancelled {
			if !d.cancelled {
				d.cancelled = true
				d.err = x.err
			}
			return true
		}
	}
	return false
}

func (m *Machine) ctxMayFire(d *ctxData) bool {
	if !m.cfg.TimeoutsFire {
		return false
	}
	for x := d; x != nil; x = m.ctxParentData(x) {
		if x.timeout && !x.cancelled {
			return true
		}
	}
	return false
}

func (m *Machine) ctxFire(d *ctxData) {
	for x := d; x != nil; x = m.ctxParentData(x) {
		if x.timeout && !x.cancelled {
			x.cancelled = true
			x.err = m.pkgVar("context", "DeadlineExceeded")
			m.event("context deadline fires")
			break
		}
	}
	m.ctxCancelled(d)
}

func (m *Machine) pkgVar(pkg, name string) Value {
	p := m.eng.prog.ImportedPackage(pkg)
	if p == nil {
		m.unsupported("package %s not loaded", pkg)
	}
	g := p.Var(name)
	if g == nil {
		m.unsupported("no var %s.%s", pkg, name)
	}
	return load(m.global(g))
}

func (m *Machine) ctxIface(n *Native) Iface {
	return Iface{T: m.eng.nativeType("context.Context"), V: n}
}

func (m *Machine) newCtx(parent Value, timeout bool) (*Native, Value) {
	d := &ctxData{parent: parent, timeout: timeout}
	n := m.newNative("ctx", d)
	m.nextID++
	d.done = &Chan{ID: m.nextID, Owner: n, ElemT: types.NewStruct(nil, nil)}
	cancel := &NativeFunc{Name: "cancel", Fn: func(m *Machine, args []Value) Value {
		if !m.ctxCancelled(d) {
			d.cancelled = true
			d.err = m.pkgVar("context", "Canceled")
		}
		return nil
	}}
	return n, cancel
}

type NativeFunc struct {
	Name string
	Fn   func(m *Machine, args []Value) Value
}

func (m *Machine) callNativeMethod(fr *frame, nm *nativeMethod, args []Value, sig *types.Signature) Value {
	switch d := nm.obj.Data.(type) {
	case *ctxData:
		switch nm.name {
		case "Done":
			m.chanRefresh(d.done)
			return d.done
		case "Err":
			if m.ctxCancelled(d) {
				return d.err
			}
			return Iface{}
		case "Deadline":
			return Tuple{zero(sig.Results().At(0).Type()), sym.False()}
		case "Value":
			if d.hasKV && m.branch(m.equalValue(d.key, args[0])) {
				return d.val
			}
			if p, ok := d.parent.(Iface); ok && p.T != nil {
				if pn, ok := p.V.(*Native); ok {
					return m.callNativeMethod(fr, &nativeMethod{pn, "Value"}, args, sig)
				}
				f := m.eng.prog.LookupMethod(p.T, nil, "Value")
				if f != nil {
					return m.call(fr, 0, f, []Value{p.V, args[0]})
				}
			}
			return Iface{}
		}
	}
	m.unsupported("native method %s.%s", nm.obj.Kind, nm.name)
	return nil
}

// ---------------------------------------------------------------------------
// timers

type timerData struct {
	active   bool
	periodic bool
	fired    int
	ch       *Chan
}

// ---------------------------------------------------------------------------
// time: abstract instants. time.Time = Struct{wall(flag), ext(ns), loc}

func (m *Machine) mkTime(nonzero *sym.Term, ns *sym.Term) Value {
	return Struct{sym.Ite(nonzero, sym.BVConst(64, 1), sym.BVConst(64, 0)), ns, (*Value)(nil)}
}

func timeParts(v Value) (nz *sym.Term, ns *sym.Term) {
	s := v.(Struct)
	w := s[0].(*sym.Term)
	return sym.Not(sym.Eq(w, sym.BVConst(64, 0))), s[1].(*sym.Term)
}

func (m *Machine) nowTerm() *sym.Term {
	if m.cfg.Clock == "advancing" || m.clock == nil {
		t := sym.Var(m.freshName("now"), sym.BV(64))
		m.nondets = append(m.nondets, nondetRec{Tag: "time.Now", Kind: "int64", T: t})
		m.sol.Declare(t)
		m.pin(t, "time.Now", "int64")
		// after 2001 and before 2200: a wall clock, never negative or near overflow
		m.assertPC(sym.SLe(sym.BVConst(64, 1000000000000000000), t))
		m.assertPC(sym.SLe(t, sym.BVConst(64, 7000000000000000000)))
		if m.clock != nil {
			m.assertPC(sym.SLe(m.clock, t))
		}
		m.clock = t
	}
	return m.clock
}

func (m *Machine) nowValue() Value { return m.mkTime(sym.True(), m.nowTerm()) }
