package exec

import (
	"fmt"
	"go/types"

	"golang.org/x/tools/go/ssa"

	"verif/engine/sym"
)

// ---------------------------------------------------------------------------
// channels

// chanState refreshes a model-owned channel (ctx.Done(), timer.C) from its owner.
func (m *Machine) chanRefresh(c *Chan) {
	if c == nil || c.Owner == nil {
		return
	}
	switch d := c.Owner.Data.(type) {
	case *ctxData:
		if m.ctxCancelled(d) {
			c.Closed = true
		}
	}
}

// chanMayFire reports whether an environment transition could make the channel ready.
func (m *Machine) chanMayFire(c *Chan) bool {
	if c == nil || c.Owner == nil {
		return false
	}
	switch d := c.Owner.Data.(type) {
	case *ctxData:
		return !m.ctxCancelled(d) && m.ctxMayFire(d)
	case *timerData:
		return d.active && len(c.Buf) == 0 && !m.cfg.TimersManual
	}
	return false
}

func (m *Machine) chanFire(c *Chan) {
	switch d := c.Owner.Data.(type) {
	case *ctxData:
		m.ctxFire(d)
		c.Closed = true
	case *timerData:
		d.active = d.periodic
		d.fired++
		c.Buf = append(c.Buf, m.nowValue())
		m.event("timer#%d fires", c.Owner.ID)
	}
}

func (m *Machine) chanSend(fr *frame, ch Value, v Value) {
	c, _ := ch.(*Chan)
	if c == nil {
		m.end(endBlocked, "send on nil channel blocks forever at %s", m.where())
	}
	if c.Closed {
		m.goPanicf("send on closed channel")
	}
	if len(c.Buf) < c.Cap {
		c.Buf = append(c.Buf, copyVal(v))
		return
	}
	if m.cfg.UnbufferedAsMailbox && c.Cap == 0 && len(c.Buf) == 0 {
		c.Buf = append(c.Buf, copyVal(v))
		return
	}
	if len(m.coros) > 0 {
		if w := m.recvWaiter(c); w != nil {
			m.handOver(w, c, v)
			return
		}
		me := m.self()
		me.send, me.sendV, me.sendDone = c, copyVal(v), false
		for {
			m.block(fmt.Sprintf("send blocks forever (channel full, no receiver) at %s", m.where()))
			if me.sendDone {
				me.send, me.sendDone = nil, false
				return
			}
			if c.Closed {
				me.send = nil
				m.goPanicf("send on closed channel")
			}
			if len(c.Buf) < c.Cap {
				me.send = nil
				c.Buf = append(c.Buf, copyVal(v))
				return
			}
			if w := m.recvWaiter(c); w != nil {
				me.send = nil
				m.handOver(w, c, v)
				return
			}
		}
	}
	m.end(endBlocked, "send blocks (channel full, no receiver modelled) at %s", m.where())
}

func (m *Machine) chanRecv(fr *frame, ch Value, commaOk bool, instr *ssa.UnOp) Value {
	c, _ := ch.(*Chan)
	if c == nil {
		m.end(endBlocked, "receive on nil channel blocks forever at %s", m.where())
	}
	var v Value
	ok := true
retry:
	m.chanRefresh(c)
	if me := m.self(); me.got != nil {
		v, me.got, me.gotV = me.gotV, nil, nil
		if commaOk {
			return Tuple{v, sym.Bool(true)}
		}
		return v
	}
	switch {
	case len(c.Buf) > 0:
		v = c.Buf[0]
		c.Buf = c.Buf[1:]
	case m.sendWaiter(c) != nil:
		v = m.takeFrom(m.sendWaiter(c))
	case c.Closed:
		v = zero(c.ElemT)
		ok = false
	case m.chanMayFire(c):
		m.chanFire(c)
		if len(c.Buf) > 0 {
			v = c.Buf[0]
			c.Buf = c.Buf[1:]
		} else {
			v = zero(c.ElemT)
			ok = false
		}
	default:
		m.self().recv = []*Chan{c}
		m.block(fmt.Sprintf("receive blocks forever (empty channel, nothing can make it ready) at %s", m.where()))
		m.self().recv = nil
		goto retry
	}
	if commaOk {
		return Tuple{v, sym.Bool(ok)}
	}
	return v
}

func (m *Machine) blockedForever(msg string) {
	m.event("BLOCKED-FOREVER: %s", msg)
	if m.cfg.BlockedIsViolation != "" {
		m.recordViolation(m.cfg.BlockedIsViolation, msg)
	}
	m.end(endBlocked, "%s", msg)
}

func (m *Machine) chanClose(ch Value) {
	c, _ := ch.(*Chan)
	if c == nil {
		m.goPanicf("close of nil channel")
	}
	if c.Closed {
		m.goPanicf("close of closed channel")
	}
	c.Closed = true
}

func (m *Machine) selectStmt(fr *frame, instr *ssa.Select) Value {
	type cand struct {
		idx  int
		fire bool
	}
	var ready []cand
reeval:
	ready = ready[:0]
	handed := -1
	for i, st := range instr.States {
		c, _ := fr.get(st.Chan).(*Chan)
		if c == nil {
			continue
		}
		m.chanRefresh(c)
		if st.Dir == types.RecvOnly {
			if me := m.self(); me.got == c && handed < 0 {
				// a sender completed the rendezvous on this case while we were blocked
				handed = i
			}
			if len(c.Buf) > 0 || c.Closed || m.sendWaiter(c) != nil {
				ready = append(ready, cand{i, false})
			} else if m.chanMayFire(c) {
				ready = append(ready, cand{i, true})
			}
		} else {
			if c.Closed || len(c.Buf) < c.Cap || (m.cfg.UnbufferedAsMailbox && c.Cap == 0 && len(c.Buf) == 0) || m.recvWaiter(c) != nil {
				ready = append(ready, cand{i, false})
			}
		}
	}
	// fairness: a loop that keeps taking the receive of a closed channel while
	// another case is ready is a schedule Go's random choice leaves with
	// probability 2^-k; after two consecutive takes the other cases are taken.
	if fr.selSpin[instr] >= 2 {
		var rest []cand
		for _, r := range ready {
			st := instr.States[r.idx]
			c, _ := fr.get(st.Chan).(*Chan)
			if !r.fire && st.Dir == types.RecvOnly && c.Closed && len(c.Buf) == 0 && c.Owner == nil {
				continue
			}
			rest = append(rest, r)
		}
		if len(rest) > 0 {
			ready = rest
		}
	}
	if handed >= 0 {
		me := m.self()
		v := me.gotV
		me.got, me.gotV = nil, nil
		m.event("select@%s takes case %d (rendezvous)", m.eng.prog.Fset.Position(instr.Pos()), handed)
		r := Tuple{sym.BVConst(64, uint64(int64(handed))), sym.Bool(true)}
		for i, st := range instr.States {
			if st.Dir == types.RecvOnly {
				if i == handed {
					r = append(r, v)
				} else {
					r = append(r, zero(st.Chan.Type().Underlying().(*types.Chan).Elem()))
				}
			}
		}
		return r
	}
	chosen := -1
	definitely := 0
	for _, r := range ready {
		if !r.fire {
			definitely++
		}
	}
	if !instr.Blocking {
		// default is taken only when no case is ready right now; environment
		// transitions (timer fires) may or may not have happened: both explored.
		n := len(ready)
		if definitely == 0 {
			n++ // default is an option
		}
		k := 0
		if n > 1 {
			k = m.choice(n, "select")
		}
		if k < len(ready) {
			chosen = k
		} else {
			chosen = -1
		}
		if len(ready) == 0 {
			chosen = -1
		}
	} else {
		if len(ready) == 0 {
			me := m.self()
			me.recv = nil
			for _, st := range instr.States {
				if c, _ := fr.get(st.Chan).(*Chan); c != nil && st.Dir == types.RecvOnly && c.Cap == 0 {
					me.recv = append(me.recv, c)
				}
			}
			m.block(fmt.Sprintf("select blocks forever (no case can become ready) at %s", m.where()))
			m.self().recv = nil
			goto reeval
		}
		chosen = m.choice(len(ready), "select")
	}
	r := Tuple{nil, sym.False()}
	selIdx := -1
	var recvV Value
	recvOK := false
	if chosen >= 0 {
		cd := ready[chosen]
		selIdx = cd.idx
		st := instr.States[cd.idx]
		c := fr.get(st.Chan).(*Chan)
		if cd.fire {
			m.chanFire(c)
		}
		if st.Dir == types.RecvOnly && c.Closed && len(c.Buf) == 0 && c.Owner == nil {
			if fr.selSpin == nil {
				fr.selSpin = map[*ssa.Select]int{}
			}
			fr.selSpin[instr]++
		} else if fr.selSpin != nil {
			fr.selSpin[instr] = 0
		}
		if st.Dir == types.RecvOnly {
			if len(c.Buf) > 0 {
				recvV = c.Buf[0]
				c.Buf = c.Buf[1:]
				recvOK = true
			} else if w := m.sendWaiter(c); w != nil {
				recvV = m.takeFrom(w)
				recvOK = true
			} else {
				recvV = zero(c.ElemT)
			}
		} else {
			if c.Closed {
				m.goPanicf("send on closed channel")
			}
			if w := m.recvWaiter(c); w != nil && !(len(c.Buf) < c.Cap) {
				m.handOver(w, c, fr.get(st.Send))
			} else {
				c.Buf = append(c.Buf, copyVal(fr.get(st.Send)))
			}
		}
		m.event("select@%s takes case %d", m.eng.prog.Fset.Position(instr.Pos()), cd.idx)
	} else {
		m.event("select@%s takes default", m.eng.prog.Fset.Position(instr.Pos()))
	}
	r[0] = sym.BVConst(64, uint64(int64(selIdx)))
	r[1] = sym.Bool(recvOK)
	for i, st := range instr.States {
		if st.Dir == types.RecvOnly {
			if i == selIdx && recvOK {
				r = append(r, recvV)
			} else {
				r = append(r, zero(st.Chan.Type().Underlying().(*types.Chan).Elem()))
			}
		}
	}
	return r
}

func (m *Machine) event(format string, args ...interface{}) {
	if len(m.res.Events) < 400 {
		m.res.Events = append(m.res.Events, fmt.Sprintf(format, args...))
	}
}

// ---------------------------------------------------------------------------
// goroutines

func (m *Machine) goStmt(fr *frame, instr *ssa.Go, fn Value, args []Value) {
	name := ""
	switch f := fn.(type) {
	case *ssa.Function:
		name = f.String()
	case *Closure:
		name = f.Fn.String()
	}
	mode := m.cfg.GoMode
	for pat, md := range m.cfg.GoModes {
		if matchName(pat, name) {
			mode = md
		}
	}
	switch mode {
	case "coroutine":
		m.event("go %s (coroutine)", name)
		m.spawn(name, fn, args, instr)
	case "inline":
		m.event("go %s (run inline)", name)
		if nm, ok := fn.(*nativeMethod); ok {
			m.callNativeMethod(fr, nm, args, instr.Call.Signature())
		} else {
			m.call(fr, instr.Pos(), fn, args)
		}
		m.cur = fr
	default:
		m.event("go %s (not executed)", name)
		m.note("goroutine %s is not executed (declared irrelevant to the claim)", name)
	}
}

func matchName(pat, name string) bool {
	if pat == name {
		return true
	}
	if len(pat) > 0 && pat[len(pat)-1] == '*' {
		p := pat[:len(pat)-1]
		return len(name) >= len(p) && name[:len(p)] == p
	}
	return false
}

// ---------------------------------------------------------------------------
// contexts

type ctxData struct {
	parent    Value // Iface
	cancelled bool
	err       Value
	done      *Chan
	timeout   bool
	key, val  Value
	hasKV     bool
}

func (m *Machine) newNative(kind string, data interface{}) *Native {
	m.nextID++
	return &Native{Kind: kind, Data: data, ID: m.nextID}
}

func (m *Machine) ctxParentData(d *ctxData) *ctxData {
	if p, ok := d.parent.(Iface); ok {
		if n, ok := p.V.(*Native); ok {
			if pd, ok := n.Data.(*ctxData); ok {
				return pd
			}
		}
	}
	return nil
}

func (m *Machine) ctxCancelled(d *ctxData) bool {
	for x := d; x != nil; x = m.ctxParentData(x) {
		if x.cancelled {
			if !d.cancelled {
				d.cancelled = true
				d.err = x.err
			}
			return true
		}
	}
	return false
}

func (m *Machine) ctxMayFire(d *ctxData) bool {
	if !m.cfg.TimeoutsFire {
		return false
	}
	for x := d; x != nil; x = m.ctxParentData(x) {
		if x.timeout && !x.cancelled {
			return true
		}
	}
	return false
}

func (m *Machine) ctxFire(d *ctxData) {
	for x := d; x != nil; x = m.ctxParentData(x) {
		if x.timeout && !x.cancelled {
			x.cancelled = true
			x.err = m.pkgVar("context", "DeadlineExceeded")
			m.event("context deadline fires")
			break
		}
	}
	m.ctxCancelled(d)
}

func (m *Machine) pkgVar(pkg, name string) Value {
	p := m.eng.prog.ImportedPackage(pkg)
	if p == nil {
		m.unsupported("package %s not loaded", pkg)
	}
	g := p.Var(name)
	if g == nil {
		m.unsupported("no var %s.%s", pkg, name)
	}
	return load(m.global(g))
}

func (m *Machine) ctxIface(n *Native) Iface {
	return Iface{T: m.eng.nativeType("context.Context"), V: n}
}

func (m *Machine) newCtx(parent Value, timeout bool) (*Native, Value) {
	d := &ctxData{parent: parent, timeout: timeout}
	n := m.newNative("ctx", d)
	m.nextID++
	d.done = &Chan{ID: m.nextID, Owner: n, ElemT: types.NewStruct(nil, nil)}
	cancel := &NativeFunc{Name: "cancel", Fn: func(m *Machine, args []Value) Value {
		if !m.ctxCancelled(d) {
			d.cancelled = true
			d.err = m.pkgVar("context", "Canceled")
		}
		return nil
	}}
	return n, cancel
}

type NativeFunc struct {
	Name string
	Fn   func(m *Machine, args []Value) Value
}

func (m *Machine) callNativeMethod(fr *frame, nm *nativeMethod, args []Value, sig *types.Signature) Value {
	switch d := nm.obj.Data.(type) {
	case *ctxData:
		switch nm.name {
		case "Done":
			m.chanRefresh(d.done)
			return d.done
		case "Err":
			if m.ctxCancelled(d) {
				return d.err
			}
			return Iface{}
		case "Deadline":
			return Tuple{zero(sig.Results().At(0).Type()), sym.False()}
		case "Value":
			if d.hasKV && m.branch(m.equalValue(d.key, args[0])) {
				return d.val
			}
			if p, ok := d.parent.(Iface); ok && p.T != nil {
				if pn, ok := p.V.(*Native); ok {
					return m.callNativeMethod(fr, &nativeMethod{pn, "Value"}, args, sig)
				}
				f := m.eng.prog.LookupMethod(p.T, nil, "Value")
				if f != nil {
					return m.call(fr, 0, f, []Value{p.V, args[0]})
				}
			}
			return Iface{}
		}
	}
	m.unsupported("native method %s.%s", nm.obj.Kind, nm.name)
	return nil
}

// ---------------------------------------------------------------------------
// timers

type timerData struct {
	active   bool
	periodic bool
	fired    int
	ch       *Chan
	period   *sym.Term // duration given at creation / Reset (ns)
	due      *sym.Term // instant of the next expiry (used by vrf_elapse)
}

func (m *Machine) armTimer(d *timerData, dur Value) {
	if t, ok := dur.(*sym.Term); ok && t.Sort.K == sym.KBV {
		d.period = t
		d.due = sym.Add(m.nowTerm(), t)
	}
}

// elapse lets dur nanoseconds pass: timers expire in the order of their due
// instants, each at its own instant (the clock stands at the expiry instant
// while the goroutines react), then the clock reaches now+dur.
func (m *Machine) elapse(dur *sym.Term) {
	quiesce := func() {
		for i := 0; i < 64 && m.runCoros(); i++ {
		}
	}
	quiesce()
	target := sym.Add(m.nowTerm(), dur)
	for iter := 0; ; iter++ {
		if iter > 64 {
			m.end(endUnwind, "vrf_elapse: more than 64 timer expiries")
		}
		var cand *timerData
		candID := 0
		for _, n := range m.timers {
			d := n.Data.(*timerData)
			if !d.active || d.due == nil {
				continue
			}
			if !m.branch(sym.SLe(d.due, target)) {
				continue
			}
			if cand == nil || m.branch(sym.SLt(d.due, cand.due)) {
				cand, candID = d, n.ID
			}
		}
		if cand == nil {
			break
		}
		if m.branch(sym.SLt(m.clock, cand.due)) {
			m.clock = cand.due
		}
		cand.fired++
		if cand.periodic {
			cand.due = sym.Add(cand.due, cand.period)
		} else {
			cand.active = false
		}
		if len(cand.ch.Buf) == 0 {
			cand.ch.Buf = append(cand.ch.Buf, m.nowValue())
		}
		m.event("timer#%d expires", candID)
		quiesce()
	}
	m.clock = target
	quiesce()
}

// ---------------------------------------------------------------------------
// time: abstract instants. time.Time = Struct{wall(flag), ext(ns), loc}

func (m *Machine) mkTime(nonzero *sym.Term, ns *sym.Term) Value {
	return Struct{sym.Ite(nonzero, sym.BVConst(64, 1), sym.BVConst(64, 0)), ns, (*Value)(nil)}
}

func timeParts(v Value) (nz *sym.Term, ns *sym.Term) {
	s := v.(Struct)
	w := s[0].(*sym.Term)
	return sym.Not(sym.Eq(w, sym.BVConst(64, 0))), s[1].(*sym.Term)
}

func (m *Machine) nowTerm() *sym.Term {
	if m.clock == nil && m.cfg.ClockStart != 0 {
		// a fixed starting instant: code that only measures durations does not depend on it
		m.clock = sym.BVConst(64, uint64(m.cfg.ClockStart))
	}
	if m.cfg.Clock == "advancing" || m.clock == nil {
		t := sym.Var(m.freshName("now"), sym.BV(64))
		m.nondets = append(m.nondets, nondetRec{Tag: "time.Now", Kind: "int64", T: t})
		m.sol.Declare(t)
		m.pin(t, "time.Now", "int64")
		// after 2001 and before 2200: a wall clock, never negative or near overflow
		m.assertPC(sym.SLe(sym.BVConst(64, 1000000000000000000), t))
		m.assertPC(sym.SLe(t, sym.BVConst(64, 7000000000000000000)))
		if m.clock != nil {
			m.assertPC(sym.SLe(m.clock, t))
		}
		m.clock = t
	}
	return m.clock
}

func (m *Machine) nowValue() Value { return m.mkTime(sym.True(), m.nowTerm()) }

// ---------------------------------------------------------------------------
// coroutines: goroutines of the program run as interpreter coroutines with
// explicit hand-off; exactly one runs at a time. A goroutine runs until it
// blocks; the harness decides when the others run (vrf_yield) and when time
// passes (vrf_advance_time).

type coro struct {
	id      int
	name    string
	resume  chan bool
	yielded chan struct{}
	started bool
	done    bool
	panicV  interface{}
	cur     *frame
	blocked string
	w       waiter
}

type coroKill struct{}

// waiter describes what a blocked line of execution (a coroutine, or the main
// line when cur == nil) is waiting for on unbuffered channels, so that the other
// side can complete the rendezvous.
type waiter struct {
	recv     []*Chan // blocked in a receive (or a select with receive cases) on these
	got      *Chan   // a sender handed a value over on this channel
	gotV     Value
	send     *Chan // blocked in a send on this unbuffered channel
	sendV    Value
	sendDone bool
}

func (m *Machine) self() *waiter {
	if m.curCoro != nil {
		return &m.curCoro.w
	}
	return &m.mainW
}

func (m *Machine) allWaiters() []*waiter {
	ws := []*waiter{&m.mainW}
	for _, co := range m.coros {
		if !co.done {
			ws = append(ws, &co.w)
		}
	}
	return ws
}

// recvWaiter returns a blocked receiver on the unbuffered channel c (not the caller).
func (m *Machine) recvWaiter(c *Chan) *waiter {
	if c.Cap != 0 || len(m.coros) == 0 {
		return nil
	}
	me := m.self()
	for _, w := range m.allWaiters() {
		if w == me || w.got != nil {
			continue
		}
		for _, x := range w.recv {
			if x == c {
				return w
			}
		}
	}
	return nil
}

// sendWaiter returns a blocked sender on the unbuffered channel c (not the caller).
func (m *Machine) sendWaiter(c *Chan) *waiter {
	if c.Cap != 0 || len(m.coros) == 0 {
		return nil
	}
	me := m.self()
	for _, w := range m.allWaiters() {
		if w != me && w.send == c && !w.sendDone {
			return w
		}
	}
	return nil
}

func (m *Machine) handOver(w *waiter, c *Chan, v Value) {
	w.got, w.gotV, w.recv = c, copyVal(v), nil
	m.event("rendezvous on chan#%d", c.ID)
}

func (m *Machine) takeFrom(w *waiter) Value {
	v := w.sendV
	w.sendDone, w.sendV = true, nil
	return v
}

func (m *Machine) spawn(name string, fn Value, args []Value, instr *ssa.Go) {
	co := &coro{id: len(m.coros) + 1, name: name, resume: make(chan bool), yielded: make(chan struct{})}
	m.coros = append(m.coros, co)
	sig := instr.Call.Signature()
	go func() {
		run := <-co.resume
		if !run {
			co.done = true
			co.yielded <- struct{}{}
			return
		}
		defer func() {
			if r := recover(); r != nil {
				if _, ok := r.(coroKill); !ok {
					co.panicV = r
				}
			}
			co.done = true
			co.yielded <- struct{}{}
		}()
		m.cur = nil
		if nm, ok := fn.(*nativeMethod); ok {
			m.callNativeMethod(nil, nm, args, sig)
		} else {
			m.call(nil, instr.Pos(), fn, args)
		}
	}()
}

// block is called by a blocking operation that cannot proceed. In a coroutine
// it hands control back; in the main line it lets the coroutines run and only
// gives up (BLOCKED-FOREVER) when none of them makes progress.
func (m *Machine) block(msg string) {
	co := m.curCoro
	if co == nil {
		if m.runCoros() {
			return
		}
		m.blockedForever(msg)
	}
	co.blocked = msg
	co.cur = m.cur
	co.yielded <- struct{}{}
	run := <-co.resume
	if !run {
		panic(coroKill{})
	}
	co.blocked = ""
	m.cur = co.cur
}

// runCoros resumes every live coroutine once; reports whether any executed an instruction.
func (m *Machine) runCoros() bool {
	if m.curCoro != nil {
		return false
	}
	progressed := false
	for i := 0; i < len(m.coros); i++ {
		co := m.coros[i]
		if co.done {
			continue
		}
		steps0 := m.steps
		saved := m.cur
		m.curCoro = co
		co.started = true
		co.resume <- true
		<-co.yielded
		m.curCoro = nil
		m.cur = saved
		if co.panicV != nil {
			p := co.panicV
			co.panicV = nil
			panic(p)
		}
		if m.steps > steps0 {
			progressed = true
		}
	}
	return progressed
}

func (m *Machine) killCoros() {
	for _, co := range m.coros {
		if co.done {
			continue
		}
		co.resume <- false
		<-co.yielded
	}
}

// fireTimers lets time pass: every active timer fires (tickers stay active).
func (m *Machine) fireTimers() {
	for _, n := range m.timers {
		d := n.Data.(*timerData)
		if d.active {
			d.active = d.periodic
			d.fired++
			if len(d.ch.Buf) == 0 {
				d.ch.Buf = append(d.ch.Buf, m.nowValue())
			}
			m.event("timer#%d fires", n.ID)
		}
	}
}

func (m *Machine) newTimer(periodic bool) (*Value, *Native) {
	d := &timerData{active: true, periodic: periodic}
	n := m.newNative("timer", d)
	m.nextID++
	d.ch = &Chan{ID: m.nextID, Cap: 1, Owner: n, ElemT: m.eng.nativeType("time.Time")}
	tn := "time.Timer"
	if periodic {
		tn = "time.Ticker"
	}
	T := m.eng.nativeType(tn)
	p := new(Value)
	st := zero(T).(Struct)
	st[fieldIndex(T, "C")] = d.ch
	*p = st
	m.natives[p] = n
	m.timers = append(m.timers, n)
	return p, n
}

func init() {
	natives["time.NewTimer"] = func(m *Machine, c *frame, fn *ssa.Function, a []Value) Value {
		p, n := m.newTimer(false)
		m.armTimer(n.Data.(*timerData), a[0])
		return p
	}
	natives["time.NewTicker"] = func(m *Machine, c *frame, fn *ssa.Function, a []Value) Value {
		p, n := m.newTimer(true)
		m.armTimer(n.Data.(*timerData), a[0])
		return p
	}
	natives["time.After"] = func(m *Machine, c *frame, fn *ssa.Function, a []Value) Value {
		_, n := m.newTimer(false)
		m.armTimer(n.Data.(*timerData), a[0])
		return n.Data.(*timerData).ch
	}
	natives["time.Tick"] = func(m *Machine, c *frame, fn *ssa.Function, a []Value) Value {
		_, n := m.newTimer(true)
		m.armTimer(n.Data.(*timerData), a[0])
		return n.Data.(*timerData).ch
	}
	timerOf := func(m *Machine, v Value) *timerData {
		p, ok := v.(*Value)
		if !ok || p == nil || m.natives[p] == nil {
			m.goPanicf("time: Stop/Reset called on uninitialized Timer")
		}
		return m.natives[p].Data.(*timerData)
	}
	// pre-go1.23 semantics (the module declares go 1.16): Stop/Reset do not drain the channel
	natives["(*time.Timer).Stop"] = func(m *Machine, c *frame, fn *ssa.Function, a []Value) Value {
		d := timerOf(m, a[0])
		was := d.active
		d.active = false
		m.event("timer.Stop -> %v", was)
		return sym.Bool(was)
	}
	natives["(*time.Timer).Reset"] = func(m *Machine, c *frame, fn *ssa.Function, a []Value) Value {
		d := timerOf(m, a[0])
		was := d.active
		d.active = true
		m.armTimer(d, a[1])
		m.event("timer.Reset")
		return sym.Bool(was)
	}
	natives["(*time.Ticker).Stop"] = func(m *Machine, c *frame, fn *ssa.Function, a []Value) Value {
		timerOf(m, a[0]).active = false
		return nil
	}
	natives["(*time.Ticker).Reset"] = func(m *Machine, c *frame, fn *ssa.Function, a []Value) Value {
		timerOf(m, a[0]).active = true
		m.armTimer(timerOf(m, a[0]), a[1])
		return nil
	}
}
