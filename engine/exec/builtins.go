package exec

import (
	"fmt"
	"go/types"
	"unicode/utf8"

	"golang.org/x/tools/go/ssa"

	"verif/engine/sym"
)

// ---------------------------------------------------------------------------
// maps

func constStrKey(key Value) (string, bool) {
	if t, ok := key.(*sym.Term); ok && t.Const && t.Sort.K == sym.KStr {
		return t.S, true
	}
	return "", false
}

func (mp *Map) reindex() {
	mp.strIdx = map[string]*mapEntry{}
	mp.symbolic = false
	for _, e := range mp.entries {
		if e.deleted {
			continue
		}
		if k, ok := constStrKey(e.key); ok {
			mp.strIdx[k] = e
		} else {
			mp.symbolic = true
		}
	}
}

func (m *Machine) mapFind(mp *Map, key Value) *mapEntry {
	if mp == nil {
		return nil
	}
	// fast path: constant string key against constant string keys only
	if k, ok := constStrKey(key); ok && len(mp.entries) > 16 {
		if mp.strIdx == nil || len(mp.strIdx) == 0 {
			mp.reindex()
		}
		if !mp.symbolic {
			e := mp.strIdx[k]
			if e != nil && !e.deleted {
				return e
			}
			if e == nil {
				return nil
			}
		}
	}
	for _, e := range mp.entries {
		if e.deleted {
			continue
		}
		if m.branch(m.equalValue(key, e.key)) {
			return e
		}
	}
	return nil
}

func (m *Machine) mapInsert(mp *Map, key, val Value) {
	if e := m.mapFind(mp, key); e != nil {
		if pi, ok := m.protMaps[mp]; ok {
			m.protectMap(val, pi)
		}
		e.val = copyVal(val)
		return
	}
	ne := &mapEntry{key: copyVal(key), val: copyVal(val)}
	if pi, ok := m.protMaps[mp]; ok {
		m.protectMap(val, pi)
	}
	mp.entries = append(mp.entries, ne)
	if mp.strIdx != nil {
		if k, ok := constStrKey(key); ok {
			mp.strIdx[k] = ne
		} else {
			mp.symbolic = true
		}
	}
}

func (m *Machine) mapDelete(mp *Map, key Value) {
	if e := m.mapFind(mp, key); e != nil {
		e.deleted = true
		if mp.strIdx != nil {
			if k, ok := constStrKey(e.key); ok {
				delete(mp.strIdx, k)
			}
		}
	}
}

func (m *Machine) lookup(fr *frame, instr *ssa.Lookup, x, idx Value) Value {
	switch x := x.(type) {
	case *Map:
		var v Value
		ok := false
		m.checkMapAccess(x, false)
		if e := m.mapFind(x, idx); e != nil {
			v = copyVal(e.val)
			ok = true
		} else {
			v = zero(instr.X.Type().Underlying().(*types.Map).Elem())
		}
		if instr.CommaOk {
			return Tuple{v, sym.Bool(ok)}
		}
		return v
	case *sym.Term:
		if !x.Const {
			m.unsupported("index of symbolic string")
		}
		i := m.index(m.term(idx), instr.Index.Type(), len(x.S))
		return sym.BVConst(8, uint64(x.S[i]))
	}
	m.unsupported("lookup on %T", x)
	return nil
}

type mapIter struct {
	mp      *Map
	remain  []*mapEntry
	permute bool
}

type strIter struct {
	s   string
	pos int
}

func (m *Machine) rangeIter(fr *frame, x Value, t types.Type) Value {
	switch x := x.(type) {
	case *Map:
		it := &mapIter{mp: x}
		if x != nil {
			m.checkMapAccess(x, false)
			for _, e := range x.entries {
				if !e.deleted {
					it.remain = append(it.remain, e)
				}
			}
		}
		it.permute = len(it.remain) <= m.cfg.MapOrder
		if len(it.remain) > 1 && !it.permute {
			m.note("map range over %d entries explored in insertion order only (maporder=%d)", len(it.remain), m.cfg.MapOrder)
		}
		return it
	case *sym.Term:
		if !x.Const {
			m.unsupported("range over symbolic string")
		}
		return &strIter{s: x.S}
	}
	m.unsupported("range over %T", x)
	return nil
}

func (m *Machine) iterNext(fr *frame, it Value, instr *ssa.Next) Value {
	switch it := it.(type) {
	case *mapIter:
		for {
			// drop entries deleted meanwhile
			live := it.remain[:0]
			for _, e := range it.remain {
				if !e.deleted {
					live = append(live, e)
				}
			}
			it.remain = live
			if len(it.remain) == 0 {
				return Tuple{sym.False(), nil, nil}
			}
			k := 0
			if it.permute {
				k = m.choice(len(it.remain), "map iteration order")
			}
			e := it.remain[k]
			it.remain = append(append([]*mapEntry{}, it.remain[:k]...), it.remain[k+1:]...)
			return Tuple{sym.True(), copyVal(e.key), copyVal(e.val)}
		}
	case *strIter:
		if it.pos >= len(it.s) {
			return Tuple{sym.False(), nil, nil}
		}
		p := it.pos
		r, sz := utf8.DecodeRuneInString(it.s[p:])
		it.pos += sz
		return Tuple{sym.True(), sym.BVConst(64, uint64(p)), sym.BVConst(32, uint64(r))}
	}
	m.unsupported("next on %T", it)
	return nil
}

func (m *Machine) note(format string, args ...interface{}) {
	s := fmt.Sprintf(format, args...)
	for _, n := range m.res.Notes {
		if n == s {
			return
		}
	}
	m.res.Notes = append(m.res.Notes, s)
}

// ---------------------------------------------------------------------------
// builtins

func (m *Machine) lenOf(v Value) *sym.Term {
	switch v := v.(type) {
	case *sym.Term:
		return sym.StrLen(v)
	case []Value:
		return sym.BVConst(64, uint64(len(v)))
	case Array:
		return sym.BVConst(64, uint64(len(v)))
	case *Value:
		if v == nil {
			return sym.BVConst(64, 0)
		}
		if a, ok := (*v).(Array); ok {
			return sym.BVConst(64, uint64(len(a)))
		}
	case *Map:
		if v == nil {
			return sym.BVConst(64, 0)
		}
		m.checkMapAccess(v, false)
		return sym.BVConst(64, uint64(v.Len()))
	case *Chan:
		if v == nil {
			return sym.BVConst(64, 0)
		}
		return sym.BVConst(64, uint64(len(v.Buf)))
	}
	m.unsupported("len of %T", v)
	return nil
}

func (m *Machine) callBuiltin(caller *frame, fn *ssa.Builtin, args []Value) Value {
	switch fn.Name() {
	case "append":
		if len(args) == 1 {
			return args[0]
		}
		dst, _ := args[0].([]Value)
		if s, ok := args[1].(*sym.Term); ok {
			if !s.Const {
				m.unsupported("append(bytes, symbolic string...)")
			}
			for i := 0; i < len(s.S); i++ {
				dst = append(dst, sym.BVConst(8, uint64(s.S[i])))
			}
			return dst
		}
		src, _ := args[1].([]Value)
		if len(src) == 0 {
			return dst
		}
		cp := make([]Value, len(src))
		for i, e := range src {
			cp[i] = copyVal(e)
		}
		return append(dst, cp...)

	case "copy":
		dst, _ := args[0].([]Value)
		if s, ok := args[1].(*sym.Term); ok {
			if !s.Const {
				m.unsupported("copy(bytes, symbolic string)")
			}
			n := 0
			for i := 0; i < len(s.S) && i < len(dst); i++ {
				dst[i] = sym.BVConst(8, uint64(s.S[i]))
				n++
			}
			return sym.BVConst(64, uint64(n))
		}
		src, _ := args[1].([]Value)
		tmp := make([]Value, len(src))
		for i, e := range src {
			tmp[i] = copyVal(e)
		}
		n := copy(dst, tmp)
		return sym.BVConst(64, uint64(n))

	case "close":
		m.chanClose(args[0])
		return nil

	case "delete":
		mp, _ := args[0].(*Map)
		if mp != nil {
			m.checkMapAccess(mp, true)
			m.mapDelete(mp, args[1])
		}
		return nil

	case "clear":
		switch x := args[0].(type) {
		case *Map:
			if x != nil {
				m.checkMapAccess(x, true)
				for _, e := range x.entries {
					e.deleted = true
				}
				x.strIdx = nil
			}
		default:
			m.unsupported("clear of %T", x)
		}
		return nil

	case "print", "println":
		return nil

	case "len":
		return m.lenOf(args[0])

	case "cap":
		switch v := args[0].(type) {
		case []Value:
			return sym.BVConst(64, uint64(cap(v)))
		case Array:
			return sym.BVConst(64, uint64(len(v)))
		case *Value:
			if v == nil {
				return sym.BVConst(64, 0)
			}
			return sym.BVConst(64, uint64(len((*v).(Array))))
		case *Chan:
			if v == nil {
				return sym.BVConst(64, 0)
			}
			return sym.BVConst(64, uint64(v.Cap))
		}
		m.unsupported("cap of %T", args[0])

	case "min", "max":
		r := m.term(args[0])
		signed := true
		if caller != nil {
			// operand type from the call instruction
			if c, ok := caller.curInstr.(*ssa.Call); ok && len(c.Call.Args) > 0 {
				signed = isSigned(c.Call.Args[0].Type())
			}
		}
		for _, a := range args[1:] {
			t := m.term(a)
			var lt *sym.Term
			switch {
			case r.Sort.K == sym.KStr:
				lt = sym.StrLt(t, r)
			case r.Sort.K == sym.KF64:
				lt = sym.FCmp("fp.lt", t, r)
			case signed:
				lt = sym.SLt(t, r)
			default:
				lt = sym.ULt(t, r)
			}
			if fn.Name() == "min" {
				r = sym.Ite(lt, t, r)
			} else {
				r = sym.Ite(lt, r, t)
			}
		}
		return r

	case "panic":
		panic(&goPanic{v: args[0], msg: "panic: " + describe(args[0], 0), at: m.stack()})

	case "recover":
		return m.doRecover(caller)

	case "ssa:deferstack":
		return caller // the defer stack of the calling frame

	case "ssa:wrapnilchk":
		if isNilPtr(args[0]) {
			m.goPanicf("value method %s.%s called using nil pointer", describe(args[1], 0), describe(args[2], 0))
		}
		return args[0]
	}
	m.unsupported("builtin %s", fn.Name())
	return nil
}

func (m *Machine) doRecover(caller *frame) Value {
	if caller != nil && caller.caller != nil && caller.caller.panicking {
		p := caller.caller
		p.panicking = false
		gp := p.panicV
		p.panicV = nil
		m.lastPanic = gp
		if itf, ok := gp.v.(Iface); ok {
			return itf
		}
		return Iface{T: types.Typ[types.String], V: sym.Str(gp.msg)}
	}
	return Iface{}
}
