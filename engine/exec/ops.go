package exec

import (
	"go/token"
	"go/types"
	"unicode/utf8"

	"golang.org/x/tools/go/ssa"

	"verif/engine/sym"
)

func (m *Machine) unop(fr *frame, instr *ssa.UnOp, x Value) Value {
	switch instr.Op {
	case token.MUL: // load
		addr := m.deref(fr, x)
		if m.protected != nil || m.shared != nil {
			m.checkAccess(addr, false)
		}
		return load(addr)
	case token.ARROW:
		return m.chanRecv(fr, x, instr.CommaOk, instr)
	case token.NOT:
		return sym.Not(m.term(x))
	case token.SUB:
		t := m.term(x)
		if t.Sort.K == sym.KF64 {
			return sym.FNeg(t)
		}
		return sym.Neg(t)
	case token.XOR:
		return sym.BNot(m.term(x))
	}
	m.unsupported("unop %v", instr.Op)
	return nil
}

func (m *Machine) binop(op token.Token, xt types.Type, x, y Value) Value {
	switch op {
	case token.EQL:
		return m.equalValue(x, y)
	case token.NEQ:
		return sym.Not(m.equalValue(x, y))
	}
	a, b := m.term(x), m.term(y)
	switch a.Sort.K {
	case sym.KBool:
		switch op {
		case token.LAND, token.AND:
			return sym.And(a, b)
		case token.LOR, token.OR:
			return sym.Or(a, b)
		}
	case sym.KStr:
		switch op {
		case token.ADD:
			return sym.Concat(a, b)
		case token.LSS:
			return sym.StrLt(a, b)
		case token.LEQ:
			return sym.StrLe(a, b)
		case token.GTR:
			return sym.StrLt(b, a)
		case token.GEQ:
			return sym.StrLe(b, a)
		}
	case sym.KF64:
		switch op {
		case token.ADD:
			return sym.FArith("fp.add", a, b)
		case token.SUB:
			return sym.FArith("fp.sub", a, b)
		case token.MUL:
			return sym.FArith("fp.mul", a, b)
		case token.QUO:
			return sym.FArith("fp.div", a, b)
		case token.LSS:
			return sym.FCmp("fp.lt", a, b)
		case token.LEQ:
			return sym.FCmp("fp.leq", a, b)
		case token.GTR:
			return sym.FCmp("fp.gt", a, b)
		case token.GEQ:
			return sym.FCmp("fp.geq", a, b)
		}
	case sym.KBV:
		signed := isSigned(xt)
		switch op {
		case token.SHL, token.SHR:
			// shift count may have a different width and is unsigned (or checked non-negative)
			w := a.Sort.W
			var cnt *sym.Term
			if b.Sort.W > w {
				// counts >= w must give 0: saturate
				big := sym.Not(sym.ULt(b, sym.BVConst(b.Sort.W, uint64(w))))
				cnt = sym.Ite(big, sym.BVConst(w, uint64(w)), sym.Resize(b, w, false))
			} else {
				cnt = sym.Resize(b, w, false)
			}
			if op == token.SHL {
				return sym.Shl(a, cnt)
			}
			if signed {
				return sym.AShr(a, cnt)
			}
			return sym.LShr(a, cnt)
		}
		if a.Sort != b.Sort {
			m.unsupported("binop %v operand sorts %v %v", op, a.Sort, b.Sort)
		}
		switch op {
		case token.ADD:
			return sym.Add(a, b)
		case token.SUB:
			return sym.Sub(a, b)
		case token.MUL:
			return sym.Mul(a, b)
		case token.QUO, token.REM:
			z := sym.Eq(b, sym.BVConst(b.Sort.W, 0))
			if m.branch(z) {
				m.goPanicf("runtime error: integer divide by zero")
			}
			if op == token.QUO {
				if signed {
					return sym.SDiv(a, b)
				}
				return sym.UDiv(a, b)
			}
			if signed {
				return sym.SRem(a, b)
			}
			return sym.URem(a, b)
		case token.AND:
			return sym.BAnd(a, b)
		case token.OR:
			return sym.BOr(a, b)
		case token.XOR:
			return sym.BXor(a, b)
		case token.AND_NOT:
			return sym.BAnd(a, sym.BNot(b))
		case token.LSS:
			if signed {
				return sym.SLt(a, b)
			}
			return sym.ULt(a, b)
		case token.LEQ:
			if signed {
				return sym.SLe(a, b)
			}
			return sym.ULe(a, b)
		case token.GTR:
			if signed {
				return sym.SLt(b, a)
			}
			return sym.ULt(b, a)
		case token.GEQ:
			if signed {
				return sym.SLe(b, a)
			}
			return sym.ULe(b, a)
		}
	}
	m.unsupported("binop %v on %v", op, a.Sort)
	return nil
}

func (m *Machine) conv(dst, src types.Type, x Value) Value {
	ud, us := dst.Underlying(), src.Underlying()
	switch us := us.(type) {
	case *types.Pointer:
		if _, ok := ud.(*types.Pointer); ok {
			return x
		}
		if b, ok := ud.(*types.Basic); ok && b.Kind() == types.UnsafePointer {
			return x
		}
	case *types.Slice:
		// []byte / []rune -> string
		if db, ok := ud.(*types.Basic); ok && db.Info()&types.IsString != 0 {
			s := x.([]Value)
			if t, ok := m.textOfHandle(s); ok {
				return t
			}
			eb, _ := us.Elem().Underlying().(*types.Basic)
			buf := make([]byte, 0, len(s))
			for _, e := range s {
				t := m.term(e)
				if !t.Const {
					// symbolic bytes: build the string from single-char pieces is not supported
					m.unsupported("string(symbolic bytes)")
				}
				if eb != nil && eb.Kind() == types.Int32 {
					buf = utf8.AppendRune(buf, rune(t.SInt()))
				} else {
					buf = append(buf, byte(t.U))
				}
			}
			return sym.Str(string(buf))
		}
		if _, ok := ud.(*types.Slice); ok {
			return x
		}
	case *types.Basic:
		t, isT := x.(*sym.Term)
		if us.Kind() == types.UnsafePointer {
			return x
		}
		if !isT {
			m.unsupported("conversion of %T", x)
		}
		switch ud := ud.(type) {
		case *types.Slice:
			// string -> []byte / []rune
			if !t.Const {
				m.unsupported("[]byte(symbolic string)")
			}
			eb, _ := ud.Elem().Underlying().(*types.Basic)
			var out []Value
			if eb != nil && eb.Kind() == types.Int32 {
				for _, r := range t.S {
					out = append(out, sym.BVConst(32, uint64(r)))
				}
			} else {
				for i := 0; i < len(t.S); i++ {
					out = append(out, sym.BVConst(8, uint64(t.S[i])))
				}
			}
			if out == nil {
				out = []Value{}
			}
			return out
		case *types.Basic:
			switch {
			case ud.Info()&types.IsString != 0:
				if us.Info()&types.IsString != 0 {
					return t
				}
				if us.Info()&types.IsInteger != 0 {
					if !t.Const {
						m.unsupported("string(symbolic int)")
					}
					return sym.Str(string(rune(t.SInt())))
				}
			case ud.Info()&types.IsInteger != 0:
				w, _ := widthOf(ud)
				if us.Info()&types.IsInteger != 0 {
					_, ssigned := widthOf(us)
					return sym.Resize(t, w, ssigned)
				}
				if us.Info()&types.IsFloat != 0 {
					_, dsigned := widthOf(ud)
					return sym.FToInt(t, w, dsigned)
				}
			case ud.Info()&types.IsFloat != 0:
				if us.Info()&types.IsFloat != 0 {
					return t
				}
				if us.Info()&types.IsInteger != 0 {
					_, ssigned := widthOf(us)
					return sym.IntToF(t, ssigned)
				}
			case ud.Info()&types.IsBoolean != 0:
				return t
			case ud.Kind() == types.UnsafePointer:
				m.unsupported("integer to unsafe.Pointer")
			}
		}
	}
	m.unsupported("conversion %v -> %v", src, dst)
	return nil
}
