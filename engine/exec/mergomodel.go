package exec

import (
	"go/types"
	"strings"

	"golang.org/x/tools/go/ssa"

	"verif/engine/sym"
)

// Model of github.com/imdario/mergo.Merge(dst, src, mergo.WithOverride), a
// reflection walk: every exported field of src that is not "empty" (zero
// number, false, "", nil / zero-length slice or map, nil pointer or interface)
// replaces the field of dst; nested structs are merged field by field.

func (m *Machine) mergoField(T types.Type, dst *Value, src Value) {
	switch u := T.Underlying().(type) {
	case *types.Struct:
		ds, _ := (*dst).(Struct)
		ss, _ := src.(Struct)
		if ds == nil || ss == nil {
			return
		}
		exported := false
		for i := 0; i < u.NumFields(); i++ {
			if u.Field(i).Exported() {
				exported = true
			}
		}
		if !exported {
			return // opaque struct (e.g. time.Time): not used by the configurations modelled
		}
		for i := 0; i < u.NumFields(); i++ {
			if !u.Field(i).Exported() {
				continue
			}
			m.mergoField(u.Field(i).Type(), &ds[i], ss[i])
		}
	case *types.Basic:
		t := m.term(src)
		var empty *sym.Term
		switch t.Sort.K {
		case sym.KBool:
			empty = sym.Not(t)
		case sym.KStr:
			empty = sym.Eq(t, sym.Str(""))
		case sym.KBV:
			empty = sym.Eq(t, sym.BVConst(t.Sort.W, 0))
		case sym.KF64:
			empty = sym.FCmp("fp.eq", t, sym.F64(0))
		default:
			m.unsupported("mergo on %v", T)
		}
		*dst = sym.Ite(empty, m.term(*dst), t)
	case *types.Slice:
		if s, _ := src.([]Value); len(s) > 0 {
			*dst = src
		}
	case *types.Map:
		if mp, _ := src.(*Map); mp != nil && len(mp.entries) > 0 {
			*dst = src
		}
	case *types.Pointer:
		if p, _ := src.(*Value); p != nil {
			*dst = src
		}
	case *types.Interface:
		if it, _ := src.(Iface); it.T != nil {
			*dst = src
		}
	default:
		// funcs, channels: replaced when not nil
		if src != nil {
			if c, ok := src.(*Closure); ok && c == nil {
				return
			}
			*dst = src
		}
	}
}

func init() {
	natives["github.com/imdario/mergo.Merge"] = func(m *Machine, c *frame, fn *ssa.Function, a []Value) Value {
		override := false
		if opts, _ := a[2].([]Value); len(opts) == 1 {
			switch o := opts[0].(type) {
			case *ssa.Function:
				override = strings.HasSuffix(o.Name(), "WithOverride")
			case *Closure:
				override = strings.HasSuffix(o.Fn.Name(), "WithOverride")
			}
		}
		if !override {
			m.unsupported("mergo.Merge without exactly the WithOverride option")
		}
		d, _ := a[0].(Iface)
		s, _ := a[1].(Iface)
		dp, ok1 := d.T.(*types.Pointer)
		dv, _ := d.V.(*Value)
		if !ok1 || dv == nil {
			return m.newErrorString(sym.Str("mergo: dst must be a pointer to struct"))
		}
		var sv Value
		if sp, ok := s.T.(*types.Pointer); ok {
			p, _ := s.V.(*Value)
			if p == nil || !types.Identical(sp.Elem(), dp.Elem()) {
				return m.newErrorString(sym.Str("mergo: src and dst must be of same type"))
			}
			sv = *p
		} else {
			if !types.Identical(s.T, dp.Elem()) {
				return m.newErrorString(sym.Str("mergo: src and dst must be of same type"))
			}
			sv = s.V
		}
		m.mergoField(dp.Elem(), dv, sv)
		return Iface{}
	}
}
