package exec

import (
	"go/types"

	"golang.org/x/tools/go/ssa"

	"verif/engine/sym"
)

// Model of go-libp2p-gorpc's *local dispatch*: Server.RegisterName records the
// receiver, Client.Call* looks the service method up and calls it directly with
// the caller's argument and reply pointers (as gorpc does for local calls).

const rpcPkg = "github.com/libp2p/go-libp2p-gorpc"

type rpcServer struct {
	services map[string]Iface
	authFn   Value
}

func (m *Machine) rpcServerOf(v Value) *rpcServer {
	p, ok := v.(*Value)
	if !ok || p == nil {
		m.goPanicf("nil rpc server/client")
	}
	s := m.rpc[p]
	if s == nil {
		s = &rpcServer{services: map[string]Iface{}}
		m.rpc[p] = s
	}
	return s
}

func (m *Machine) newRPCObject(qual string) *Value {
	t := m.eng.nativeType(qual)
	p := new(Value)
	*p = zero(t)
	return p
}

func registerRPC() {
	natives[rpcPkg+".NewServer"] = func(m *Machine, c *frame, fn *ssa.Function, a []Value) Value {
		p := m.newRPCObject(rpcPkg + ".Server")
		m.rpcServerOf(p)
		// apply the real option closures (e.g. WithAuthorizeFunc) to the server object
		if opts, ok := a[2].([]Value); ok {
			for _, o := range opts {
				m.call(c, 0, o, []Value{p})
			}
		}
		return p
	}
	natives[rpcPkg+".NewClientWithServer"] = func(m *Machine, c *frame, fn *ssa.Function, a []Value) Value {
		p := m.newRPCObject(rpcPkg + ".Client")
		srv := m.rpcServerOf(a[2])
		m.rpc[p] = srv
		return p
	}
	natives[rpcPkg+".NewClient"] = func(m *Machine, c *frame, fn *ssa.Function, a []Value) Value {
		p := m.newRPCObject(rpcPkg + ".Client")
		m.rpcServerOf(p)
		return p
	}
	reg := func(m *Machine, c *frame, fn *ssa.Function, a []Value) Value {
		srv := m.rpcServerOf(a[0])
		name := constStr(m, a[1], "service name")
		srv.services[name] = a[2].(Iface)
		return Iface{}
	}
	natives["(*"+rpcPkg+".Server).RegisterName"] = reg
	natives["(*"+rpcPkg+".Client).Call"] = func(m *Machine, c *frame, fn *ssa.Function, a []Value) Value {
		return m.rpcCall(c, a[0], Iface{}, a[1], a[2], a[3], a[4], a[5])
	}
	natives["(*"+rpcPkg+".Client).CallContext"] = func(m *Machine, c *frame, fn *ssa.Function, a []Value) Value {
		return m.rpcCall(c, a[0], a[1], a[2], a[3], a[4], a[5], a[6])
	}
	natives["(*"+rpcPkg+".Client).MultiCall"] = func(m *Machine, c *frame, fn *ssa.Function, a []Value) Value {
		// MultiCall(ctxs, dests, svc, method, args, replies) []error
		ctxs := a[1].([]Value)
		dests := a[2].([]Value)
		replies := a[6].([]Value)
		errs := make([]Value, len(dests))
		for i := range dests {
			var ctx Value = Iface{}
			if i < len(ctxs) {
				ctx = ctxs[i]
			}
			errs[i] = m.rpcCall(c, a[0], ctx, dests[i], a[3], a[4], a[5], replies[i])
		}
		return errs
	}
	natives[rpcPkg+".IsAuthorizationError"] = func(m *Machine, c *frame, fn *ssa.Function, a []Value) Value {
		return m.errClass(c, a[0], "vrfIsAuthError")
	}
	natives[rpcPkg+".IsRPCError"] = func(m *Machine, c *frame, fn *ssa.Function, a []Value) Value {
		return m.errClass(c, a[0], "vrfIsRPCError")
	}
}

// errClass asks the harness (function hook(err error) bool) for the class of an error.
func (m *Machine) errClass(c *frame, err Value, hook string) Value {
	f := m.eng.pkg.Func(hook)
	if f == nil {
		if isNilValue(err) {
			return sym.False()
		}
		m.unsupported("gorpc error classification needs harness hook %s", hook)
	}
	return m.callSSA(c, f, []Value{err}, nil)
}

func (m *Machine) rpcCall(c *frame, client, ctx, dest, svc, method, args, reply Value) Value {
	srv := m.rpcServerOf(client)
	sname := m.term(svc)
	mname := m.term(method)
	if !sname.Const || !mname.Const {
		m.unsupported("rpc call with symbolic service/method name")
	}
	// remote destinations: let the harness decide (hook), else dispatch locally
	if hook := m.eng.pkg.Func("vrfRPCRemote"); hook != nil {
		// func vrfRPCRemote(dest peer.ID, svc, method string, args, reply interface{}) (handled bool, err error)
		r := m.callSSA(c, hook, []Value{dest, sname, mname, args, reply}, nil).(Tuple)
		if m.branch(m.term(r[0])) {
			return r[1]
		}
	}
	rcv, ok := srv.services[sname.S]
	if !ok {
		m.event("rpc %s.%s: service not registered", sname.S, mname.S)
		return m.newErrorString(sym.Str("rpc: can't find service " + sname.S))
	}
	f := m.eng.prog.LookupMethod(rcv.T, nil, mname.S)
	if f == nil {
		m.event("rpc %s.%s: method not found", sname.S, mname.S)
		return m.newErrorString(sym.Str("rpc: can't find method " + mname.S))
	}
	sig := f.Signature
	if sig.Params().Len() != 3 {
		m.unsupported("rpc method %s has unexpected signature", f)
	}
	if ic, ok := ctx.(Iface); !ok || ic.T == nil {
		bg := m.eng.prog.ImportedPackage("context").Func("Background")
		ctx = m.call(c, 0, bg, nil)
	}
	argT := sig.Params().At(1).Type()
	ai, _ := args.(Iface)
	var argV Value
	switch {
	case ai.T == nil:
		argV = zero(argT)
	case types.Identical(ai.T, argT):
		argV = ai.V
	default:
		if pt, ok := ai.T.(*types.Pointer); ok && types.Identical(pt.Elem(), argT) {
			argV = load(m.deref(c, ai.V))
		} else if pt, ok := argT.(*types.Pointer); ok && types.Identical(pt.Elem(), ai.T) {
			p := new(Value)
			*p = copyVal(ai.V)
			argV = p
		} else {
			m.unsupported("rpc %s.%s: argument type %v does not match %v", sname.S, mname.S, ai.T, argT)
		}
	}
	ri, _ := reply.(Iface)
	replyT := sig.Params().At(2).Type()
	var replyV Value
	if ri.T != nil && types.Identical(ri.T, replyT) {
		replyV = ri.V
	} else {
		m.unsupported("rpc %s.%s: reply type %v does not match %v", sname.S, mname.S, ri.T, replyT)
	}
	m.event("rpc %s.%s", sname.S, mname.S)
	return m.call(c, 0, f, []Value{rcv.V, ctx, argV, replyV})
}
