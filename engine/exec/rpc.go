package exec

import (
	"go/types"

	"golang.org/x/tools/go/ssa"

	"verif/engine/sym"
)

// Model of go-libp2p-gorpc's *local dispatch*: Server.RegisterName records the
// receiver, Client.Call* looks the service method up and calls it directly with
// the caller's argument and reply pointers (as gorpc does for local calls).

const rpcPkg = "github.com/libp2p/go-libp2p-gorpc"

type rpcServer struct {
	services map[string]Iface
	authFn   Value
}

func (m *Machine) rpcServerOf(v Value) *rpcServer {
	p, ok := v.(*Value)
	if !ok || p == nil {
		m.goPanicf("nil rpc server/client")
	}
	s := m.rpc[p]
	if s == nil {
		s = &rpcServer{services: map[string]Iface{}}
		m.rpc[p] = s
	}
	return s
}

func (m *Machine) newRPCObject(qual string) *Value {
	t := m.eng.nativeType(qual)
	p := new(Value)
	*p = zero(t)
	return p
}

func registerRPC() {
	natives[rpcPkg+".NewServer"] = func(m *Machine, c *frame, fn *ssa.Function, a []Value) Value {
		p := m.newRPCObject(rpcPkg + ".Server")
		m.rpcServerOf(p)
		// apply the real option closures (e.g. WithAuthorizeFunc) to the server object
		if opts, ok := a[2].([]Value); ok {
			for _, o := range opts {
				m.call(c, 0, o, []Value{p})
			}
		}
		return p
	}
	natives[rpcPkg+".NewClientWithServer"] = func(m *Machine, c *frame, fn *ssa.Function, a []Value) Value {
		p := m.newRPCObject(rpcPkg + ".Client")
		srv := m.rpcServerOf(a[2])
		m.rpc[p] = srv
		return p
	}
	natives[rpcPkg+".NewClient"] = func(m *Machine, c *frame, fn *ssa.Function, a []Value) Value {
		p := m.newRPCObject(rpcPkg + ".Client")
		m.rpcServerOf(p)
		return p
	}
	reg := func(m *Machine, c *frame, fn *ssa.Function, a []Value) Value {
		srv := m.rpcServerOf(a[0])
		name := constStr(m, a[1], "service name")
		srv.services[name] = a[2].(Iface)
		return Iface{}
	}
	natives["(*"+rpcPkg+".Server).RegisterName"] = reg
	natives["(*"+rpcPkg+".Client).Call"] = func(m *Machine, c *frame, fn *ssa.Function, a []Value) Value {
		return m.rpcCall(c, a[0], Iface{}, a[1], a[2], a[3], a[4], a[5])
	}
	natives["(*"+rpcPkg+".Client).CallContext"] = func(m *Machine, c *frame, fn *ssa.Function, a []Value) Value {
		return m.rpcCall(c, a[0], a[1], a[2], a[3], a[4], a[5], a[6])
	}
	natives["(*"+rpcPkg+".Client).GoContext"] = func(m *Machine, c *frame, fn *ssa.Function, a []Value) Value {
		// asynchronous in gorpc; dispatched at once here (one admissible schedule)
		m.rpcCall(c, a[0], a[1], a[2], a[3], a[4], a[5], a[6])
		return Iface{}
	}
	natives["(*"+rpcPkg+".Client).Go"] = func(m *Machine, c *frame, fn *ssa.Function, a []Value) Value {
		m.rpcCall(c, a[0], Iface{}, a[1], a[2], a[3], a[4], a[5])
		return Iface{}
	}
	natives["(*"+rpcPkg+".Client).MultiCall"] = func(m *Machine, c *frame, fn *ssa.Function, a []Value) Value {
		// MultiCall(ctxs, dests, svc, method, args, replies) []error
		ctxs := a[1].([]Value)
		dests := a[2].([]Value)
		replies := a[6].([]Value)
		errs := make([]Value, len(dests))
		for i := range dests {
			var ctx Value = Iface{}
			if i < len(ctxs) {
				ctx = ctxs[i]
			}
			errs[i] = m.rpcCall(c, a[0], ctx, dests[i], a[3], a[4], a[5], replies[i])
		}
		return errs
	}
	natives[rpcPkg+".IsAuthorizationError"] = func(m *Machine, c *frame, fn *ssa.Function, a []Value) Value {
		return m.errClass(c, a[0], "vrfIsAuthError")
	}
	natives[rpcPkg+".IsRPCError"] = func(m *Machine, c *frame, fn *ssa.Function, a []Value) Value {
		return m.errClass(c, a[0], "vrfIsRPCError")
	}
}

// errClass asks the harness (function hook(err error) bool) for the class of an error.
func (m *Machine) errClass(c *frame, err Value, hook string) Value {
	f := m.eng.pkg.Func(hook)
	if f == nil {
		if isNilValue(err) {
			return sym.False()
		}
		m.unsupported("gorpc error classification needs harness hook %s", hook)
	}
	return m.callSSA(c, f, []Value{err}, nil)
}

func (m *Machine) rpcCall(c *frame, client, ctx, dest, svc, method, args, reply Value) Value {
	srv := m.rpcServerOf(client)
	sname := m.term(svc)
	mname := m.term(method)
	if !sname.Const || !mname.Const {
		m.unsupported("rpc call with symbolic service/method name")
	}
	// remote destinations: let the harness decide (hook), else dispatch locally
	if hook := m.eng.pkg.Func("vrfRPCRemote"); hook != nil {
		// func vrfRPCRemote(dest peer.ID, svc, method string, args, reply interface{}) (handled bool, err error)
		r := m.callSSA(c, hook, []Value{dest, sname, mname, args, reply}, nil).(Tuple)
		if m.branch(m.term(r[0])) {
			return r[1]
		}
	}
	rcv, ok := srv.services[sname.S]
	if !ok {
		m.event("rpc %s.%s: service not registered", sname.S, mname.S)
		return m.newErrorString(sym.Str("rpc: can't find service " + sname.S))
	}
	f := m.eng.prog.LookupMethod(rcv.T, nil, mname.S)
	if f == nil {
		m.event("rpc %s.%s: method not found", sname.S, mname.S)
		return m.newErrorString(sym.Str("rpc: can't find method " + mname.S))
	}
	sig := f.Signature
	if sig.Params().Len() != 3 {
		m.unsupported("rpc method %s has unexpected signature", f)
	}
	if ic, ok := ctx.(Iface); !ok || ic.T == nil {
		bg := m.eng.prog.ImportedPackage("context").Func("Background")
		ctx = m.call(c, 0, bg, nil)
	}
	// argument and reply handling of gorpc's Server.Call (local dispatch):
	// the argument is copied into a fresh value of the method's argument type,
	// the reply is a fresh value copied back into the caller's reply pointer.
	argT := sig.Params().At(1).Type()
	ai, _ := args.(Iface)
	if ai.T == nil {
		m.goPanicf("rpc %s.%s: nil argument (reflect: call of reflect.Value.Type on zero Value)", sname.S, mname.S)
	}
	wrong := func() Value {
		m.event("rpc %s.%s: wrong arg type", sname.S, mname.S)
		return m.newErrorString(sym.Str(sname.S + "." + mname.S + " is being called with the wrong arg type"))
	}
	var argV Value
	if pt, ok := argT.Underlying().(*types.Pointer); ok {
		apt, isPtr := ai.T.Underlying().(*types.Pointer)
		if !isPtr {
			return wrong()
		}
		if !types.Identical(apt.Elem(), pt.Elem()) {
			m.goPanicf("reflect.Set: value of type %v is not assignable to type %v", apt.Elem(), pt.Elem())
		}
		cell := new(Value)
		*cell = load(m.deref(c, ai.V))
		argV = cell
	} else {
		if _, isPtr := ai.T.Underlying().(*types.Pointer); isPtr {
			return wrong()
		}
		if !types.Identical(ai.T, argT) && !types.AssignableTo(ai.T, argT) {
			m.goPanicf("reflect.Set: value of type %v is not assignable to type %v", ai.T, argT)
		}
		if _, isI := argT.Underlying().(*types.Interface); isI {
			argV = ai
		} else {
			argV = copyVal(ai.V)
		}
	}
	ri, _ := reply.(Iface)
	replyT := sig.Params().At(2).Type()
	rpt, ok := replyT.Underlying().(*types.Pointer)
	if !ok {
		m.unsupported("rpc %s.%s: reply type %v is not a pointer", sname.S, mname.S, replyT)
	}
	replyCell := new(Value)
	*replyCell = zero(rpt.Elem())
	m.event("rpc %s.%s", sname.S, mname.S)
	res := m.call(c, 0, f, []Value{rcv.V, ctx, argV, replyCell})
	// copy the reply back (creplyv.Elem().Set(replyv.Elem()))
	cpt, isPtr := Iface(ri).T, false
	if cpt != nil {
		_, isPtr = cpt.Underlying().(*types.Pointer)
	}
	if !isPtr {
		m.goPanicf("rpc %s.%s: reply is not a pointer (reflect: call of reflect.Value.Elem on %v Value)", sname.S, mname.S, cpt)
	}
	if !types.Identical(cpt.Underlying().(*types.Pointer).Elem(), rpt.Elem()) {
		m.goPanicf("reflect.Set: value of type %v is not assignable to type %v", rpt.Elem(), cpt.Underlying().(*types.Pointer).Elem())
	}
	store(m.deref(c, ri.V), load(replyCell))
	return res
}
