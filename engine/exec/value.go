// Package exec is a path-forking symbolic interpreter for go/ssa.
package exec

import (
	"fmt"
	"go/types"
	"strings"

	"golang.org/x/tools/go/ssa"

	"verif/engine/sym"
)

// Value is one of:
//
//	*sym.Term          bool, integers, string, float64
//	Struct, Array      aggregates (copied on load/store)
//	*Value             pointer (Go pointer identity = object identity)
//	[]Value            slice (shares the Go backing array)
//	*Map               map
//	Iface              interface value
//	*ssa.Function, *Closure, *ssa.Builtin   function values
//	Tuple              multiple results
//	*Chan              channel
//	*Opaque            unmodelled value (identity only)
//	*Native            engine-implemented object (context, timer ...)
type Value interface{}

type Struct []Value
type Array []Value
type Tuple []Value

type Iface struct {
	T types.Type // nil => nil interface
	V Value
}

type Closure struct {
	Fn  *ssa.Function
	Env []Value
}

type Opaque struct {
	ID  int
	T   types.Type
	Why string
}

type mapEntry struct {
	key     Value
	val     Value
	deleted bool
}

type Map struct {
	KeyT    types.Type
	entries []*mapEntry
	// index of live entries with constant string keys (valid while no entry has a symbolic key)
	strIdx   map[string]*mapEntry
	symbolic bool
}

func (m *Map) Len() int {
	n := 0
	for _, e := range m.entries {
		if !e.deleted {
			n++
		}
	}
	return n
}

type Chan struct {
	ID     int
	Cap    int
	Buf    []Value
	Closed bool
	ElemT  types.Type
	// Signal channels of models (ctx.Done, timer.C) are described by their owner.
	Owner *Native
}

// Native is an engine-implemented object.
type Native struct {
	Kind string
	Data interface{}
	ID   int
}

func isNilPtr(v Value) bool {
	p, ok := v.(*Value)
	return ok && p == nil
}

func widthOf(b *types.Basic) (w int, signed bool) {
	switch b.Kind() {
	case types.Int8:
		return 8, true
	case types.Uint8:
		return 8, false
	case types.Int16:
		return 16, true
	case types.Uint16:
		return 16, false
	case types.Int32:
		return 32, true
	case types.Uint32:
		return 32, false
	case types.Int, types.Int64, types.UntypedInt, types.UntypedRune:
		return 64, true
	case types.Uint, types.Uint64, types.Uintptr:
		return 64, false
	}
	return 0, false
}

func sortOfBasic(b *types.Basic) (sym.Sort, bool) {
	switch {
	case b.Info()&types.IsBoolean != 0:
		return sym.BoolSort, true
	case b.Info()&types.IsInteger != 0:
		w, _ := widthOf(b)
		return sym.BV(w), true
	case b.Info()&types.IsString != 0:
		return sym.StrSort, true
	case b.Kind() == types.Float64 || b.Kind() == types.Float32 || b.Kind() == types.UntypedFloat:
		return sym.F64Sort, true
	}
	return sym.Sort{}, false
}

func isSigned(t types.Type) bool {
	if b, ok := t.Underlying().(*types.Basic); ok {
		_, s := widthOf(b)
		return s
	}
	return false
}

// zero returns the zero value of type t.
func zero(t types.Type) Value {
	switch t := t.(type) {
	case *types.Basic:
		if t.Kind() == types.UntypedNil {
			panic("untyped nil has no zero value")
		}
		if t.Kind() == types.UnsafePointer {
			return (*Value)(nil)
		}
		if t.Kind() == types.Complex128 || t.Kind() == types.Complex64 {
			return &Opaque{T: t, Why: "complex"}
		}
		s, ok := sortOfBasic(t)
		if !ok {
			panic(fmt.Sprintf("zero: basic %v", t))
		}
		switch s.K {
		case sym.KBool:
			return sym.False()
		case sym.KBV:
			return sym.BVConst(s.W, 0)
		case sym.KStr:
			return sym.Str("")
		case sym.KF64:
			return sym.F64(0)
		}
	case *types.Pointer:
		return (*Value)(nil)
	case *types.Array:
		a := make(Array, t.Len())
		for i := range a {
			a[i] = zero(t.Elem())
		}
		return a
	case *types.Named:
		return zero(t.Underlying())
	case *types.Alias:
		return zero(types.Unalias(t))
	case *types.Interface:
		return Iface{}
	case *types.Slice:
		return []Value(nil)
	case *types.Struct:
		s := make(Struct, t.NumFields())
		for i := range s {
			s[i] = zero(t.Field(i).Type())
		}
		return s
	case *types.Tuple:
		if t.Len() == 1 {
			return zero(t.At(0).Type())
		}
		s := make(Tuple, t.Len())
		for i := range s {
			s[i] = zero(t.At(i).Type())
		}
		return s
	case *types.Chan:
		return (*Chan)(nil)
	case *types.Map:
		return (*Map)(nil)
	case *types.Signature:
		return (*Closure)(nil)
	case *types.TypeParam:
		panic("zero of type parameter")
	}
	panic(fmt.Sprintf("zero: unexpected type %T %v", t, t))
}

// copyVal returns a deep copy of aggregates (value semantics).
func copyVal(v Value) Value {
	switch v := v.(type) {
	case Struct:
		c := make(Struct, len(v))
		for i, f := range v {
			c[i] = copyVal(f)
		}
		return c
	case Array:
		c := make(Array, len(v))
		for i, f := range v {
			c[i] = copyVal(f)
		}
		return c
	case Tuple:
		c := make(Tuple, len(v))
		for i, f := range v {
			c[i] = copyVal(f)
		}
		return c
	case Iface:
		return Iface{T: v.T, V: copyVal(v.V)}
	}
	return v
}

// store writes v into *addr field-wise so that interior pointers stay valid.
func store(addr *Value, v Value) {
	switch rhs := v.(type) {
	case Struct:
		lhs, ok := (*addr).(Struct)
		if !ok || len(lhs) != len(rhs) {
			*addr = copyVal(v)
			return
		}
		for i := range lhs {
			store(&lhs[i], rhs[i])
		}
	case Array:
		lhs, ok := (*addr).(Array)
		if !ok || len(lhs) != len(rhs) {
			*addr = copyVal(v)
			return
		}
		for i := range lhs {
			store(&lhs[i], rhs[i])
		}
	default:
		*addr = copyVal(v)
	}
}

func load(addr *Value) Value { return copyVal(*addr) }

func isNilValue(v Value) bool {
	switch v := v.(type) {
	case *Value:
		return v == nil
	case []Value:
		return v == nil
	case *Map:
		return v == nil
	case *Chan:
		return v == nil
	case Iface:
		return v.T == nil
	case *Closure:
		return v == nil
	case *ssa.Function:
		return v == nil
	case nil:
		return true
	}
	return false
}

// equalValue returns the (possibly symbolic) truth of x == y.
func (m *Machine) equalValue(x, y Value) *sym.Term {
	switch x := x.(type) {
	case *sym.Term:
		yt, ok := y.(*sym.Term)
		if !ok {
			m.unsupported("comparison of scalar with %T", y)
		}
		return sym.Eq(x, yt)
	case Struct:
		ys := y.(Struct)
		r := sym.True()
		for i := range x {
			r = sym.And(r, m.equalValue(x[i], ys[i]))
		}
		return r
	case Array:
		ys := y.(Array)
		r := sym.True()
		for i := range x {
			r = sym.And(r, m.equalValue(x[i], ys[i]))
		}
		return r
	case *Value:
		yp, ok := y.(*Value)
		if !ok {
			return sym.False()
		}
		return sym.Bool(x == yp)
	case *Map:
		ym, _ := y.(*Map)
		return sym.Bool(x == ym)
	case *Chan:
		yc, _ := y.(*Chan)
		return sym.Bool(x == yc)
	case []Value:
		ys, _ := y.([]Value)
		if x == nil || ys == nil {
			return sym.Bool(x == nil && ys == nil)
		}
		m.unsupported("slice comparison")
	case Iface:
		yi, ok := y.(Iface)
		if !ok {
			m.unsupported("iface compared with %T", y)
		}
		if x.T == nil || yi.T == nil {
			return sym.Bool(x.T == nil && yi.T == nil)
		}
		if !types.Identical(x.T, yi.T) {
			return sym.False()
		}
		return m.equalValue(x.V, yi.V)
	case *Closure:
		yc, ok := y.(*Closure)
		if ok {
			return sym.Bool(x == yc)
		}
		return sym.Bool(x == nil && isNilValue(y))
	case *ssa.Function:
		if isNilValue(y) {
			return sym.Bool(x == nil)
		}
		if yf, ok := y.(*ssa.Function); ok {
			return sym.Bool(x == yf)
		}
		return sym.False()
	case *Opaque:
		yo, ok := y.(*Opaque)
		if ok && yo == x {
			return sym.True()
		}
		m.unsupported("comparison of opaque value (%s)", x.Why)
	case *Native:
		yn, _ := y.(*Native)
		return sym.Bool(x == yn)
	case nil:
		return sym.Bool(isNilValue(y))
	}
	m.unsupported("equalValue %T", x)
	return nil
}

// describe renders a value for counterexample output.
func describe(v Value, depth int) string {
	if depth > 4 {
		return "..."
	}
	switch v := v.(type) {
	case *sym.Term:
		return v.String()
	case Struct:
		p := make([]string, len(v))
		for i, f := range v {
			p[i] = describe(f, depth+1)
		}
		return "{" + strings.Join(p, ", ") + "}"
	case Array:
		p := make([]string, len(v))
		for i, f := range v {
			p[i] = describe(f, depth+1)
		}
		return "[" + strings.Join(p, ", ") + "]"
	case Tuple:
		p := make([]string, len(v))
		for i, f := range v {
			p[i] = describe(f, depth+1)
		}
		return "(" + strings.Join(p, ", ") + ")"
	case []Value:
		if v == nil {
			return "nil-slice"
		}
		p := make([]string, len(v))
		for i, f := range v {
			p[i] = describe(f, depth+1)
		}
		return "[" + strings.Join(p, ", ") + "]"
	case *Value:
		if v == nil {
			return "nil"
		}
		return "&" + describe(*v, depth+1)
	case Iface:
		if v.T == nil {
			return "nil-iface"
		}
		return fmt.Sprintf("%s(%s)", v.T, describe(v.V, depth+1))
	case *Map:
		if v == nil {
			return "nil-map"
		}
		var p []string
		for _, e := range v.entries {
			if !e.deleted {
				p = append(p, describe(e.key, depth+1)+":"+describe(e.val, depth+1))
			}
		}
		return "map{" + strings.Join(p, ", ") + "}"
	case *Opaque:
		return "opaque(" + v.Why + ")"
	case *ssa.Function:
		if v == nil {
			return "nil-func"
		}
		return v.String()
	case *Closure:
		if v == nil {
			return "nil-func"
		}
		return "closure " + v.Fn.String()
	case *Chan:
		if v == nil {
			return "nil-chan"
		}
		return fmt.Sprintf("chan#%d", v.ID)
	case *Native:
		return "native:" + v.Kind
	case nil:
		return "<nil>"
	}
	return fmt.Sprintf("%T", v)
}
