package exec

import (
	"bytes"
	"fmt"
	"math"
	"net"
	"net/url"
	"path/filepath"
	"reflect"
	"sort"
	"strconv"
	"strings"
	"unicode"
	"unicode/utf8"

	"golang.org/x/tools/go/ssa"

	"verif/engine/sym"
)

// goNative wraps a real Go library function so that it runs natively on
// concrete arguments. Supported parameter/result kinds: string, bool, ints,
// []string, []byte, error. With a symbolic argument the call falls through to
// symModel (if any) or ends the path as unsupported.
func goNative(name string, f interface{}, symModel stubFn) stubFn {
	fv := reflect.ValueOf(f)
	ft := fv.Type()
	return func(m *Machine, c *frame, fn *ssa.Function, a []Value) Value {
		in := make([]reflect.Value, ft.NumIn())
		if len(a) != ft.NumIn() {
			m.end(endEngineError, "native %s arity", name)
		}
		for i := range in {
			v, ok := m.toGo(a[i], ft.In(i))
			if !ok {
				if symModel != nil {
					return symModel(m, c, fn, a)
				}
				m.unsupported("%s with symbolic or unconvertible argument %d", name, i)
			}
			in[i] = v
		}
		var out []reflect.Value
		if ft.IsVariadic() {
			out = fv.CallSlice(in)
		} else {
			out = fv.Call(in)
		}
		switch len(out) {
		case 0:
			return nil
		case 1:
			return m.fromGo(out[0])
		}
		t := make(Tuple, len(out))
		for i := range out {
			t[i] = m.fromGo(out[i])
		}
		return t
	}
}

var errType = reflect.TypeOf((*error)(nil)).Elem()

func (m *Machine) toGo(v Value, t reflect.Type) (reflect.Value, bool) {
	switch t.Kind() {
	case reflect.String:
		x, ok := v.(*sym.Term)
		if !ok || !x.Const {
			return reflect.Value{}, false
		}
		return reflect.ValueOf(x.S).Convert(t), true
	case reflect.Bool:
		x, ok := v.(*sym.Term)
		if !ok || !x.Const {
			return reflect.Value{}, false
		}
		return reflect.ValueOf(x.U == 1), true
	case reflect.Int, reflect.Int64, reflect.Int32, reflect.Int16, reflect.Int8:
		x, ok := v.(*sym.Term)
		if !ok || !x.Const {
			return reflect.Value{}, false
		}
		return reflect.ValueOf(x.SInt()).Convert(t), true
	case reflect.Uint, reflect.Uint64, reflect.Uint32, reflect.Uint16, reflect.Uint8:
		x, ok := v.(*sym.Term)
		if !ok || !x.Const {
			return reflect.Value{}, false
		}
		return reflect.ValueOf(x.U).Convert(t), true
	case reflect.Float64, reflect.Float32:
		x, ok := v.(*sym.Term)
		if !ok || !x.Const || x.Sort.K != sym.KF64 {
			return reflect.Value{}, false
		}
		return reflect.ValueOf(x.F).Convert(t), true
	case reflect.Slice:
		s, ok := v.([]Value)
		if !ok {
			return reflect.Value{}, false
		}
		out := reflect.MakeSlice(t, len(s), len(s))
		for i, e := range s {
			ev, ok := m.toGo(e, t.Elem())
			if !ok {
				return reflect.Value{}, false
			}
			out.Index(i).Set(ev)
		}
		if s == nil {
			out = reflect.Zero(t)
		}
		return out, true
	case reflect.Func:
		// func(rune) bool predicates etc. are not supported natively
		return reflect.Value{}, false
	}
	return reflect.Value{}, false
}

func (m *Machine) fromGo(v reflect.Value) Value {
	t := v.Type()
	if t == errType || t.Implements(errType) && t.Kind() == reflect.Interface {
		if v.IsNil() {
			return Iface{}
		}
		return m.newErrorString(sym.Str(v.Interface().(error).Error()))
	}
	switch t.Kind() {
	case reflect.String:
		return sym.Str(v.String())
	case reflect.Bool:
		return sym.Bool(v.Bool())
	case reflect.Int, reflect.Int64:
		return sym.BVConst(64, uint64(v.Int()))
	case reflect.Int32:
		return sym.BVConst(32, uint64(v.Int()))
	case reflect.Int16:
		return sym.BVConst(16, uint64(v.Int()))
	case reflect.Int8:
		return sym.BVConst(8, uint64(v.Int()))
	case reflect.Uint, reflect.Uint64:
		return sym.BVConst(64, v.Uint())
	case reflect.Uint32:
		return sym.BVConst(32, v.Uint())
	case reflect.Uint16:
		return sym.BVConst(16, v.Uint())
	case reflect.Uint8:
		return sym.BVConst(8, v.Uint())
	case reflect.Float64:
		return sym.F64(v.Float())
	case reflect.Slice:
		if v.IsNil() {
			return []Value(nil)
		}
		out := make([]Value, v.Len())
		for i := range out {
			out[i] = m.fromGo(v.Index(i))
		}
		return out
	}
	panic(fmt.Sprintf("fromGo: unsupported kind %v", t))
}

func init() {
	reg := func(name string, f interface{}) {
		if _, dup := natives[name]; dup {
			return
		}
		natives[name] = goNative(name, f, nil)
	}
	// strings
	reg("strings.Join", strings.Join)
	reg("strings.Split", strings.Split)
	reg("strings.SplitN", strings.SplitN)
	reg("strings.Replace", strings.Replace)
	reg("strings.ReplaceAll", strings.ReplaceAll)
	reg("strings.ToLower", strings.ToLower)
	reg("strings.ToUpper", strings.ToUpper)
	reg("strings.TrimSpace", strings.TrimSpace)
	reg("strings.Trim", strings.Trim)
	reg("strings.TrimLeft", strings.TrimLeft)
	reg("strings.TrimRight", strings.TrimRight)
	reg("strings.Index", strings.Index)
	reg("strings.IndexByte", strings.IndexByte)
	reg("strings.IndexRune", strings.IndexRune)
	reg("strings.IndexAny", strings.IndexAny)
	reg("strings.LastIndex", strings.LastIndex)
	reg("strings.LastIndexByte", strings.LastIndexByte)
	reg("strings.Fields", strings.Fields)
	reg("strings.Repeat", strings.Repeat)
	reg("strings.EqualFold", strings.EqualFold)
	reg("strings.Count", strings.Count)
	reg("strings.Title", strings.Title)
	reg("strings.ContainsRune", strings.ContainsRune)
	reg("strings.ContainsAny", strings.ContainsAny)
	reg("strings.Compare", strings.Compare)
	reg("strings.Cut", strings.Cut)
	// bytes
	reg("bytes.Equal", bytes.Equal)
	reg("bytes.Compare", bytes.Compare)
	reg("bytes.HasPrefix", bytes.HasPrefix)
	reg("bytes.Index", bytes.Index)
	reg("bytes.IndexByte", bytes.IndexByte)
	reg("bytes.TrimSpace", bytes.TrimSpace)
	reg("internal/bytealg.CountString", func(s string, c byte) int { return strings.Count(s, string([]byte{c})) })
	reg("internal/bytealg.IndexByteString", func(s string, c byte) int { return strings.IndexByte(s, c) })
	reg("internal/bytealg.IndexString", func(a, b string) int { return strings.Index(a, b) })
	reg("internal/bytealg.IndexByte", func(b []byte, c byte) int { return bytes.IndexByte(b, c) })
	reg("internal/bytealg.Index", func(a, b []byte) int { return bytes.Index(a, b) })
	reg("internal/bytealg.Equal", func(a, b []byte) bool { return bytes.Equal(a, b) })
	reg("internal/bytealg.Compare", func(a, b []byte) int { return bytes.Compare(a, b) })
	reg("internal/bytealg.Count", func(b []byte, c byte) int { return bytes.Count(b, []byte{c}) })
	reg("internal/stringslite.Index", func(a, b string) int { return strings.Index(a, b) })
	reg("internal/stringslite.IndexByte", func(a string, b byte) int { return strings.IndexByte(a, b) })
	reg("internal/stringslite.HasPrefix", func(a, b string) bool { return strings.HasPrefix(a, b) })
	reg("internal/stringslite.HasSuffix", func(a, b string) bool { return strings.HasSuffix(a, b) })
	reg("internal/stringslite.Cut", strings.Cut)
	reg("internal/stringslite.TrimPrefix", strings.TrimPrefix)
	reg("internal/stringslite.TrimSuffix", strings.TrimSuffix)
	reg("(net.IP).String", func(ip net.IP) string { return ip.String() })
	reg("net.ParseIP", func(s string) net.IP { return net.ParseIP(s) })
	reg("(net.IP).To4", func(ip net.IP) net.IP { return ip.To4() })
	reg("(net.IP).To16", func(ip net.IP) net.IP { return ip.To16() })
	for name, f := range map[string]func(float64) float64{"math.Log": math.Log, "math.Log10": math.Log10, "math.Log2": math.Log2,
		"math.Exp": math.Exp, "math.Sqrt": math.Sqrt, "math.Floor": math.Floor, "math.Ceil": math.Ceil, "math.Trunc": math.Trunc, "math.Erf": math.Erf} {
		reg(name, f)
	}
	reg("math.Pow", math.Pow)
	natives["github.com/dustin/go-humanize.Bytes"] = func(m *Machine, c *frame, fn *ssa.Function, a []Value) Value {
		return sym.Var(m.freshName("humanized"), sym.StrSort)
	}
	natives["github.com/dustin/go-humanize.IBytes"] = natives["github.com/dustin/go-humanize.Bytes"]
	// strconv
	reg("strconv.Atoi", strconv.Atoi)
	reg("strconv.ParseInt", strconv.ParseInt)
	reg("strconv.ParseUint", strconv.ParseUint)
	reg("strconv.ParseBool", strconv.ParseBool)
	reg("strconv.FormatInt", strconv.FormatInt)
	reg("strconv.FormatUint", strconv.FormatUint)
	reg("strconv.FormatBool", strconv.FormatBool)
	reg("strconv.Quote", strconv.Quote)
	reg("strconv.Unquote", strconv.Unquote)
	// unicode
	reg("unicode.IsSpace", unicode.IsSpace)
	reg("unicode.IsUpper", unicode.IsUpper)
	reg("unicode.IsLower", unicode.IsLower)
	reg("unicode.IsLetter", unicode.IsLetter)
	reg("unicode.IsDigit", unicode.IsDigit)
	reg("unicode.ToLower", unicode.ToLower)
	reg("unicode.ToUpper", unicode.ToUpper)
	reg("unicode/utf8.ValidString", utf8.ValidString)
	reg("unicode/utf8.RuneCountInString", utf8.RuneCountInString)
	// url / path
	reg("net/url.QueryEscape", url.QueryEscape)
	reg("net/url.QueryUnescape", url.QueryUnescape)
	reg("net/url.PathEscape", url.PathEscape)
	reg("path/filepath.Join", filepath.Join)
	reg("path/filepath.Base", filepath.Base)
	reg("path/filepath.Dir", filepath.Dir)
	reg("path/filepath.Clean", filepath.Clean)
	// sort helpers on concrete data are run from SSA; sort.Strings natively is faster
	reg("sort.Strings", func(s []string) []string { sort.Strings(s); return s })
	natives["sort.Strings"] = sortStringsStub

	// strings.Builder / bytes.Buffer use unsafe: model the few methods used
	natives["(*strings.Builder).WriteString"] = builderWrite
	natives["(*strings.Builder).WriteByte"] = builderWriteByte
	natives["(*strings.Builder).WriteRune"] = builderWriteRune
	natives["(*strings.Builder).String"] = builderString
	natives["(*strings.Builder).Len"] = func(m *Machine, c *frame, fn *ssa.Function, a []Value) Value {
		return sym.StrLen(builderGet(m, a[0]))
	}
	natives["(*strings.Builder).Grow"] = zeroStub
	natives["(*strings.Builder).Reset"] = func(m *Machine, c *frame, fn *ssa.Function, a []Value) Value {
		builderSet(m, a[0], sym.Str(""))
		return nil
	}
}

// sortStringsStub sorts a slice of concrete strings in place; with symbolic
// strings it runs the real sort from SSA.
func sortStringsStub(m *Machine, c *frame, fn *ssa.Function, a []Value) Value {
	s, _ := a[0].([]Value)
	strs := make([]string, len(s))
	for i, e := range s {
		t, ok := e.(*sym.Term)
		if !ok || !t.Const {
			if fn.Pkg != nil { // Build is once-guarded and waits for a build in progress on another worker
				fn.Pkg.Build()
			}
			return m.callSSA(c, fn, a, nil)
		}
		strs[i] = t.S
	}
	sort.Strings(strs)
	for i := range s {
		s[i] = sym.Str(strs[i])
	}
	return nil
}

type builderData struct{ s *sym.Term }

func builderGet(m *Machine, v Value) *sym.Term {
	p := v.(*Value)
	n := m.natives[p]
	if n == nil {
		return sym.Str("")
	}
	return n.Data.(*builderData).s
}

func builderSet(m *Machine, v Value, s *sym.Term) {
	p := v.(*Value)
	n := m.natives[p]
	if n == nil {
		n = m.newNative("builder", &builderData{})
		m.natives[p] = n
	}
	n.Data.(*builderData).s = s
}

func builderWrite(m *Machine, c *frame, fn *ssa.Function, a []Value) Value {
	s := m.term(a[1])
	builderSet(m, a[0], sym.Concat(builderGet(m, a[0]), s))
	return Tuple{sym.StrLen(s), Iface{}}
}

func builderWriteByte(m *Machine, c *frame, fn *ssa.Function, a []Value) Value {
	b := m.term(a[1])
	if !b.Const {
		m.unsupported("Builder.WriteByte(symbolic)")
	}
	builderSet(m, a[0], sym.Concat(builderGet(m, a[0]), sym.Str(string([]byte{byte(b.U)}))))
	return Iface{}
}

func builderWriteRune(m *Machine, c *frame, fn *ssa.Function, a []Value) Value {
	b := m.term(a[1])
	if !b.Const {
		m.unsupported("Builder.WriteRune(symbolic)")
	}
	s := string(rune(b.SInt()))
	builderSet(m, a[0], sym.Concat(builderGet(m, a[0]), sym.Str(s)))
	return Tuple{sym.BVConst(64, uint64(len(s))), Iface{}}
}

func builderString(m *Machine, c *frame, fn *ssa.Function, a []Value) Value {
	return builderGet(m, a[0])
}
