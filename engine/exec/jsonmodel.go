package exec

import (
	"encoding/json"
	"go/types"
	"io"
	"reflect"
	"strings"

	"golang.org/x/tools/go/ssa"

	"verif/engine/sym"
)

// encoding/json decoding of CONCRETE bytes: the bytes are parsed by the real
// encoding/json of the engine's own runtime and the result is written into the
// interpreted value following the static Go type (field names / json tags,
// case-insensitive match as encoding/json does; types with an UnmarshalJSON
// method get that method interpreted on the raw sub-document).

type jsonDec struct {
	reader Value
	dec    *json.Decoder
	err    Value
	m      *Machine
	c      *frame
}

type jsonReadErr struct{}

func (jsonReadErr) Error() string { return "interpreted reader failed" }

// Read feeds the real json.Decoder from the interpreted reader, on demand: the
// decoder asks for more bytes only when it has no complete document buffered,
// as it does in the program.
func (d *jsonDec) Read(p []byte) (int, error) {
	m := d.m
	n := len(p)
	if n > 512 {
		n = 512
	}
	chunk := make([]Value, n)
	for j := range chunk {
		chunk[j] = sym.BVConst(8, 0)
	}
	r := m.invokeMethod(d.c, d.reader, "Read", chunk).(Tuple)
	cnt := m.term(r[0])
	if !cnt.Const {
		m.unsupported("Read returning a symbolic count")
	}
	k := int(cnt.SInt())
	copy(p, m.concreteBytes(chunk[:k], "json stream"))
	if e, _ := r[1].(Iface); e.T != nil {
		if m.equalValue(e, m.pkgVar("io", "EOF")).IsTrue() {
			return k, io.EOF
		}
		d.err = e
		return k, jsonReadErr{}
	}
	return k, nil
}

func (m *Machine) concreteBytes(v Value, what string) []byte {
	bs, _ := v.([]Value)
	out := make([]byte, len(bs))
	for i, b := range bs {
		t := m.term(b)
		if !t.Const {
			m.unsupported("%s of symbolic bytes", what)
		}
		out[i] = byte(t.U)
	}
	return out
}

func jsonFieldName(f *types.Var, tag string) (string, bool) {
	st := reflect.StructTag(tag)
	if j, ok := st.Lookup("json"); ok {
		name := strings.Split(j, ",")[0]
		if name == "-" {
			return "", false
		}
		if name != "" {
			return name, true
		}
	}
	if !f.Exported() {
		return "", false
	}
	return f.Name(), true
}

// jsonFill writes the parsed document raw into *dst of static type T.
func (m *Machine) jsonFill(c *frame, T types.Type, dst *Value, raw json.RawMessage) Value {
	// custom unmarshalers
	pt := types.NewPointer(T)
	if f := m.findMethod(pt, "UnmarshalJSON"); f != nil {
		r := m.call(c, 0, f, []Value{dst, bytesOf(string(raw))})
		if e, ok := r.(Iface); ok && e.T != nil {
			return e
		}
		return nil
	}
	if f := m.findMethod(pt, "UnmarshalText"); f != nil && len(raw) > 0 && raw[0] == '"' {
		var s string
		if err := json.Unmarshal(raw, &s); err != nil {
			return m.newErrorString(sym.Str(err.Error()))
		}
		r := m.call(c, 0, f, []Value{dst, bytesOf(s)})
		if e, ok := r.(Iface); ok && e.T != nil {
			return e
		}
		return nil
	}
	if string(raw) == "null" {
		return nil // leaves the value unchanged, like encoding/json
	}
	mismatch := func() Value {
		return m.newErrorString(sym.Str("json: cannot unmarshal value into Go value of type " + T.String()))
	}
	switch u := T.Underlying().(type) {
	case *types.Basic:
		switch {
		case u.Info()&types.IsString != 0:
			var s string
			if err := json.Unmarshal(raw, &s); err != nil {
				return mismatch()
			}
			*dst = sym.Str(s)
		case u.Info()&types.IsBoolean != 0:
			var b bool
			if err := json.Unmarshal(raw, &b); err != nil {
				return mismatch()
			}
			*dst = sym.Bool(b)
		case u.Info()&types.IsInteger != 0:
			w, signed := widthOf(u)
			if signed {
				var x int64
				if err := json.Unmarshal(raw, &x); err != nil {
					return mismatch()
				}
				*dst = sym.BVConst(w, uint64(x))
			} else {
				var x uint64
				if err := json.Unmarshal(raw, &x); err != nil {
					return mismatch()
				}
				*dst = sym.BVConst(w, x)
			}
		case u.Info()&types.IsFloat != 0:
			var f float64
			if err := json.Unmarshal(raw, &f); err != nil {
				return mismatch()
			}
			*dst = sym.F64(f)
		default:
			return mismatch()
		}
	case *types.Struct:
		var obj map[string]json.RawMessage
		if err := json.Unmarshal(raw, &obj); err != nil {
			return mismatch()
		}
		st, ok := (*dst).(Struct)
		if !ok {
			*dst = zero(T)
			st = (*dst).(Struct)
		}
		for i := 0; i < u.NumFields(); i++ {
			name, ok := jsonFieldName(u.Field(i), u.Tag(i))
			if !ok {
				continue
			}
			for k, v := range obj {
				if strings.EqualFold(k, name) {
					if e := m.jsonFill(c, u.Field(i).Type(), &st[i], v); e != nil {
						return e
					}
				}
			}
		}
	case *types.Slice:
		if eb, ok := u.Elem().Underlying().(*types.Basic); ok && eb.Kind() == types.Uint8 {
			var b []byte
			if err := json.Unmarshal(raw, &b); err != nil {
				return mismatch()
			}
			*dst = bytesOf(string(b))
			return nil
		}
		var arr []json.RawMessage
		if err := json.Unmarshal(raw, &arr); err != nil {
			return mismatch()
		}
		out := make([]Value, len(arr))
		for i, v := range arr {
			out[i] = zero(u.Elem())
			if e := m.jsonFill(c, u.Elem(), &out[i], v); e != nil {
				return e
			}
		}
		*dst = out
	case *types.Map:
		var obj map[string]json.RawMessage
		if err := json.Unmarshal(raw, &obj); err != nil {
			return mismatch()
		}
		mp, _ := (*dst).(*Map)
		if mp == nil {
			mp = &Map{KeyT: u.Key()}
			*dst = mp
		}
		// deterministic order
		keys := make([]string, 0, len(obj))
		for k := range obj {
			keys = append(keys, k)
		}
		sortStrings(keys)
		for _, k := range keys {
			var ev Value = zero(u.Elem())
			if e := m.jsonFill(c, u.Elem(), &ev, obj[k]); e != nil {
				return e
			}
			m.mapInsert(mp, sym.Str(k), ev)
		}
	case *types.Pointer:
		p, _ := (*dst).(*Value)
		if p == nil {
			p = new(Value)
			*p = zero(u.Elem())
			*dst = p
		}
		return m.jsonFill(c, u.Elem(), p, raw)
	case *types.Interface:
		var x interface{}
		if err := json.Unmarshal(raw, &x); err != nil {
			return mismatch()
		}
		switch x := x.(type) {
		case string:
			*dst = Iface{T: types.Typ[types.String], V: sym.Str(x)}
		case bool:
			*dst = Iface{T: types.Typ[types.Bool], V: sym.Bool(x)}
		case float64:
			*dst = Iface{T: types.Typ[types.Float64], V: sym.F64(x)}
		default:
			m.unsupported("json into interface{} of a composite document")
		}
	default:
		m.unsupported("json decoding into %v", T)
	}
	return nil
}

func sortStrings(s []string) {
	for i := 1; i < len(s); i++ {
		for j := i; j > 0 && s[j] < s[j-1]; j-- {
			s[j], s[j-1] = s[j-1], s[j]
		}
	}
}

func (m *Machine) jsonInto(c *frame, target Value, raw json.RawMessage) Value {
	tgt, _ := target.(Iface)
	pt, ok := tgt.T.(*types.Pointer)
	if !ok {
		return m.newErrorString(sym.Str("json: Unmarshal(non-pointer)"))
	}
	p, _ := tgt.V.(*Value)
	if p == nil {
		return m.newErrorString(sym.Str("json: Unmarshal(nil)"))
	}
	if e := m.jsonFill(c, pt.Elem(), p, raw); e != nil {
		return e
	}
	return Iface{}
}

func init() {
	natives["encoding/json.Unmarshal"] = func(m *Machine, c *frame, fn *ssa.Function, a []Value) Value {
		data := m.concreteBytes(a[0], "json.Unmarshal")
		if len(data) == 10 && data[0] == 0xA8 && data[9] == '\n' {
			data = data[:9] // a document written by the Encoder model
		}
		if len(data) == 9 && data[0] == 0xA8 {
			// a handle produced by the json.Marshal model
			var id uint64
			for _, b := range data[1:] {
				id = id<<8 | uint64(b)
			}
			tgt, _ := a[1].(Iface)
			pt, ok := tgt.T.(*types.Pointer)
			if id >= 1 && id <= uint64(len(m.protoMsgs)) && ok && types.Identical(pt.Elem(), m.protoMsgs[id-1].T) {
				store(m.deref(c, tgt.V), copyValDeep(m.protoMsgs[id-1].V))
				return Iface{}
			}
			return m.newErrorString(sym.Str("json: document of another type"))
		}
		if !json.Valid(data) {
			return m.newErrorString(sym.Str("invalid character in JSON input"))
		}
		return m.jsonInto(c, a[1], json.RawMessage(data))
	}
	natives["encoding/json.NewDecoder"] = func(m *Machine, c *frame, fn *ssa.Function, a []Value) Value {
		p := new(Value)
		*p = zero(m.eng.nativeType("encoding/json.Decoder"))
		m.natives[p] = m.newNative("jsondec", &jsonDec{reader: a[0]})
		return p
	}
	natives["(*encoding/json.Decoder).More"] = func(m *Machine, c *frame, fn *ssa.Function, a []Value) Value {
		d := m.natives[a[0].(*Value)].Data.(*jsonDec)
		d.m, d.c = m, c
		if d.dec == nil {
			d.dec = json.NewDecoder(d)
		}
		return sym.Bool(d.dec.More())
	}
	natives["(*encoding/json.Decoder).Decode"] = func(m *Machine, c *frame, fn *ssa.Function, a []Value) Value {
		d := m.natives[a[0].(*Value)].Data.(*jsonDec)
		d.m, d.c = m, c
		if d.dec == nil {
			d.dec = json.NewDecoder(d)
		}
		var raw json.RawMessage
		if err := d.dec.Decode(&raw); err != nil {
			if _, ok := err.(jsonReadErr); ok {
				return d.err // the stream broke before its end
			}
			if err == io.EOF {
				return m.pkgVar("io", "EOF")
			}
			return m.newErrorString(sym.Str(err.Error()))
		}
		return m.jsonInto(c, a[1], raw)
	}
}
