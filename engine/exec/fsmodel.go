package exec

import (
	"os"
	"path/filepath"
	"strings"

	"golang.org/x/tools/go/ssa"

	"verif/engine/sym"
)

// File-system model behind os.Stat/Rename/RemoveAll/MkdirAll/Open/Create and
// bufio.Scanner: paths are concrete, existence and a content identifier of
// every directory are symbolic terms, files hold concrete text.

type fsEnt struct {
	exists *sym.Term
	id     *sym.Term
	text   string
	isFile bool
	filled bool // a directory put there with content (vrf_fs_put_dir): not empty
}

type fsFile struct {
	pos        int // write offset
	appendMode bool
	ent        *fsEnt
	path       string
	closed     bool
}

type fsScanner struct {
	lines []string
	pos   int
}

func (m *Machine) fsGet(path string) *fsEnt {
	if m.fs == nil {
		m.fs = map[string]*fsEnt{}
	}
	path = filepath.Clean(path)
	e := m.fs[path]
	if e == nil {
		e = &fsEnt{exists: sym.False(), id: sym.BVConst(64, 0)}
		m.fs[path] = e
	}
	return e
}

func (m *Machine) fsPath(v Value, what string) string {
	t := m.term(v)
	if !t.Const {
		m.unsupported("%s with symbolic path", what)
	}
	return filepath.Clean(t.S)
}

func (m *Machine) fsChildren(path string) []string {
	var out []string
	for p := range m.fs {
		if strings.HasPrefix(p, path+"/") {
			out = append(out, p)
		}
	}
	return out
}

func (m *Machine) errNotExistValue() Value {
	if m.errNotExist == nil {
		m.errNotExist = m.newErrorString(sym.Str("file does not exist"))
	}
	return m.errNotExist
}

func init() {
	natives["os.Stat"] = func(m *Machine, c *frame, fn *ssa.Function, a []Value) Value {
		e := m.fsGet(m.fsPath(a[0], "os.Stat"))
		if m.branch(e.exists) {
			return Tuple{Iface{}, Iface{}}
		}
		return Tuple{Iface{}, m.errNotExistValue()}
	}
	natives["os.IsNotExist"] = func(m *Machine, c *frame, fn *ssa.Function, a []Value) Value {
		return m.equalValue(a[0], m.errNotExistValue())
	}
	natives["os.MkdirAll"] = func(m *Machine, c *frame, fn *ssa.Function, a []Value) Value {
		p := m.fsPath(a[0], "os.MkdirAll")
		for p != "/" && p != "." && p != "" {
			m.fsGet(p).exists = sym.True()
			p = filepath.Dir(p)
		}
		return Iface{}
	}
	natives["os.RemoveAll"] = func(m *Machine, c *frame, fn *ssa.Function, a []Value) Value {
		p := m.fsPath(a[0], "os.RemoveAll")
		m.fsGet(p).exists = sym.False()
		for _, ch := range m.fsChildren(p) {
			m.fs[ch].exists = sym.False()
		}
		m.event("fs: RemoveAll %s", p)
		return Iface{}
	}
	natives["os.Remove"] = func(m *Machine, c *frame, fn *ssa.Function, a []Value) Value {
		// removes a file or an EMPTY directory
		p := m.fsPath(a[0], "os.Remove")
		e := m.fsGet(p)
		if !m.branch(e.exists) {
			return m.errNotExistValue()
		}
		if !e.isFile {
			nonEmpty := e.filled
			for _, ch := range m.fsChildren(p) {
				if m.branch(m.fs[ch].exists) {
					nonEmpty = true
				}
			}
			if nonEmpty {
				m.event("fs: Remove %s refused: directory not empty", p)
				return m.newErrorString(sym.Str("remove " + p + ": directory not empty"))
			}
		}
		e.exists = sym.False()
		m.event("fs: Remove %s", p)
		return Iface{}
	}
	natives["os.Rename"] = func(m *Machine, c *frame, fn *ssa.Function, a []Value) Value {
		from := m.fsPath(a[0], "os.Rename")
		to := m.fsPath(a[1], "os.Rename")
		src := m.fsGet(from)
		dst := m.fsGet(to)
		if !m.branch(src.exists) {
			return m.errNotExistValue()
		}
		if m.branch(dst.exists) {
			// rename(2) onto an existing non-empty directory fails
			return m.newErrorString(sym.Str("rename " + from + " " + to + ": file exists"))
		}
		*dst = *src
		src.exists = sym.False()
		for _, ch := range m.fsChildren(from) {
			ne := m.fsGet(to + strings.TrimPrefix(ch, from))
			*ne = *m.fs[ch]
			m.fs[ch].exists = sym.False()
		}
		m.event("fs: Rename %s -> %s", from, to)
		return Iface{}
	}
	natives["os.Open"] = func(m *Machine, c *frame, fn *ssa.Function, a []Value) Value {
		p := m.fsPath(a[0], "os.Open")
		e := m.fsGet(p)
		if !m.branch(e.exists) {
			return Tuple{(*Value)(nil), m.errNotExistValue()}
		}
		f := new(Value)
		*f = zero(m.eng.nativeType("os.File"))
		m.natives[f] = m.newNative("file", &fsFile{ent: e, path: p})
		return Tuple{f, Iface{}}
	}
	natives["os.Create"] = func(m *Machine, c *frame, fn *ssa.Function, a []Value) Value {
		p := m.fsPath(a[0], "os.Create")
		e := m.fsGet(p)
		e.exists, e.isFile, e.text = sym.True(), true, ""
		f := new(Value)
		*f = zero(m.eng.nativeType("os.File"))
		m.natives[f] = m.newNative("file", &fsFile{ent: e, path: p})
		return Tuple{f, Iface{}}
	}
	natives["os.OpenFile"] = func(m *Machine, c *frame, fn *ssa.Function, a []Value) Value {
		// OpenFile(name, flag, perm) with concrete flags: O_CREATE, O_TRUNC, O_APPEND, O_EXCL
		p := m.fsPath(a[0], "os.OpenFile")
		ft := m.term(a[1])
		if !ft.Const {
			m.unsupported("os.OpenFile with symbolic flags")
		}
		flags := int(ft.SInt())
		e := m.fsGet(p)
		if m.branch(e.exists) {
			if flags&os.O_CREATE != 0 && flags&os.O_EXCL != 0 {
				return Tuple{(*Value)(nil), m.newErrorString(sym.Str("open " + p + ": file exists"))}
			}
		} else {
			if flags&os.O_CREATE == 0 {
				return Tuple{(*Value)(nil), m.errNotExistValue()}
			}
			e.exists, e.isFile, e.text = sym.True(), true, ""
		}
		if flags&os.O_TRUNC != 0 {
			e.text = ""
		}
		ff := &fsFile{ent: e, path: p}
		if flags&os.O_APPEND != 0 {
			ff.appendMode = true
		}
		f := new(Value)
		*f = zero(m.eng.nativeType("os.File"))
		m.natives[f] = m.newNative("file", ff)
		m.event("fs: OpenFile %s flags=%#x", p, flags)
		return Tuple{f, Iface{}}
	}
	natives["(*os.File).Close"] = func(m *Machine, c *frame, fn *ssa.Function, a []Value) Value { return Iface{} }
	natives["(*os.File).Write"] = func(m *Machine, c *frame, fn *ssa.Function, a []Value) Value {
		n := m.natives[a[0].(*Value)]
		if n == nil {
			m.unsupported("write to a file not opened through the model")
		}
		f := n.Data.(*fsFile)
		bs := a[1].([]Value)
		buf := make([]byte, len(bs))
		for i, b := range bs {
			t := m.term(b)
			if !t.Const {
				m.unsupported("write of symbolic bytes")
			}
			buf[i] = byte(t.U)
		}
		// a write goes to the file offset (the end in append mode) and overwrites what is there
		txt := f.ent.text
		if f.appendMode || f.pos > len(txt) {
			f.pos = len(txt)
		}
		end := f.pos + len(buf)
		if end > len(txt) {
			txt = txt[:f.pos] + string(buf)
		} else {
			txt = txt[:f.pos] + string(buf) + txt[end:]
		}
		f.ent.text = txt
		f.pos = end
		return Tuple{sym.BVConst(64, uint64(len(bs))), Iface{}}
	}
	natives["bufio.NewScanner"] = func(m *Machine, c *frame, fn *ssa.Function, a []Value) Value {
		r, _ := a[0].(Iface)
		fp, ok := r.V.(*Value)
		var lines []string
		if ok && m.natives[fp] != nil {
			f := m.natives[fp].Data.(*fsFile)
			txt := f.ent.text
			if txt != "" {
				lines = strings.Split(strings.TrimSuffix(txt, "\n"), "\n")
			}
		} else {
			m.unsupported("bufio.NewScanner over a reader that is not a modelled file")
		}
		s := new(Value)
		*s = zero(m.eng.nativeType("bufio.Scanner"))
		m.natives[s] = m.newNative("scanner", &fsScanner{lines: lines, pos: -1})
		return s
	}
	scanner := func(m *Machine, v Value) *fsScanner { return m.natives[v.(*Value)].Data.(*fsScanner) }
	natives["(*bufio.Scanner).Scan"] = func(m *Machine, c *frame, fn *ssa.Function, a []Value) Value {
		s := scanner(m, a[0])
		s.pos++
		return sym.Bool(s.pos < len(s.lines))
	}
	natives["(*bufio.Scanner).Text"] = func(m *Machine, c *frame, fn *ssa.Function, a []Value) Value {
		s := scanner(m, a[0])
		if s.pos < 0 || s.pos >= len(s.lines) {
			return sym.Str("")
		}
		return sym.Str(s.lines[s.pos])
	}
	natives["(*bufio.Scanner).Err"] = func(m *Machine, c *frame, fn *ssa.Function, a []Value) Value { return Iface{} }
}

func (e *Engine) fsIntrinsic(name string) stubFn {
	switch name {
	case "vrf_fs_put_dir": // (path string, exists bool, id int)
		return func(m *Machine, c *frame, fn *ssa.Function, a []Value) Value {
			ent := m.fsGet(m.fsPath(a[0], name))
			ent.exists, ent.id = m.term(a[1]), m.term(a[2])
			ent.filled = true // the native counterpart writes an id file into it
			return nil
		}
	case "vrf_fs_exists":
		return func(m *Machine, c *frame, fn *ssa.Function, a []Value) Value {
			return m.fsGet(m.fsPath(a[0], name)).exists
		}
	case "vrf_fs_id":
		return func(m *Machine, c *frame, fn *ssa.Function, a []Value) Value { return m.fsGet(m.fsPath(a[0], name)).id }
	case "vrf_fs_put_file": // (path, text string)
		return func(m *Machine, c *frame, fn *ssa.Function, a []Value) Value {
			ent := m.fsGet(m.fsPath(a[0], name))
			ent.exists, ent.isFile, ent.text = sym.True(), true, constStr(m, a[1], "file text")
			return nil
		}
	case "vrf_fs_text":
		return func(m *Machine, c *frame, fn *ssa.Function, a []Value) Value {
			return sym.Str(m.fsGet(m.fsPath(a[0], name)).text)
		}
	}
	return nil
}
