package exec

import (
	"regexp"
)

var pkgRe = regexp.MustCompile(`(?m)^package\s+(\w+)`)

// PackageNameOf extracts the package name from the first overlay file.
func PackageNameOf(ov map[string][]byte) string {
	for _, b := range ov {
		if m := pkgRe.FindSubmatch(b); m != nil {
			return string(m[1])
		}
	}
	return "main"
}

func CheckMain(args []string) int { return 2 }
