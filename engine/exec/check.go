package exec

import (
	"bytes"
	"encoding/json"
	"flag"
	"fmt"
	"os"
	osexec "os/exec"
	"path/filepath"
	"regexp"
	"sort"
	"strconv"
	"strings"
	"time"
)

var pkgRe = regexp.MustCompile(`(?m)^package\s+(\w+)`)

// PackageNameOf extracts the package name from the first overlay file.
func PackageNameOf(ov map[string][]byte) string {
	keys := make([]string, 0, len(ov))
	for k := range ov {
		keys = append(keys, k)
	}
	sort.Strings(keys)
	for _, k := range keys {
		if m := pkgRe.FindSubmatch(ov[k]); m != nil {
			return string(m[1])
		}
	}
	return "main"
}

// ---------------------------------------------------------------------------
// check specification

type TierCfg struct {
	Params   map[string]int `json:"params"`
	Unwind   int            `json:"unwind"`
	MapOrder *int           `json:"map_order"`
	MaxPaths int            `json:"max_paths"`
	Skip     bool           `json:"skip"`
	MaxLen   int            `json:"max_len"`
}

type EntrySpec struct {
	EntryCfg
	Tiers map[string]*TierCfg `json:"tiers"`
}

type UnitSpec struct {
	Package string       `json:"package"`
	Dir     string       `json:"dir"`
	Harness string       `json:"harness"`
	Entries []*EntrySpec `json:"entries"`
}

type CheckSpec struct {
	ID          string      `json:"id"`
	Units       []*UnitSpec `json:"units"`
	Assumptions []string    `json:"assumptions"`
	Outside     []string    `json:"outside_the_claim"`
	BoundsText  map[string]string `json:"bounds"`
}

type KnownFinding struct {
	Property string            `json:"property"`
	Entry    string            `json:"entry"`
	Label    string            `json:"label"`
	When     map[string]string `json:"when"`
	What     string            `json:"what"`
}

type KnownFile struct {
	Known []KnownFinding `json:"known"`
	Fixed []string       `json:"fixed"`
}

func loadKnown(root string) *KnownFile {
	kf := &KnownFile{}
	b, err := os.ReadFile(filepath.Join(root, "known_findings.json"))
	if err != nil {
		return kf
	}
	json.Unmarshal(b, kf)
	return kf
}

func (k *KnownFinding) matches(prop string, v *Violation) bool {
	if k.Property != prop || k.Entry != v.Entry || k.Label != v.Label {
		return false
	}
	notes := map[string]string{}
	for _, n := range v.Notes {
		if i := strings.Index(n, "="); i > 0 {
			notes[n[:i]] = n[i+1:]
		}
	}
	for tag, want := range k.When {
		if notes[tag] != want {
			return false
		}
	}
	return true
}

// ---------------------------------------------------------------------------

func CheckMain(args []string) int {
	fs := flag.NewFlagSet("check", flag.ExitOnError)
	tier := fs.String("tier", "", "quick|thorough")
	root := fs.String("root", "/verif", "")
	repo := fs.String("repo", "/repo", "")
	only := fs.String("entry", "", "run only this entry (development)")
	workers := fs.Int("workers", 16, "")
	verbose := fs.Bool("v", false, "")
	replayPath := fs.String("replay", "", "replay a counterexample file natively")
	noReplay := fs.Bool("no-replay", false, "development: skip native replay")
	var id string
	if len(args) > 0 && !strings.HasPrefix(args[0], "-") {
		id = args[0]
		args = args[1:]
	}
	fs.Parse(args)
	if id == "" {
		fmt.Fprintln(os.Stderr, "usage: gosym check <ID> --tier quick|thorough")
		return 2
	}
	if *tier == "" {
		*tier = os.Getenv("VERIF_TIER")
	}
	if *tier == "" {
		*tier = "quick"
	}
	seed := 0
	if s := os.Getenv("VERIF_SEED"); s != "" {
		seed, _ = strconv.Atoi(s)
	}
	b, err := os.ReadFile(filepath.Join(*root, "checks", id+".json"))
	if err != nil {
		fmt.Fprintln(os.Stderr, err)
		return 2
	}
	spec := &CheckSpec{}
	dec := json.NewDecoder(bytes.NewReader(b))
	dec.DisallowUnknownFields()
	if err := dec.Decode(spec); err != nil {
		fmt.Fprintln(os.Stderr, "spec:", err)
		return 2
	}
	// the go command may rewrite go.mod / go.sum when a harness imports a package
	// the module does not require directly: a check never leaves the tree changed
	modFiles := map[string][]byte{}
	for _, f := range []string{"go.mod", "go.sum"} {
		if b, err := os.ReadFile(filepath.Join(*repo, f)); err == nil {
			modFiles[f] = b
		}
	}
	defer func() {
		for f, b := range modFiles {
			if now, err := os.ReadFile(filepath.Join(*repo, f)); err == nil && !bytes.Equal(now, b) {
				os.WriteFile(filepath.Join(*repo, f), b, 0o644)
				fmt.Fprintf(os.Stderr, "note: %s was modified by the go command during the check and has been restored\n", f)
			}
		}
	}()
	if *replayPath != "" {
		return replayOnly(*root, *repo, spec, *replayPath)
	}
	return runCheck(*root, *repo, spec, *tier, seed, *only, *workers, *verbose, *noReplay)
}

type unitRun struct {
	eng     *Engine
	unit    *UnitSpec
	results []*EntryResult
	load    time.Duration
}

func entryCfgFor(es *EntrySpec, tier string) (*EntryCfg, bool) {
	c := es.EntryCfg // copy
	c.Params = map[string]int{}
	for k, v := range es.EntryCfg.Params {
		c.Params[k] = v
	}
	if t := es.Tiers[tier]; t != nil {
		if t.Skip {
			return nil, false
		}
		for k, v := range t.Params {
			c.Params[k] = v
		}
		if t.Unwind > 0 {
			c.Unwind = t.Unwind
		}
		if t.MapOrder != nil {
			c.MapOrder = *t.MapOrder
		}
		if t.MaxPaths > 0 {
			c.MaxPaths = t.MaxPaths
		}
		if t.MaxLen > 0 {
			c.MaxLen = t.MaxLen
		}
	}
	return &c, true
}

func runCheck(root, repo string, spec *CheckSpec, tier string, seed int, only string, workers int, verbose, noReplay bool) int {
	t0 := time.Now()
	known := loadKnown(root)
	outDir := filepath.Join(root, "out", spec.ID)
	os.MkdirAll(outDir, 0o755)
	old, _ := filepath.Glob(filepath.Join(outDir, "cex-*.json"))
	oldW, _ := filepath.Glob(filepath.Join(outDir, "witness-*.json"))
	old = append(old, oldW...)
	for _, f := range old {
		os.Remove(f)
	}
	budget := 25 * time.Minute
	if tier == "thorough" {
		budget = 3 * time.Hour
	}
	deadline := t0.Add(budget)

	var runs []*unitRun
	var inconclusive []string
	for _, u := range spec.Units {
		hdir := harnessDirs(root, u.Harness)
		ov, err := HarnessOverlay(repo, u.Dir, hdir, true)
		if err != nil {
			fmt.Fprintln(os.Stderr, err)
			return 2
		}
		pkgName := PackageNameOf(ov)
		ov[filepath.Join(repo, u.Dir, "zz_vrf_intrinsics.go")] = SymIntrinsics(pkgName)
		eng, err := Load(repo, u.Package, ov)
		if err != nil {
			fmt.Printf("INCONCLUSIVE property=%s cannot load %s with the harness: %v\n", spec.ID, u.Package, err)
			return 2
		}
		eng.Workers = workers
		eng.Verbose = verbose
		eng.Portfolio = true
		if tier == "thorough" {
			eng.TimeoutMS = 60000
			// every worker re-decides its first 100 assertion queries and every 20th
			// after that on the other back ends (re-deciding all of them costs a
			// process start per query: hours for the larger entries)
			eng.CrossEach = 20
			eng.CrossFirst = 100
		}
		ur := &unitRun{unit: u, load: eng.LoadTime, eng: eng}
		for _, es := range u.Entries {
			if only != "" && es.Func != only {
				continue
			}
			cfg, ok := entryCfgFor(es, tier)
			if !ok {
				continue
			}
			res, err := eng.RunEntry(cfg, deadline)
			if err != nil {
				fmt.Printf("INCONCLUSIVE property=%s %v\n", spec.ID, err)
				return 2
			}
			ur.results = append(ur.results, res)
			for _, s := range res.Inconclusive {
				inconclusive = append(inconclusive, cfg.Func+": "+s)
			}
			if verbose {
				fmt.Fprintf(os.Stderr, "[%s] paths=%d ends=%v queries=%d wall=%v viol=%d\n", cfg.Func, res.Paths, res.Ends, res.Stats.Queries, res.Wall, len(res.Violations))
			}
		}
		runs = append(runs, ur)
	}

	// ---- violations: known-finding match, native replay
	exit := 0
	nViol := 0
	knownHit := map[string]int{}
	var knownLines []string
	cexN := 0
	replayed := 0
	pinnedSeen := map[string]int{}
	pinnedReported := map[string]bool{}
	for _, ur := range runs {
		var fresh []*Violation
		for _, res := range ur.results {
			for _, v := range res.Violations {
				matched := false
				for i := range known.Known {
					k := &known.Known[i]
					if k.matches(spec.ID, v) {
						key := k.Entry + "|" + k.Label + "|" + k.What
						if knownHit[key] == 0 {
							knownLines = append(knownLines, fmt.Sprintf("KNOWN-FINDING: property=%s %s", spec.ID, k.What))
						}
						knownHit[key]++
						matched = true
						break
					}
				}
				if !matched {
					fresh = append(fresh, v)
				}
			}
		}
		if len(fresh) == 0 {
			continue
		}
		// entries whose environment cannot be built natively: pinned re-execution
		var native []*Violation
		for _, v := range fresh {
			var cfg *EntryCfg
			for _, res := range ur.results {
				// several parameterisations may share one entry function: the
				// counterexample belongs to the one with its parameters
				if res.Cfg.Func == v.Entry && (cfg == nil || sameParams(res.Cfg.Params, v.Params)) {
					cfg = res.Cfg
					if sameParams(res.Cfg.Params, v.Params) {
						break
					}
				}
			}
			if cfg != nil && cfg.NativeReplay != nil && !*cfg.NativeReplay && ur.eng != nil {
				if pinnedSeen[v.Label] >= 3 {
					continue
				}
				pinnedSeen[v.Label]++
				cexN++
				p := filepath.Join(outDir, fmt.Sprintf("cex-%d.json", cexN))
				b, _ := json.MarshalIndent(v, "", " ")
				os.WriteFile(p, b, 0o644)
				ok, msg := ur.eng.ReplayPinned(cfg, v)
				replayed++
				if ok {
					if !pinnedReported[v.Label] {
						fmt.Printf("VIOLATION property=%s replay=%s\n", spec.ID, p)
						fmt.Printf("  label=%s entry=%s at %s (no native environment for this entry: %s)\n  model: %s\n  notes: %s\n", v.Label, v.Entry, v.Where, msg, fmtModel(v.Model), strings.Join(v.Notes, " "))
					}
					pinnedReported[v.Label] = true
					nViol++
					exit = 1
				} else if !pinnedReported[v.Label] {
					fmt.Printf("ENCODING-MISMATCH property=%s label=%s: %s\n", spec.ID, v.Label, msg)
					if exit == 0 {
						exit = 2
					}
				}
				continue
			}
			native = append(native, v)
		}
		fresh = native
		if len(fresh) == 0 {
			continue
		}
		// keep at most 3 per label for replay
		perLabel := map[string]int{}
		var todo []*Violation
		for _, v := range fresh {
			perLabel[v.Label]++
			if perLabel[v.Label] <= 3 {
				todo = append(todo, v)
			}
		}
		var paths []string
		for _, v := range todo {
			cexN++
			p := filepath.Join(outDir, fmt.Sprintf("cex-%d.json", cexN))
			b, _ := json.MarshalIndent(v, "", " ")
			os.WriteFile(p, b, 0o644)
			paths = append(paths, p)
		}
		if noReplay {
			for i, v := range todo {
				fmt.Printf("UNREPLAYED-COUNTEREXAMPLE property=%s label=%s file=%s\n", spec.ID, v.Label, paths[i])
			}
			exit = 2
			continue
		}
		race := false
		for _, res := range ur.results {
			if res.Cfg.Race {
				race = true
			}
		}
		outs, err := replayNative(root, repo, ur.unit, paths, race)
		if err != nil {
			fmt.Printf("INCONCLUSIVE property=%s native replay could not be built: %v\n", spec.ID, err)
			exit = 2
			continue
		}
		reproducedLabel := map[string]bool{}
		for i, v := range todo {
			replayed++
			raced := race && strings.Contains(outs[i], "WARNING: DATA RACE")
			if raced {
				fmt.Printf("  (native stress run under the race detector reported a data race)\n")
			}
			if raced || strings.Contains(outs[i], "VRF-REPRODUCED "+v.Label) {
				if !reproducedLabel[v.Label] {
					fmt.Printf("VIOLATION property=%s replay=%s\n", spec.ID, paths[i])
					fmt.Printf("  label=%s entry=%s at %s\n  model: %s\n  notes: %s\n", v.Label, v.Entry, v.Where, fmtModel(v.Model), strings.Join(v.Notes, " "))
				}
				reproducedLabel[v.Label] = true
				nViol++
				exit = 1
			}
		}
		for i, v := range todo {
			if !reproducedLabel[v.Label] {
				fmt.Printf("ENCODING-MISMATCH property=%s label=%s: counterexample %s did not reproduce natively\n%s\n", spec.ID, v.Label, paths[i], tail(outs[i], 15))
				if exit == 0 {
					exit = 2
				}
				reproducedLabel[v.Label] = true
			}
		}
	}
	// Witness replay: entries whose environment is an engine MODEL of a reflection
	// library (envconfig, mergo, DisplayJSON ...) are also run natively, on a few
	// inputs the solver found for passing paths, through the real libraries. An
	// assertion that fails natively on such an input is a violation reproduced
	// against the real code (the model and the implementation disagree).
	witnessesReplayed := 0
	if exit == 0 && !noReplay {
		for _, ur := range runs {
			var paths []string
			var labels []string
			for _, res := range ur.results {
				if !res.Cfg.WitnessReplay || (res.Cfg.NativeReplay != nil && !*res.Cfg.NativeReplay) {
					continue
				}
				n := 0
				for _, smp := range res.Samples {
					if n >= 3 || len(smp.Inputs) == 0 && n >= 1 {
						break
					}
					n++
					cexN++
					w := &Violation{Entry: res.Cfg.Func, Label: "(witness)", Decisions: smp.Decisions, Model: smp.Inputs, Params: res.Cfg.Params}
					pth := filepath.Join(outDir, fmt.Sprintf("witness-%d.json", cexN))
					b, _ := json.MarshalIndent(w, "", " ")
					os.WriteFile(pth, b, 0o644)
					paths = append(paths, pth)
					labels = append(labels, res.Cfg.Func)
				}
			}
			if len(paths) == 0 {
				continue
			}
			outs, err := replayNative(root, repo, ur.unit, paths, false)
			if err != nil {
				fmt.Printf("INCONCLUSIVE property=%s witness replay could not be built: %v\n", spec.ID, err)
				exit = 2
				continue
			}
			for i, out := range outs {
				witnessesReplayed++
				if strings.Contains(out, "VRF-ASSUME-FAILED") || !strings.Contains(out, "(desync=0)") {
					continue // this input does not drive the native run down the same path
				}
				var failed []string
				for _, ln := range strings.Split(out, "\n") {
					if strings.HasPrefix(ln, "VRF-ASSERT-FAILED ") {
						failed = append(failed, strings.TrimPrefix(ln, "VRF-ASSERT-FAILED "))
					} else if strings.HasPrefix(ln, "VRF-PANIC") {
						failed = append(failed, labels[i]+".no-panic")
					}
				}
				if len(failed) > 0 {
					fmt.Printf("VIOLATION property=%s replay=%s\n", spec.ID, paths[i])
					fmt.Printf("  label=%s entry=%s: found by native witness replay - on this input the real code fails the assertion although the engine's model of a library it calls satisfied it\n%s\n", failed[0], labels[i], tail(out, 8))
					nViol++
					replayed++
					exit = 1
					break
				}
			}
		}
	}
	for _, l := range knownLines {
		fmt.Println(l)
	}
	if len(inconclusive) > 0 {
		for _, s := range inconclusive {
			fmt.Printf("INCONCLUSIVE property=%s %s\n", spec.ID, s)
		}
		if exit == 0 {
			exit = 2
		}
	}
	writeEvidence(root, spec, tier, seed, runs, nViol, knownHit, inconclusive, replayed, time.Since(t0))
	if exit == 0 {
		fmt.Printf("OK property=%s tier=%s wall=%.1fs\n", spec.ID, tier, time.Since(t0).Seconds())
	}
	return exit
}

func fmtModel(mv []ModelVal) string {
	var p []string
	for _, v := range mv {
		if strings.HasPrefix(v.Tag, "blake2b(") {
			continue // modelled hash bytes: kept in the file, not printed
		}
		p = append(p, v.Tag+"="+v.Val)
	}
	return strings.Join(p, " ")
}

func tail(s string, n int) string {
	lines := strings.Split(strings.TrimSpace(s), "\n")
	if len(lines) > n {
		lines = lines[len(lines)-n:]
	}
	return strings.Join(lines, "\n")
}

// ---------------------------------------------------------------------------
// native replay

const qtlsUnsafe = "/root/go/pkg/mod/github.com/marten-seemann/qtls-go1-17@v0.1.0-beta.1.2/unsafe.go"

func replayNative(root, repo string, u *UnitSpec, cexPaths []string, race bool) ([]string, error) {
	tmp, err := os.MkdirTemp("", "vrfreplay")
	if err != nil {
		return nil, err
	}
	defer os.RemoveAll(tmp)
	hdir := harnessDirs(root, u.Harness)
	ov, err := HarnessOverlay(repo, u.Dir, hdir, false)
	if err != nil {
		return nil, err
	}
	pkgName := PackageNameOf(ov)
	ov[filepath.Join(repo, u.Dir, "zz_vrf_intrinsics.go")] = ReplayIntrinsics(pkgName)
	ov[filepath.Join(repo, u.Dir, "zz_vrf_replay_test.go")] = ReplayTest(pkgName)
	if _, err := os.Stat(qtlsFile); err == nil {
		ov[qtlsFile] = []byte("// +build go1.18\n\npackage qtls\n")
	}
	if b, err := os.ReadFile(qtlsUnsafe); err == nil {
		ov[qtlsUnsafe] = bytes.Replace(b, []byte("func init()"), []byte("func vrfDisabledInit()"), 1)
	}
	repl := map[string]string{}
	i := 0
	for virt, content := range ov {
		i++
		real := filepath.Join(tmp, fmt.Sprintf("f%d_%s", i, filepath.Base(virt)))
		if err := os.WriteFile(real, content, 0o644); err != nil {
			return nil, err
		}
		repl[virt] = real
	}
	ovJSON, _ := json.Marshal(map[string]interface{}{"Replace": repl})
	ovPath := filepath.Join(tmp, "overlay.json")
	os.WriteFile(ovPath, ovJSON, 0o644)
	bin := filepath.Join(tmp, "replay.test")
	env := append(os.Environ(), "GOFLAGS=-mod=mod", "GOPROXY=off", "GOSUMDB=off", "GOTOOLCHAIN=local")
	bargs := []string{"test", "-vet=off", "-c", "-o", bin, "-overlay", ovPath}
	if race {
		bargs = append(bargs, "-race")
	}
	build := osexec.Command("go", append(bargs, u.Package)...)
	build.Dir = repo
	build.Env = env
	if out, err := build.CombinedOutput(); err != nil {
		return nil, fmt.Errorf("go test -c: %v\n%s", err, tail(string(out), 30))
	}
	var outs []string
	for _, p := range cexPaths {
		var best string
		maxAttempts := 20
		if race {
			maxAttempts = 2
		}
		for attempt := 0; attempt < maxAttempts; attempt++ {
			c := osexec.Command(bin, "-test.run", "^TestVrfReplay$", "-test.count=1", "-test.timeout=120s")
			c.Dir = filepath.Join(repo, u.Dir)
			c.Env = append(env, "VRF_CEX="+p)
			out, _ := c.CombinedOutput()
			best = string(out)
			if strings.Contains(best, "VRF-REPRODUCED") || strings.Contains(best, "WARNING: DATA RACE") || strings.Contains(best, "test timed out") {
				break
			}
			// retry only helps when map iteration order matters
			if attempt >= 4 && !strings.Contains(best, "VRF-NOT-REPRODUCED") {
				break
			}
		}
		outs = append(outs, best)
	}
	return outs, nil
}

func replayOnly(root, repo string, spec *CheckSpec, path string) int {
	if abs, err := filepath.Abs(path); err == nil {
		path = abs
	}
	b, err := os.ReadFile(path)
	if err != nil {
		fmt.Fprintln(os.Stderr, err)
		return 2
	}
	var v Violation
	if err := json.Unmarshal(b, &v); err != nil {
		fmt.Fprintln(os.Stderr, err)
		return 2
	}
	for _, u := range spec.Units {
		for _, es := range u.Entries {
			if es.Func == v.Entry {
				outs, err := replayNative(root, repo, u, []string{path}, es.Race)
				if err != nil {
					fmt.Fprintln(os.Stderr, err)
					return 2
				}
				fmt.Println(outs[0])
				if strings.Contains(outs[0], "VRF-REPRODUCED "+v.Label) || (v.Label == "(witness)" && (strings.Contains(outs[0], "VRF-ASSERT-FAILED ") || strings.Contains(outs[0], "VRF-PANIC"))) {
					fmt.Printf("VIOLATION property=%s replay=%s\n", spec.ID, path)
					return 1
				}
				return 0
			}
		}
	}
	fmt.Fprintln(os.Stderr, "entry not found in spec:", v.Entry)
	return 2
}

// ---------------------------------------------------------------------------
// evidence

func writeEvidence(root string, spec *CheckSpec, tier string, seed int, runs []*unitRun, nViol int, knownHit map[string]int, inconclusive []string, replayed int, wall time.Duration) {
	type entryEv struct {
		Entry        string                    `json:"entry"`
		Package      string                    `json:"package"`
		Paths        int                       `json:"paths_explored"`
		Nontrivial   int                       `json:"paths_reaching_assertions"`
		SolverDec    int                       `json:"paths_with_solver_decided_assertion"`
		Ends         map[string]int            `json:"path_ends"`
		Asserts      map[string]map[string]int `json:"assertion_verdicts"`
		Reached      map[string]int            `json:"labels_reached"`
		Queries      int                       `json:"solver_queries"`
		ByVerdict    map[string]int            `json:"queries_by_verdict"`
		Fallback     map[string]int            `json:"decided_by_fallback_backend,omitempty"`
		CrossChecked int                       `json:"cross_solver_checked"`
		CrossDiffs   int                       `json:"cross_solver_disagreements"`
		SolverTimeS  float64                   `json:"solver_time_s"`
		MaxQueryS    float64                   `json:"max_query_s"`
		WallS        float64                   `json:"wall_s"`
		Unwind       int                       `json:"unwind_bound"`
		UnwindSeen   int                       `json:"unwind_max_seen"`
		MapOrder     int                       `json:"map_order_bound"`
		Params       map[string]int            `json:"params"`
		Exhaustive   bool                      `json:"worklist_drained"`
		Bounds       string                    `json:"bounds,omitempty"`
	}
	var entries []entryEv
	funcs := map[string]bool{}
	stubs := map[string]bool{}
	notes := map[string]bool{}
	var samples []interface{}
	totalQ, totalNT, totalPaths := 0, 0, 0
	totalTrans, totalSD := 0, 0
	var solverT float64
	exhaustive := true
	var boundParts []string
	for _, ur := range runs {
		for _, r := range ur.results {
			entries = append(entries, entryEv{Entry: r.Cfg.Func, Package: ur.unit.Package, Paths: r.Paths, Nontrivial: r.Nontrivial, SolverDec: r.SolverDecided, Ends: r.Ends,
				Asserts: r.Asserts, Reached: r.Reached, Queries: r.Stats.Queries,
				ByVerdict: map[string]int{"sat": r.Stats.Sat, "unsat": r.Stats.Unsat, "unknown": r.Stats.Unknown, "error": r.Stats.Errors},
				Fallback:  r.Stats.Fallback, CrossChecked: r.Stats.CrossChecks, CrossDiffs: r.Stats.CrossDiffs,
				SolverTimeS: r.Stats.SolverTime.Seconds(), MaxQueryS: r.Stats.MaxQuery.Seconds(), WallS: r.Wall.Seconds(),
				Unwind: r.Cfg.Unwind, UnwindSeen: r.MaxUnwind, MapOrder: r.Cfg.MapOrder, Params: r.Cfg.Params, Exhaustive: r.Exhaustive, Bounds: r.Cfg.Bounds})
			{
				var ks []string
				for k := range r.Cfg.Params {
					ks = append(ks, k)
				}
				sort.Strings(ks)
				var ps []string
				for _, k := range ks {
					ps = append(ps, fmt.Sprintf("%s=%v", k, r.Cfg.Params[k]))
				}
				boundParts = append(boundParts, fmt.Sprintf("%s: %s; loops with a symbolic guard unwound <= %d times (max seen %d); map iteration orders for maps <= %d entries", r.Cfg.Func, strings.Join(ps, " "), r.Cfg.Unwind, r.MaxUnwind, r.Cfg.MapOrder))
			}
			totalQ += r.Stats.Queries
			totalNT += r.Nontrivial
			totalPaths += r.Paths
			totalTrans += r.Transitions
			totalSD += r.SolverDecided
			solverT += r.Stats.SolverTime.Seconds()
			if !r.Exhaustive {
				exhaustive = false
			}
			for f := range r.Funcs {
				funcs[f] = true
			}
			for f := range r.Stubs {
				stubs[f] = true
			}
			for n := range r.Notes {
				notes[n] = true
			}
			for i, s := range r.Samples {
				if i < 3 {
					samples = append(samples, map[string]interface{}{"entry": r.Cfg.Func, "decisions": s.Decisions, "end": s.End, "assertions": s.Asserts, "a_satisfying_input": s.Inputs, "events": s.Events})
				}
			}
		}
	}
	keys := func(m map[string]bool, filter func(string) bool) []string {
		var out []string
		for k := range m {
			if filter == nil || filter(k) {
				out = append(out, k)
			}
		}
		sort.Strings(out)
		return out
	}
	repoFuncs := keys(funcs, func(s string) bool {
		return strings.Contains(s, "ipfs-cluster") && !strings.Contains(s, "vrf") && !strings.Contains(s, "Vrf")
	})
	depFuncs := keys(funcs, func(s string) bool { return !strings.Contains(s, "ipfs-cluster") })
	stubList := keys(stubs, func(s string) bool { return !strings.Contains(s, ".vrf_") })
	if len(samples) == 0 {
		samples = append(samples, "no feasible path reached an assertion")
	}
	assumptions := append([]string{}, spec.Assumptions...)
	for _, n := range keys(notes, nil) {
		assumptions = append(assumptions, "engine note: "+n)
	}
	for _, o := range spec.Outside {
		assumptions = append(assumptions, "outside the claim: "+o)
	}
	var kh []string
	for k, n := range knownHit {
		kh = append(kh, fmt.Sprintf("%s (x%d)", k, n))
	}
	sort.Strings(kh)
	ev := map[string]interface{}{
		"property_id": spec.ID,
		"tier":        tier,
		"seed":        seed,
		"level":       "model_checking",
		"coverage": map[string]interface{}{
			"evaluations":         totalQ,
			"distinct_nontrivial": totalNT,
			"rule": "evaluations = SMT queries discharged (feasibility + assertion queries). A case is one feasible path of the real code's SSA under the harness: a distinct vector of branch/choice decisions, so cases are distinct by construction. A case is counted as non-trivial when it is feasible, reaches at least one property assertion and is distinguished from the other cases by at least one solver-checked decision or symbolic input; paths_with_solver_decided_assertion counts those whose assertion still mentioned symbolic inputs and was decided by an unsat answer (holds for every value on that path) rather than folding to a constant. states = paths explored (each is one symbolic state of the harness at its end), transitions = branch/choice decisions taken over all paths, traces_validated_against_impl = counterexamples replayed natively against the real build in this run (0 when nothing was violated).",
			"states":                          maxInt(totalPaths, 1),
			"transitions":                     maxInt(totalTrans, 1),
			"traces_validated_against_impl":   replayed,
			"paths_with_solver_decided_assertion": totalSD,
			"samples":                         samples,
			"exhaustive":                      exhaustive && len(inconclusive) == 0,
			"paths_explored":                  totalPaths,
			"entries":                         entries,
			"functions_encoded_from_repo":     repoFuncs,
			"dependency_functions_executed_from_ssa": len(depFuncs),
			"stubs_and_models_used":           stubList,
			"bounds":                          strings.TrimSpace(spec.BoundsText[tier] + " Per entry (harness parameters of this run): " + strings.Join(boundParts, " | ")),
			"solver_time_s":                   solverT,
			"solvers":                         "z3 4.8.12 (incremental, primary); fallback portfolio on unknown: cvc5 1.0 --solve-bv-as-int=sum, z3 5.1.0, cvc5 --strings-exp; thorough tier re-decides a sample of the assertion queries on the portfolio (per worker: the first 100 and every 20th after) and treats a disagreement as inconclusive",
			"counterexamples_replayed_natively": replayed,
			"known_findings_hit":              kh,
			"inconclusive":                    inconclusive,
		},
		"assumptions": assumptions,
		"wall_s":      wall.Seconds(),
		"violations":  nViol,
	}
	os.MkdirAll(filepath.Join(root, "evidence"), 0o755)
	b, _ := json.MarshalIndent(ev, "", " ")
	os.WriteFile(filepath.Join(root, "evidence", spec.ID+".json"), b, 0o644)
}

func harnessDirs(root, spec string) string {
	var out []string
	for _, d := range strings.Split(spec, ",") {
		out = append(out, filepath.Join(root, strings.TrimSpace(d)))
	}
	return strings.Join(out, ",")
}

func maxInt(a, b int) int {
	if a > b {
		return a
	}
	return b
}

func sameParams(a, b map[string]int) bool {
	if len(a) != len(b) {
		return false
	}
	for k, v := range a {
		if w, ok := b[k]; !ok || w != v {
			return false
		}
	}
	return true
}
