// Package solver drives one incremental SMT solver process (z3 -in) with
// push/pop scopes, and falls back to a portfolio of other back ends when the
// primary answers unknown.
package solver

import (
	"bufio"
	"fmt"
	"io"
	"os"
	"os/exec"
	"strings"
	"time"

	"verif/engine/sym"
)

type Result int

const (
	Unsat Result = iota
	Sat
	Unknown
)

func (r Result) String() string { return [...]string{"unsat", "sat", "unknown"}[r] }

type Stats struct {
	Queries     int
	Sat         int
	Unsat       int
	Unknown     int
	Errors      int
	Fallback    map[string]int // decided by which fallback back end
	SolverTime  time.Duration
	MaxQuery    time.Duration
	CrossChecks int
	CrossDiffs  int
}

type scope struct {
	cmds     []string
	defined  []*sym.Term
	declared []string
}

type Session struct {
	cmd        *exec.Cmd
	in         io.WriteCloser
	out        *bufio.Reader
	scopes     []*scope
	defined    map[*sym.Term]string
	declared   map[string]bool
	mark       int
	TimeoutMS  int
	Stats      Stats
	Portfolio  bool
	CrossEach  int // cross-check every n-th final query with other back ends (0 = never)
	CrossFirst int // ... and each of the first CrossFirst final queries of this session
	finalSeen  int
	LastErr    string
	bin        string
	args       []string

	pendingScope bool
}

func New(timeoutMS int) (*Session, error) {
	s := &Session{TimeoutMS: timeoutMS, bin: "z3", args: []string{"-in"}}
	s.Stats.Fallback = map[string]int{}
	if err := s.start(); err != nil {
		return nil, err
	}
	return s, nil
}

func (s *Session) start() error {
	s.cmd = exec.Command(s.bin, s.args...)
	in, err := s.cmd.StdinPipe()
	if err != nil {
		return err
	}
	out, err := s.cmd.StdoutPipe()
	if err != nil {
		return err
	}
	s.cmd.Stderr = os.Stderr
	if err := s.cmd.Start(); err != nil {
		return err
	}
	s.in = in
	s.out = bufio.NewReaderSize(out, 1<<16)
	s.scopes = []*scope{{}}
	s.defined = map[*sym.Term]string{}
	s.declared = map[string]bool{}
	s.raw(fmt.Sprintf("(set-option :timeout %d)", s.TimeoutMS))
	return nil
}

func (s *Session) Close() {
	if s.cmd != nil {
		s.in.Close()
		s.cmd.Process.Kill()
		s.cmd.Wait()
		s.cmd = nil
	}
}

func (s *Session) raw(c string) {
	io.WriteString(s.in, c)
	io.WriteString(s.in, "\n")
}

func (s *Session) emit(c string) {
	sc := s.scopes[len(s.scopes)-1]
	sc.cmds = append(sc.cmds, c)
	s.raw(c)
}

// Reset drops all scopes and definitions.
func (s *Session) Reset() {
	s.raw("(reset)")
	s.raw(fmt.Sprintf("(set-option :timeout %d)", s.TimeoutMS))
	s.scopes = []*scope{{}}
	s.defined = map[*sym.Term]string{}
	s.declared = map[string]bool{}
}

func (s *Session) Push() {
	s.scopes = append(s.scopes, &scope{})
	s.raw("(push 1)")
}

func (s *Session) Pop() {
	sc := s.scopes[len(s.scopes)-1]
	for _, t := range sc.defined {
		delete(s.defined, t)
	}
	for _, n := range sc.declared {
		delete(s.declared, n)
	}
	s.scopes = s.scopes[:len(s.scopes)-1]
	s.raw("(pop 1)")
}

func (s *Session) Depth() int { return len(s.scopes) }

// ref returns the SMT text naming t, emitting declarations/definitions first.
func (s *Session) ref(t *sym.Term) string {
	if t.Const {
		return t.ConstSMT()
	}
	if n, ok := s.defined[t]; ok {
		return n
	}
	sc := s.scopes[len(s.scopes)-1]
	switch t.Op {
	case "var":
		if !s.declared[t.Name] {
			s.declared[t.Name] = true
			sc.declared = append(sc.declared, t.Name)
			s.emit(fmt.Sprintf("(declare-const %s %s)", t.Name, t.Sort.SMT()))
		}
		return t.Name
	}
	args := make([]string, len(t.Args))
	for i, a := range t.Args {
		args[i] = s.ref(a)
	}
	if t.Op == "uf" && !s.declared[t.Name] {
		s.declared[t.Name] = true
		sc.declared = append(sc.declared, t.Name)
		as := make([]string, len(t.Args))
		for i, a := range t.Args {
			as[i] = a.Sort.SMT()
		}
		s.emit(fmt.Sprintf("(declare-fun %s (%s) %s)", t.Name, strings.Join(as, " "), t.Sort.SMT()))
	}
	body := t.Head(args)
	if len(body) < 40 {
		// small: inline, but remember to avoid re-rendering
		s.defined[t] = body
		sc.defined = append(sc.defined, t)
		return body
	}
	name := fmt.Sprintf("t%d", t.ID)
	s.emit(fmt.Sprintf("(define-fun %s () %s %s)", name, t.Sort.SMT(), body))
	s.defined[t] = name
	sc.defined = append(sc.defined, t)
	return name
}

// HasDecl reports whether a symbol is declared in an open scope.
func (s *Session) HasDecl(name string) bool { return s.declared[name] }

// Declare makes sure a variable is declared in the current scope.
func (s *Session) Declare(t *sym.Term) {
	if !t.Const {
		s.ref(t)
	}
}

func (s *Session) Assert(t *sym.Term) {
	if t.IsTrue() {
		return
	}
	r := s.ref(t)
	s.emit("(assert " + r + ")")
}

// readUntilMark reads solver output lines until the echo marker.
func (s *Session) readUntilMark() ([]string, error) {
	s.mark++
	m := fmt.Sprintf("<<%d>>", s.mark)
	s.raw(fmt.Sprintf("(echo \"%s\")", m))
	var lines []string
	for {
		l, err := s.out.ReadString('\n')
		if err != nil {
			return lines, err
		}
		l = strings.TrimRight(l, "\r\n")
		if l == m || l == "\""+m+"\"" {
			return lines, nil
		}
		lines = append(lines, l)
	}
}

// Check decides satisfiability of the current assertions plus extra.
// If final is true the query is a property query (counted for cross-check).
func (s *Session) Check(final bool, extra ...*sym.Term) Result {
	t0 := time.Now()
	needScope := len(extra) > 0
	if needScope {
		refs := make([]string, len(extra))
		for i, e := range extra {
			refs[i] = s.ref(e) // definitions go to the enclosing scope
		}
		s.Push()
		for _, r := range refs {
			s.emit("(assert " + r + ")")
		}
	}
	s.raw("(check-sat)")
	lines, err := s.readUntilMark()
	res := Unknown
	hasErr := err != nil
	for _, l := range lines {
		switch {
		case strings.HasPrefix(l, "(error"):
			hasErr = true
			s.LastErr = l
		case l == "sat":
			res = Sat
		case l == "unsat":
			res = Unsat
		case l == "unknown":
			res = Unknown
		}
	}
	if err != nil {
		s.LastErr = "solver died: " + err.Error()
		// restart; caller's path is lost -> report unknown
		s.Close()
		s.start()
		s.Stats.Errors++
		s.Stats.Queries++
		s.Stats.Unknown++
		return Unknown
	}
	if hasErr {
		res = Unknown
		s.Stats.Errors++
	}
	if res == Unknown && s.Portfolio && !hasErr {
		if r, who := s.fallback(); r != Unknown {
			res = r
			s.Stats.Fallback[who]++
		}
	} else if final && s.CrossEach > 0 && res != Unknown {
		s.finalSeen++
		if s.finalSeen <= s.CrossFirst || s.finalSeen%s.CrossEach == 0 {
			s.Stats.CrossChecks++
			if r, _ := s.fallback(); r != Unknown && r != res {
				s.Stats.CrossDiffs++
				s.LastErr = fmt.Sprintf("cross-solver disagreement: z3=%v other=%v", res, r)
				res = Unknown
			}
		}
	}
	if res == Unknown {
		if d := os.Getenv("VRF_DUMP_UNKNOWN"); d != "" {
			os.WriteFile(fmt.Sprintf("%s/unknown-%d-%d.smt2", d, os.Getpid(), s.mark), []byte(s.Script()+"(check-sat)\n"), 0o644)
		}
	}
	if needScope && res != Sat {
		s.Pop()
	} else if needScope {
		// keep the scope so that a model can be read; caller must call EndCheck
	}
	d := time.Since(t0)
	s.Stats.SolverTime += d
	if d > s.Stats.MaxQuery {
		s.Stats.MaxQuery = d
	}
	s.Stats.Queries++
	switch res {
	case Sat:
		s.Stats.Sat++
	case Unsat:
		s.Stats.Unsat++
	default:
		s.Stats.Unknown++
	}
	s.pendingScope = needScope && res == Sat
	return res
}

// EndCheck pops the temporary scope left open by a Sat answer of Check with extras.
func (s *Session) EndCheck() {
	if s.pendingScope {
		s.Pop()
		s.pendingScope = false
	}
}

// Script returns the full SMT-LIB script of all open scopes.
func (s *Session) Script() string {
	var b strings.Builder
	for i, sc := range s.scopes {
		if i > 0 {
			b.WriteString("(push 1)\n")
		}
		for _, c := range sc.cmds {
			b.WriteString(c)
			b.WriteByte('\n')
		}
	}
	return b.String()
}

func runOnce(bin string, args []string, script string, to time.Duration) Result {
	f, err := os.CreateTemp("", "vrfq*.smt2")
	if err != nil {
		return Unknown
	}
	defer os.Remove(f.Name())
	f.WriteString(script)
	f.Close()
	c := exec.Command(bin, append(args, f.Name())...)
	done := make(chan struct{})
	var out []byte
	go func() { out, _ = c.Output(); close(done) }()
	select {
	case <-done:
	case <-time.After(to):
		if c.Process != nil {
			c.Process.Kill()
		}
		<-done
		return Unknown
	}
	txt := string(out)
	if strings.Contains(txt, "(error") {
		return Unknown
	}
	for _, l := range strings.Split(txt, "\n") {
		l = strings.TrimSpace(l)
		if l == "sat" {
			return Sat
		}
		if l == "unsat" {
			return Unsat
		}
	}
	return Unknown
}

func (s *Session) fallback() (Result, string) {
	script := s.Script() + "(check-sat)\n"
	to := time.Duration(s.TimeoutMS) * time.Millisecond
	if to < 10*time.Second {
		to = 10 * time.Second
	}
	if !strings.Contains(script, "String") && !strings.Contains(script, "FloatingPoint") {
		if r := runOnce("cvc5", []string{"--lang=smt2", "--solve-bv-as-int=sum", fmt.Sprintf("--tlimit=%d", to.Milliseconds())}, "(set-logic ALL)\n"+script, to+time.Second); r != Unknown {
			return r, "cvc5-bv-as-int"
		}
	}
	if r := runOnce("z3-new", []string{"-smt2", fmt.Sprintf("-T:%d", int(to.Seconds()))}, script, to+time.Second); r != Unknown {
		return r, "z3-5.1.0"
	}
	if r := runOnce("cvc5", []string{"--lang=smt2", "--strings-exp", "--fp-exp", fmt.Sprintf("--tlimit=%d", to.Milliseconds())}, "(set-logic ALL)\n"+script, to+time.Second); r != Unknown {
		return r, "cvc5"
	}
	return Unknown, ""
}

// Values reads the model values of the given terms (must follow a Sat answer,
// before EndCheck).
func (s *Session) Values(ts []*sym.Term) (map[*sym.Term]*sym.Term, error) {
	res := map[*sym.Term]*sym.Term{}
	var names []string
	var which []*sym.Term
	for _, t := range ts {
		if t.Const {
			res[t] = t
			continue
		}
		if t.Op == "var" && !s.declared[t.Name] {
			// never mentioned in the query: unconstrained
			continue
		}
		names = append(names, s.refNoDefine(t))
		which = append(which, t)
	}
	if len(names) == 0 {
		return res, nil
	}
	s.raw("(get-value (" + strings.Join(names, " ") + "))")
	lines, err := s.readUntilMark()
	if err != nil {
		return nil, err
	}
	txt := strings.Join(lines, "\n")
	if strings.Contains(txt, "(error") {
		return nil, fmt.Errorf("get-value: %s", txt)
	}
	sx, _, err := parseSexp(txt, 0)
	if err != nil {
		return nil, err
	}
	if len(sx.list) != len(which) {
		return nil, fmt.Errorf("get-value arity %d != %d: %s", len(sx.list), len(which), txt)
	}
	for i, pair := range sx.list {
		if len(pair.list) != 2 {
			return nil, fmt.Errorf("get-value pair: %s", txt)
		}
		v, err := valueOf(pair.list[1], which[i].Sort)
		if err != nil {
			return nil, fmt.Errorf("%v in %s", err, txt)
		}
		res[which[i]] = v
	}
	return res, nil
}

func (s *Session) refNoDefine(t *sym.Term) string {
	if n, ok := s.defined[t]; ok {
		return n
	}
	if t.Op == "var" {
		return t.Name
	}
	args := make([]string, len(t.Args))
	for i, a := range t.Args {
		if a.Const {
			args[i] = a.ConstSMT()
		} else {
			args[i] = s.refNoDefine(a)
		}
	}
	return t.Head(args)
}

type sexp struct {
	atom string
	list []*sexp
	isL  bool
}

func parseSexp(s string, i int) (*sexp, int, error) {
	for i < len(s) && (s[i] == ' ' || s[i] == '\n' || s[i] == '\t' || s[i] == '\r') {
		i++
	}
	if i >= len(s) {
		return nil, i, fmt.Errorf("eof")
	}
	if s[i] == '(' {
		i++
		x := &sexp{isL: true}
		for {
			for i < len(s) && (s[i] == ' ' || s[i] == '\n' || s[i] == '\t' || s[i] == '\r') {
				i++
			}
			if i >= len(s) {
				return nil, i, fmt.Errorf("eof in list")
			}
			if s[i] == ')' {
				return x, i + 1, nil
			}
			c, j, err := parseSexp(s, i)
			if err != nil {
				return nil, j, err
			}
			x.list = append(x.list, c)
			i = j
		}
	}
	if s[i] == '"' {
		j := i + 1
		var b strings.Builder
		for j < len(s) {
			if s[j] == '"' {
				if j+1 < len(s) && s[j+1] == '"' {
					b.WriteByte('"')
					j += 2
					continue
				}
				break
			}
			b.WriteByte(s[j])
			j++
		}
		return &sexp{atom: "\"" + b.String()}, j + 1, nil
	}
	j := i
	for j < len(s) && s[j] != ' ' && s[j] != '\n' && s[j] != ')' && s[j] != '(' && s[j] != '\t' && s[j] != '\r' {
		j++
	}
	return &sexp{atom: s[i:j]}, j, nil
}

func unescapeSMT(s string) string {
	var b strings.Builder
	for i := 0; i < len(s); i++ {
		if s[i] == '\\' && i+1 < len(s) && s[i+1] == 'u' {
			// \u{X..} or \uXXXX
			if i+2 < len(s) && s[i+2] == '{' {
				j := strings.IndexByte(s[i:], '}')
				if j > 0 {
					var v uint64
					fmt.Sscanf(s[i+3:i+j], "%x", &v)
					b.WriteByte(byte(v))
					i += j
					continue
				}
			} else if i+5 < len(s) {
				var v uint64
				if _, err := fmt.Sscanf(s[i+2:i+6], "%x", &v); err == nil {
					b.WriteByte(byte(v))
					i += 5
					continue
				}
			}
		}
		if s[i] == '\\' && i+1 < len(s) && s[i+1] == 'x' && i+3 < len(s) {
			var v uint64
			if _, err := fmt.Sscanf(s[i+2:i+4], "%x", &v); err == nil {
				b.WriteByte(byte(v))
				i += 3
				continue
			}
		}
		b.WriteByte(s[i])
	}
	return b.String()
}

func valueOf(x *sexp, so sym.Sort) (*sym.Term, error) {
	switch so.K {
	case sym.KBool:
		if x.atom == "true" {
			return sym.True(), nil
		}
		if x.atom == "false" {
			return sym.False(), nil
		}
	case sym.KBV:
		if strings.HasPrefix(x.atom, "#x") {
			var v uint64
			fmt.Sscanf(x.atom[2:], "%x", &v)
			return sym.BVConst(so.W, v), nil
		}
		if strings.HasPrefix(x.atom, "#b") {
			var v uint64
			for _, c := range x.atom[2:] {
				v = v<<1 | uint64(c-'0')
			}
			return sym.BVConst(so.W, v), nil
		}
		if x.isL && len(x.list) == 3 && x.list[0].atom == "_" && strings.HasPrefix(x.list[1].atom, "bv") {
			var v uint64
			fmt.Sscanf(x.list[1].atom[2:], "%d", &v)
			return sym.BVConst(so.W, v), nil
		}
	case sym.KStr:
		if strings.HasPrefix(x.atom, "\"") {
			return sym.Str(unescapeSMT(x.atom[1:])), nil
		}
	case sym.KF64:
		return sym.F64(0), nil
	}
	return nil, fmt.Errorf("cannot parse model value %+v for sort %v", x, so)
}
