package main

import (
	"encoding/json"
	"flag"
	"fmt"
	"os"
	"path/filepath"
	"time"

	"verif/engine/exec"
)

func main() {
	if len(os.Args) < 2 {
		fmt.Fprintln(os.Stderr, "usage: gosym run|check ...")
		os.Exit(2)
	}
	switch os.Args[1] {
	case "run":
		devRun(os.Args[2:])
	case "check":
		os.Exit(exec.CheckMain(os.Args[2:]))
	default:
		fmt.Fprintln(os.Stderr, "unknown command")
		os.Exit(2)
	}
}

func devRun(args []string) {
	fs := flag.NewFlagSet("run", flag.ExitOnError)
	repo := fs.String("repo", "/repo", "")
	pkg := fs.String("pkg", "", "import path")
	dir := fs.String("dir", "", "package dir relative to repo")
	harness := fs.String("harness", "", "harness dir")
	entry := fs.String("entry", "", "")
	unwind := fs.Int("unwind", 8, "")
	maporder := fs.Int("maporder", 0, "")
	workers := fs.Int("workers", 16, "")
	verbose := fs.Bool("v", false, "")
	fs.Parse(args)
	ov, err := exec.HarnessOverlay(*repo, *dir, *harness, true)
	if err != nil {
		fmt.Fprintln(os.Stderr, err)
		os.Exit(2)
	}
	pkgName := exec.PackageNameOf(ov)
	ov[filepath.Join(*repo, *dir, "zz_vrf_intrinsics.go")] = exec.SymIntrinsics(pkgName)
	eng, err := exec.Load(*repo, *pkg, ov)
	if err != nil {
		fmt.Fprintln(os.Stderr, err)
		os.Exit(2)
	}
	eng.Workers = *workers
	eng.Verbose = *verbose
	fmt.Fprintf(os.Stderr, "loaded in %v\n", eng.LoadTime)
	cfg := &exec.EntryCfg{Func: *entry, Unwind: *unwind, MapOrder: *maporder}
	res, err := eng.RunEntry(cfg, time.Now().Add(10*time.Minute))
	if err != nil {
		fmt.Fprintln(os.Stderr, err)
		os.Exit(2)
	}
	res.Funcs = nil
	b, _ := json.MarshalIndent(res, "", " ")
	fmt.Println(string(b))
}
