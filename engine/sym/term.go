// Package sym implements SMT terms with eager constant folding.
package sym

import (
	"fmt"
	"math"
	"math/bits"
	"strings"
	"sync/atomic"
)

type Kind int

const (
	KBool Kind = iota
	KBV
	KStr
	KF64
)

type Sort struct {
	K Kind
	W int
}

var (
	BoolSort = Sort{KBool, 0}
	StrSort  = Sort{KStr, 0}
	F64Sort  = Sort{KF64, 0}
)

func BV(w int) Sort { return Sort{KBV, w} }

func (s Sort) SMT() string {
	switch s.K {
	case KBool:
		return "Bool"
	case KBV:
		return fmt.Sprintf("(_ BitVec %d)", s.W)
	case KStr:
		return "String"
	case KF64:
		return "(_ FloatingPoint 11 53)"
	}
	panic("sort")
}

// Term is an immutable SMT term. Constant terms carry their value.
type Term struct {
	Sort  Sort
	Const bool
	U     uint64 // BV bits (masked) or bool
	S     string
	F     float64
	Op    string // "var", "uf", or SMT operator
	Args  []*Term
	P     []int  // indices for (_ op i j)
	Name  string // var / uf name
	ID    uint64
	size  int
}

var idCtr uint64

func nextID() uint64 { return atomic.AddUint64(&idCtr, 1) }

func mask(w int) uint64 {
	if w >= 64 {
		return ^uint64(0)
	}
	return (uint64(1) << uint(w)) - 1
}

var tTrue = &Term{Sort: BoolSort, Const: true, U: 1}
var tFalse = &Term{Sort: BoolSort, Const: true, U: 0}

func Bool(b bool) *Term {
	if b {
		return tTrue
	}
	return tFalse
}
func True() *Term  { return tTrue }
func False() *Term { return tFalse }

func BVConst(w int, u uint64) *Term { return &Term{Sort: BV(w), Const: true, U: u & mask(w)} }
func Int64(v int64) *Term           { return BVConst(64, uint64(v)) }
func Str(s string) *Term            { return &Term{Sort: StrSort, Const: true, S: s} }
func F64(f float64) *Term           { return &Term{Sort: F64Sort, Const: true, F: f} }

func Var(name string, s Sort) *Term {
	return &Term{Sort: s, Op: "var", Name: name, ID: nextID(), size: 1}
}

// UF applies an uninterpreted function.
func UF(name string, ret Sort, args ...*Term) *Term {
	return mk(ret, "uf", args, nil, name)
}

func mk(s Sort, op string, args []*Term, p []int, name string) *Term {
	sz := 1
	for _, a := range args {
		sz += a.size
	}
	return &Term{Sort: s, Op: op, Args: args, P: p, Name: name, ID: nextID(), size: sz}
}

func (t *Term) IsTrue() bool  { return t.Const && t.Sort.K == KBool && t.U == 1 }
func (t *Term) IsFalse() bool { return t.Const && t.Sort.K == KBool && t.U == 0 }

// Signed value of a constant BV.
func (t *Term) SInt() int64 {
	w := t.Sort.W
	if w >= 64 {
		return int64(t.U)
	}
	sh := uint(64 - w)
	return int64(t.U<<sh) >> sh
}

func sameTerm(a, b *Term) bool {
	if a == b {
		return true
	}
	if a.Const && b.Const && a.Sort == b.Sort {
		switch a.Sort.K {
		case KBool, KBV:
			return a.U == b.U
		case KStr:
			return a.S == b.S
		}
	}
	return false
}

func Not(a *Term) *Term {
	if a.Const {
		return Bool(a.U == 0)
	}
	if a.Op == "not" {
		return a.Args[0]
	}
	return mk(BoolSort, "not", []*Term{a}, nil, "")
}

func And(a, b *Term) *Term {
	if a.Const {
		if a.U == 0 {
			return tFalse
		}
		return b
	}
	if b.Const {
		if b.U == 0 {
			return tFalse
		}
		return a
	}
	if a == b {
		return a
	}
	return mk(BoolSort, "and", []*Term{a, b}, nil, "")
}

func Or(a, b *Term) *Term {
	if a.Const {
		if a.U == 1 {
			return tTrue
		}
		return b
	}
	if b.Const {
		if b.U == 1 {
			return tTrue
		}
		return a
	}
	if a == b {
		return a
	}
	return mk(BoolSort, "or", []*Term{a, b}, nil, "")
}

func AndN(ts ...*Term) *Term {
	r := tTrue
	for _, t := range ts {
		r = And(r, t)
	}
	return r
}

func OrN(ts ...*Term) *Term {
	r := tFalse
	for _, t := range ts {
		r = Or(r, t)
	}
	return r
}

func Implies(a, b *Term) *Term { return Or(Not(a), b) }

func Ite(c, a, b *Term) *Term {
	if c.Const {
		if c.U == 1 {
			return a
		}
		return b
	}
	if sameTerm(a, b) {
		return a
	}
	if a.Sort != b.Sort {
		panic(fmt.Sprintf("ite sort mismatch %v %v", a.Sort, b.Sort))
	}
	if a.Sort.K == KBool {
		if a.Const && b.Const {
			if a.U == 1 {
				return c
			}
			return Not(c)
		}
	}
	return mk(a.Sort, "ite", []*Term{c, a, b}, nil, "")
}

func Eq(a, b *Term) *Term {
	if a.Sort != b.Sort {
		panic(fmt.Sprintf("eq sort mismatch %v %v (%s, %s)", a.Sort, b.Sort, a, b))
	}
	if a == b && a.Sort.K != KF64 {
		return tTrue
	}
	if a.Const && b.Const {
		switch a.Sort.K {
		case KBool, KBV:
			return Bool(a.U == b.U)
		case KStr:
			return Bool(a.S == b.S)
		case KF64:
			return Bool(a.F == b.F)
		}
	}
	if a.Sort.K == KBool {
		if a.Const {
			if a.U == 1 {
				return b
			}
			return Not(b)
		}
		if b.Const {
			if b.U == 1 {
				return a
			}
			return Not(a)
		}
	}
	if a.Sort.K == KF64 {
		return mk(BoolSort, "fp.eq", []*Term{a, b}, nil, "")
	}
	// ite(c, k1, k2) == k  folding
	if b.Const && a.Op == "ite" && a.Args[1].Const && a.Args[2].Const {
		return Ite(a.Args[0], Eq(a.Args[1], b), Eq(a.Args[2], b))
	}
	if a.Const && b.Op == "ite" && b.Args[1].Const && b.Args[2].Const {
		return Ite(b.Args[0], Eq(b.Args[1], a), Eq(b.Args[2], a))
	}
	return mk(BoolSort, "=", []*Term{a, b}, nil, "")
}

// ---- bit-vector operations ----

func bvBin(op string, a, b *Term, f func(w int, x, y uint64) (uint64, bool)) *Term {
	if a.Sort != b.Sort || a.Sort.K != KBV {
		panic(fmt.Sprintf("%s sort mismatch %v %v", op, a.Sort, b.Sort))
	}
	if a.Const && b.Const {
		if r, ok := f(a.Sort.W, a.U, b.U); ok {
			return BVConst(a.Sort.W, r)
		}
	}
	return mk(a.Sort, op, []*Term{a, b}, nil, "")
}

func sx(w int, u uint64) int64 {
	if w >= 64 {
		return int64(u)
	}
	sh := uint(64 - w)
	return int64(u<<sh) >> sh
}

func Add(a, b *Term) *Term {
	if a.Const && a.U == 0 {
		return b
	}
	if b.Const && b.U == 0 {
		return a
	}
	return bvBin("bvadd", a, b, func(w int, x, y uint64) (uint64, bool) { return x + y, true })
}
func Sub(a, b *Term) *Term {
	if b.Const && b.U == 0 {
		return a
	}
	if a == b {
		return BVConst(a.Sort.W, 0)
	}
	return bvBin("bvsub", a, b, func(w int, x, y uint64) (uint64, bool) { return x - y, true })
}
func Mul(a, b *Term) *Term {
	if a.Const && a.U == 1 {
		return b
	}
	if b.Const && b.U == 1 {
		return a
	}
	if (a.Const && a.U == 0) || (b.Const && b.U == 0) {
		return BVConst(a.Sort.W, 0)
	}
	return bvBin("bvmul", a, b, func(w int, x, y uint64) (uint64, bool) { return x * y, true })
}

// Division by zero must be checked by the caller (Go panics).
func UDiv(a, b *Term) *Term {
	return bvBin("bvudiv", a, b, func(w int, x, y uint64) (uint64, bool) {
		if y == 0 {
			return 0, false
		}
		return x / y, true
	})
}
func URem(a, b *Term) *Term {
	return bvBin("bvurem", a, b, func(w int, x, y uint64) (uint64, bool) {
		if y == 0 {
			return 0, false
		}
		return x % y, true
	})
}
func SDiv(a, b *Term) *Term {
	return bvBin("bvsdiv", a, b, func(w int, x, y uint64) (uint64, bool) {
		if y == 0 {
			return 0, false
		}
		sxv, syv := sx(w, x), sx(w, y)
		if syv == -1 {
			return uint64(-sxv), true
		}
		return uint64(sxv / syv), true
	})
}
func SRem(a, b *Term) *Term {
	return bvBin("bvsrem", a, b, func(w int, x, y uint64) (uint64, bool) {
		if y == 0 {
			return 0, false
		}
		sxv, syv := sx(w, x), sx(w, y)
		if syv == -1 {
			return 0, true
		}
		return uint64(sxv % syv), true
	})
}
func BAnd(a, b *Term) *Term {
	if (a.Const && a.U == 0) || (b.Const && b.U == 0) {
		return BVConst(a.Sort.W, 0)
	}
	if a == b {
		return a
	}
	return bvBin("bvand", a, b, func(w int, x, y uint64) (uint64, bool) { return x & y, true })
}
func BOr(a, b *Term) *Term {
	if a.Const && a.U == 0 {
		return b
	}
	if b.Const && b.U == 0 {
		return a
	}
	if a == b {
		return a
	}
	return bvBin("bvor", a, b, func(w int, x, y uint64) (uint64, bool) { return x | y, true })
}
func BXor(a, b *Term) *Term {
	if a.Const && a.U == 0 {
		return b
	}
	if b.Const && b.U == 0 {
		return a
	}
	return bvBin("bvxor", a, b, func(w int, x, y uint64) (uint64, bool) { return x ^ y, true })
}
func BNot(a *Term) *Term {
	if a.Const {
		return BVConst(a.Sort.W, ^a.U)
	}
	return mk(a.Sort, "bvnot", []*Term{a}, nil, "")
}
func Neg(a *Term) *Term {
	if a.Const {
		return BVConst(a.Sort.W, -a.U)
	}
	return mk(a.Sort, "bvneg", []*Term{a}, nil, "")
}

// Shl etc: shift amount b must have the same width as a. SMT semantics
// (shift >= width gives 0 / sign fill) coincide with Go's.
func Shl(a, b *Term) *Term {
	return bvBin("bvshl", a, b, func(w int, x, y uint64) (uint64, bool) {
		if y >= uint64(w) {
			return 0, true
		}
		return x << y, true
	})
}
func LShr(a, b *Term) *Term {
	return bvBin("bvlshr", a, b, func(w int, x, y uint64) (uint64, bool) {
		if y >= uint64(w) {
			return 0, true
		}
		return x >> y, true
	})
}
func AShr(a, b *Term) *Term {
	return bvBin("bvashr", a, b, func(w int, x, y uint64) (uint64, bool) {
		s := sx(w, x)
		if y >= uint64(w) {
			if s < 0 {
				return ^uint64(0), true
			}
			return 0, true
		}
		return uint64(s >> y), true
	})
}

func bvCmp(op string, a, b *Term, f func(w int, x, y uint64) bool) *Term {
	if a.Sort != b.Sort || a.Sort.K != KBV {
		panic(fmt.Sprintf("%s sort mismatch %v %v", op, a.Sort, b.Sort))
	}
	if a.Const && b.Const {
		return Bool(f(a.Sort.W, a.U, b.U))
	}
	return mk(BoolSort, op, []*Term{a, b}, nil, "")
}

func ULt(a, b *Term) *Term {
	return bvCmp("bvult", a, b, func(w int, x, y uint64) bool { return x < y })
}
func ULe(a, b *Term) *Term {
	return bvCmp("bvule", a, b, func(w int, x, y uint64) bool { return x <= y })
}
func SLt(a, b *Term) *Term {
	return bvCmp("bvslt", a, b, func(w int, x, y uint64) bool { return sx(w, x) < sx(w, y) })
}
func SLe(a, b *Term) *Term {
	return bvCmp("bvsle", a, b, func(w int, x, y uint64) bool { return sx(w, x) <= sx(w, y) })
}

// Resize converts a BV to width w with sign or zero extension / truncation.
func Resize(a *Term, w int, signed bool) *Term {
	if a.Sort.K != KBV {
		panic("resize non-bv")
	}
	aw := a.Sort.W
	if aw == w {
		return a
	}
	if a.Const {
		if w < aw {
			return BVConst(w, a.U)
		}
		if signed {
			return BVConst(w, uint64(sx(aw, a.U)))
		}
		return BVConst(w, a.U)
	}
	if w < aw {
		return mk(BV(w), "extract", []*Term{a}, []int{w - 1, 0}, "")
	}
	if signed {
		return mk(BV(w), "sign_extend", []*Term{a}, []int{w - aw}, "")
	}
	return mk(BV(w), "zero_extend", []*Term{a}, []int{w - aw}, "")
}

func PopCount64(a *Term) *Term {
	if a.Const {
		return BVConst(64, uint64(bits.OnesCount64(a.U)))
	}
	panic("popcount symbolic")
}

// ---- strings ----

func Concat(a, b *Term) *Term {
	if a.Const && b.Const {
		return Str(a.S + b.S)
	}
	if a.Const && a.S == "" {
		return b
	}
	if b.Const && b.S == "" {
		return a
	}
	return mk(StrSort, "str.++", []*Term{a, b}, nil, "")
}

// StrLen returns the length as a 64-bit BV.
func StrLen(a *Term) *Term {
	if a.Const {
		return BVConst(64, uint64(len(a.S)))
	}
	return mk(BV(64), "strlen64", []*Term{a}, nil, "")
}

func StrLt(a, b *Term) *Term {
	if a.Const && b.Const {
		return Bool(a.S < b.S)
	}
	return mk(BoolSort, "str.<", []*Term{a, b}, nil, "")
}
func StrLe(a, b *Term) *Term {
	if a.Const && b.Const {
		return Bool(a.S <= b.S)
	}
	return mk(BoolSort, "str.<=", []*Term{a, b}, nil, "")
}
func StrPrefixOf(p, s *Term) *Term {
	if p.Const && s.Const {
		return Bool(strings.HasPrefix(s.S, p.S))
	}
	if p.Const && p.S == "" {
		return tTrue
	}
	return mk(BoolSort, "str.prefixof", []*Term{p, s}, nil, "")
}
func StrSuffixOf(p, s *Term) *Term {
	if p.Const && s.Const {
		return Bool(strings.HasSuffix(s.S, p.S))
	}
	if p.Const && p.S == "" {
		return tTrue
	}
	return mk(BoolSort, "str.suffixof", []*Term{p, s}, nil, "")
}
func StrContains(s, sub *Term) *Term {
	if sub.Const && s.Const {
		return Bool(strings.Contains(s.S, sub.S))
	}
	return mk(BoolSort, "str.contains", []*Term{s, sub}, nil, "")
}

// StrSubstr(s, off, n) with 64-bit BV off,n.
func StrSubstr(s, off, n *Term) *Term {
	if s.Const && off.Const && n.Const {
		o, l := int(off.U), int(n.U)
		if o >= 0 && l >= 0 && o+l <= len(s.S) {
			return Str(s.S[o : o+l])
		}
	}
	return mk(StrSort, "substr64", []*Term{s, off, n}, nil, "")
}

// ---- floats (comparisons and constants only) ----

func FCmp(op string, a, b *Term) *Term {
	if a.Const && b.Const {
		switch op {
		case "fp.lt":
			return Bool(a.F < b.F)
		case "fp.leq":
			return Bool(a.F <= b.F)
		case "fp.gt":
			return Bool(a.F > b.F)
		case "fp.geq":
			return Bool(a.F >= b.F)
		}
	}
	return mk(BoolSort, op, []*Term{a, b}, nil, "")
}

func FArith(op string, a, b *Term) *Term {
	if a.Const && b.Const {
		switch op {
		case "fp.add":
			return F64(a.F + b.F)
		case "fp.sub":
			return F64(a.F - b.F)
		case "fp.mul":
			return F64(a.F * b.F)
		case "fp.div":
			return F64(a.F / b.F)
		}
	}
	return mk(F64Sort, op, []*Term{a, b}, nil, "")
}

func FNeg(a *Term) *Term {
	if a.Const {
		return F64(-a.F)
	}
	return mk(F64Sort, "fp.neg", []*Term{a}, nil, "")
}

// IntToF converts a BV to float64.
func IntToF(a *Term, signed bool) *Term {
	if a.Const {
		if signed {
			return F64(float64(a.SInt()))
		}
		return F64(float64(a.U))
	}
	if signed {
		return mk(F64Sort, "to_fp_s", []*Term{a}, nil, "")
	}
	return mk(F64Sort, "to_fp_u", []*Term{a}, nil, "")
}

// FToInt converts float64 to BV w (truncation toward zero).
func FToInt(a *Term, w int, signed bool) *Term {
	if a.Const {
		if signed {
			return BVConst(w, uint64(int64(a.F)))
		}
		return BVConst(w, uint64(a.F))
	}
	if signed {
		return mk(BV(w), "fp.to_sbv", []*Term{a}, []int{w}, "")
	}
	return mk(BV(w), "fp.to_ubv", []*Term{a}, []int{w}, "")
}

// ---- printing ----

func strLit(s string) string {
	var b strings.Builder
	b.WriteByte('"')
	for i := 0; i < len(s); i++ {
		c := s[i]
		switch {
		case c == '"':
			b.WriteString(`""`)
		case c == '\\':
			b.WriteString(`\u{5c}`)
		case c >= 0x20 && c < 0x7f:
			b.WriteByte(c)
		default:
			fmt.Fprintf(&b, `\u{%x}`, c)
		}
	}
	b.WriteByte('"')
	return b.String()
}

func (t *Term) constSMT() string {
	switch t.Sort.K {
	case KBool:
		if t.U == 1 {
			return "true"
		}
		return "false"
	case KBV:
		return fmt.Sprintf("(_ bv%d %d)", t.U, t.Sort.W)
	case KStr:
		return strLit(t.S)
	case KF64:
		b := math.Float64bits(t.F)
		return fmt.Sprintf("(fp #b%01b #b%011b #b%052b)", b>>63, (b>>52)&0x7ff, b&((1<<52)-1))
	}
	panic("const")
}

// Head renders the operator application with already-rendered args.
func (t *Term) Head(args []string) string {
	switch t.Op {
	case "var":
		return t.Name
	case "uf":
		if len(args) == 0 {
			return t.Name
		}
		return "(" + t.Name + " " + strings.Join(args, " ") + ")"
	case "extract":
		return fmt.Sprintf("((_ extract %d %d) %s)", t.P[0], t.P[1], args[0])
	case "sign_extend", "zero_extend":
		return fmt.Sprintf("((_ %s %d) %s)", t.Op, t.P[0], args[0])
	case "strlen64":
		return fmt.Sprintf("((_ int2bv 64) (str.len %s))", args[0])
	case "substr64":
		return fmt.Sprintf("(str.substr %s (bv2nat %s) (bv2nat %s))", args[0], args[1], args[2])
	case "to_fp_s":
		return fmt.Sprintf("((_ to_fp 11 53) RNE %s)", args[0])
	case "to_fp_u":
		return fmt.Sprintf("((_ to_fp_unsigned 11 53) RNE %s)", args[0])
	case "fp.to_sbv", "fp.to_ubv":
		return fmt.Sprintf("((_ %s %d) RTZ %s)", t.Op, t.P[0], args[0])
	case "fp.add", "fp.sub", "fp.mul", "fp.div":
		return fmt.Sprintf("(%s RNE %s)", t.Op, strings.Join(args, " "))
	}
	return "(" + t.Op + " " + strings.Join(args, " ") + ")"
}

// String renders the term as a tree (for diagnostics; may be large).
func (t *Term) String() string {
	if t.Const {
		return t.constSMT()
	}
	if t.size > 200 {
		return fmt.Sprintf("<term#%d size=%d>", t.ID, t.size)
	}
	args := make([]string, len(t.Args))
	for i, a := range t.Args {
		args[i] = a.String()
	}
	return t.Head(args)
}

func (t *Term) ConstSMT() string { return t.constSMT() }
func (t *Term) Size() int        { return t.size }
