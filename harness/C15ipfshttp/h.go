package ipfshttp

import (
	"time"

	ma "github.com/multiformats/go-multiaddr"
)

var vrfEntries = map[string]func(){"VrfC15Ipfshttp": VrfC15Ipfshttp}

func VrfC15Ipfshttp() {
	d := &Config{}
	d.Default()
	vrf_assert(d.Validate() == nil, "C15.ipfshttp.default-valid")
	addr, _ := ma.NewMultiaddr([]string{"/ip4/127.0.0.1/tcp/5001", "/dns4/ipfs.example.org/tcp/5001"}[vrf_choice("node_addr", 2)])
	cfg := &Config{NodeAddr: addr,
		ConnectSwarmsDelay: time.Duration(vrf_nondet_int64("connect_swarms_delay")),
		IPFSRequestTimeout: time.Duration(vrf_nondet_int64("ipfs_request_timeout")),
		PinTimeout:         time.Duration(vrf_nondet_int64("pin_timeout")),
		UnpinTimeout:       time.Duration(vrf_nondet_int64("unpin_timeout")),
		RepoGCTimeout:      time.Duration(vrf_nondet_int64("repogc_timeout")),
		UnpinDisable:       vrf_nondet_bool("unpin_disable")}
	valid := cfg.Validate() == nil
	raw, err := cfg.ToJSON()
	vrf_assert(err == nil, "C15.ipfshttp.save-ok")
	back := &Config{}
	lerr := back.LoadJSON(raw)
	if valid {
		vrf_assert(lerr == nil, "C15.ipfshttp.valid-loads")
		vrf_assert(back.NodeAddr != nil && back.NodeAddr.Equal(cfg.NodeAddr), "C15.ipfshttp.roundtrip")
		vrf_assert(vrf_and(back.ConnectSwarmsDelay == cfg.ConnectSwarmsDelay, vrf_and(back.IPFSRequestTimeout == cfg.IPFSRequestTimeout,
			vrf_and(back.PinTimeout == cfg.PinTimeout, vrf_and(back.UnpinTimeout == cfg.UnpinTimeout, back.RepoGCTimeout == cfg.RepoGCTimeout)))), "C15.ipfshttp.roundtrip")
		vrf_assert(back.UnpinDisable == cfg.UnpinDisable, "C15.ipfshttp.roundtrip")
	} else {
		vrf_assert(lerr != nil, "C15.ipfshttp.invalid-rejected")
	}
	if lerr == nil {
		vrf_assert(back.Validate() == nil, "C15.ipfshttp.loaded-implies-valid")
	}
	vrf_reach("C15.ipfshttp.end")
}
