package ipfshttp

import (
	"time"

	ma "github.com/multiformats/go-multiaddr"
)

var vrfEntries = map[string]func(){"VrfC15Ipfshttp": VrfC15Ipfshttp, "VrfC15IpfshttpEnv": VrfC15IpfshttpEnv}

// VrfC15IpfshttpEnv: settings supplied through environment variables. From an
// arbitrary valid loaded configuration, any subset of the section's variables
// is set to arbitrary well-formed values: when ApplyEnvVars accepts them, every
// supplied value is in effect, every other
// setting is unchanged and the result is valid; when a supplied value makes the
// configuration invalid, it is refused.
func VrfC15IpfshttpEnv() {
	addr, _ := ma.NewMultiaddr("/ip4/127.0.0.1/tcp/5001")
	cfg := &Config{NodeAddr: addr,
		ConnectSwarmsDelay: time.Duration(vrf_nondet_int64("connect_swarms_delay")),
		IPFSRequestTimeout: time.Duration(vrf_nondet_int64("ipfs_request_timeout")),
		PinTimeout:         time.Duration(vrf_nondet_int64("pin_timeout")),
		UnpinTimeout:       time.Duration(vrf_nondet_int64("unpin_timeout")),
		RepoGCTimeout:      time.Duration(vrf_nondet_int64("repogc_timeout")),
		UnpinDisable:       vrf_nondet_bool("unpin_disable")}
	vrf_assume(cfg.Validate() == nil)
	before := *cfg

	durs := []struct {
		field string
		dst   *time.Duration
		old   time.Duration
	}{
		{"ConnectSwarmsDelay", &cfg.ConnectSwarmsDelay, before.ConnectSwarmsDelay},
		{"IPFSRequestTimeout", &cfg.IPFSRequestTimeout, before.IPFSRequestTimeout},
		{"PinTimeout", &cfg.PinTimeout, before.PinTimeout},
		{"UnpinTimeout", &cfg.UnpinTimeout, before.UnpinTimeout},
		{"RepoGCTimeout", &cfg.RepoGCTimeout, before.RepoGCTimeout},
	}
	sets := make([]bool, len(durs))
	vals := make([]time.Duration, len(durs))
	for i, d := range durs {
		sets[i] = vrf_nondet_bool("env_set_" + d.field)
		vals[i] = time.Duration(vrf_nondet_int64("env_" + d.field))
		vrf_env(envConfigKey, d.field, sets[i], vals[i].String())
	}
	setUD := vrf_nondet_bool("env_set_UnpinDisable")
	valUD := vrf_nondet_bool("env_UnpinDisable")
	vrf_env(envConfigKey, "UnpinDisable", setUD, vrf_ite_str(valUD, "true", "false"))

	err := cfg.ApplyEnvVars()

	// what the configuration must be if the variables are honoured
	want := before
	wd := []*time.Duration{&want.ConnectSwarmsDelay, &want.IPFSRequestTimeout, &want.PinTimeout, &want.UnpinTimeout, &want.RepoGCTimeout}
	for i := range durs {
		// (durations travel as text here: "0s" is a value, only an empty text keeps what is there)
		*wd[i] = time.Duration(vrf_ite_int(sets[i], int(vals[i]), int(*wd[i])))
	}
	want.UnpinDisable = vrf_or(vrf_and(setUD, valUD), vrf_and(!setUD, before.UnpinDisable))
	wantValid := want.Validate() == nil
	if err == nil {
		for i, d := range durs {
			vrf_assert(*d.dst == *wd[i], "C15.ipfshttp.env-in-effect")
		}
		vrf_assert(cfg.UnpinDisable == want.UnpinDisable, "C15.ipfshttp.env-in-effect")
		vrf_assert(cfg.NodeAddr != nil && cfg.NodeAddr.Equal(before.NodeAddr), "C15.ipfshttp.env-others-unchanged")
		vrf_assert(cfg.Validate() == nil, "C15.ipfshttp.env-accepted-implies-valid")
	} else {
		vrf_assert(!wantValid, "C15.ipfshttp.env-valid-accepted")
	}
	vrf_reach("C15.ipfshttp.env-end")
}

func VrfC15Ipfshttp() {
	d := &Config{}
	d.Default()
	vrf_assert(d.Validate() == nil, "C15.ipfshttp.default-valid")
	addr, _ := ma.NewMultiaddr([]string{"/ip4/127.0.0.1/tcp/5001", "/dns4/ipfs.example.org/tcp/5001"}[vrf_choice("node_addr", 2)])
	cfg := &Config{NodeAddr: addr,
		ConnectSwarmsDelay: time.Duration(vrf_nondet_int64("connect_swarms_delay")),
		IPFSRequestTimeout: time.Duration(vrf_nondet_int64("ipfs_request_timeout")),
		PinTimeout:         time.Duration(vrf_nondet_int64("pin_timeout")),
		UnpinTimeout:       time.Duration(vrf_nondet_int64("unpin_timeout")),
		RepoGCTimeout:      time.Duration(vrf_nondet_int64("repogc_timeout")),
		UnpinDisable:       vrf_nondet_bool("unpin_disable")}
	valid := cfg.Validate() == nil
	raw, err := cfg.ToJSON()
	vrf_assert(err == nil, "C15.ipfshttp.save-ok")
	back := &Config{}
	lerr := back.LoadJSON(raw)
	if valid {
		vrf_assert(lerr == nil, "C15.ipfshttp.valid-loads")
		vrf_assert(back.NodeAddr != nil && back.NodeAddr.Equal(cfg.NodeAddr), "C15.ipfshttp.roundtrip")
		vrf_assert(vrf_and(back.ConnectSwarmsDelay == cfg.ConnectSwarmsDelay, vrf_and(back.IPFSRequestTimeout == cfg.IPFSRequestTimeout,
			vrf_and(back.PinTimeout == cfg.PinTimeout, vrf_and(back.UnpinTimeout == cfg.UnpinTimeout, back.RepoGCTimeout == cfg.RepoGCTimeout)))), "C15.ipfshttp.roundtrip")
		vrf_assert(back.UnpinDisable == cfg.UnpinDisable, "C15.ipfshttp.roundtrip")
	} else {
		vrf_assert(lerr != nil, "C15.ipfshttp.invalid-rejected")
	}
	if lerr == nil {
		vrf_assert(back.Validate() == nil, "C15.ipfshttp.loaded-implies-valid")
	}
	vrf_reach("C15.ipfshttp.end")
}
