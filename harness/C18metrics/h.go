package metrics

import (
	"context"

	"github.com/ipfs/ipfs-cluster/api"

	peer "github.com/libp2p/go-libp2p-core/peer"
)

var vrfEntries = map[string]func(){"VrfC18Metrics": VrfC18Metrics}

var vrfP = []peer.ID{"pA", "pB"}

func vrfMetric(p int, valid bool) *api.Metric {
	return &api.Metric{Name: "ping", Peer: vrfP[p], Valid: valid, Expire: 1 << 62, Value: "1"}
}

// VrfC18Metrics: the metrics store, its windows and the checker's failed-peer
// table are only touched under their mutexes.
func VrfC18Metrics() {
	DefaultWindowCap = 2
	AlertChannelCap = 1 // so that the "alert channel full" path is reached by the second alert
	st := NewStore()
	mc := NewChecker(context.Background(), st, 3.0)
	n := vrf_choice("metrics_before", 3)
	for i := 0; i < n; i++ {
		st.Add(vrfMetric(0, true))
	}
	vrf_protect(&st.byName, &st.mux, "C18.store")
	var w *Window
	if n > 0 {
		w = st.byName["ping"][vrfP[0]]
		vrf_protect(&w.window, &w.wMu, "C18.window")
	}
	vrf_protect(&mc.failedPeers, &mc.failedPeersMu, "C18.checker")
	vrf_interference(&st.mux, func() {
		switch vrf_choice("other_goroutine", 3) {
		case 1: // RemovePeer by another caller
			for _, byPeer := range st.byName {
				delete(byPeer, vrfP[0])
			}
		case 2: // a metric of another peer arrives
			mbyp, ok := st.byName["ping"]
			if !ok {
				mbyp = make(PeerMetrics)
				st.byName["ping"] = mbyp
			}
			nw := NewWindow(DefaultWindowCap)
			nw.window.Value = vrfMetric(1, true)
			nw.window = nw.window.Next()
			mbyp[vrfP[1]] = nw
		}
	})
	switch vrf_choice("call", 12) {
	case 11:
		st.Distribution("ping", vrfP[0])
	case 0:
		st.Add(vrfMetric(vrf_choice("peer", 2), vrf_nondet_bool("valid")))
	case 1:
		st.RemovePeer(vrfP[0])
	case 2:
		st.RemovePeerMetrics(vrfP[0], "ping")
	case 3:
		for _, m := range st.LatestValid("ping") {
			vrf_assert(m != nil && m.Valid, "C18.store.latest-wellformed")
		}
	case 4:
		for _, m := range st.AllMetrics() {
			vrf_assert(m != nil, "C18.store.all-wellformed")
		}
	case 5:
		st.PeerMetrics(vrfP[0])
	case 6:
		for _, m := range st.PeerMetricAll("ping", vrfP[0]) {
			vrf_assert(m != nil, "C18.store.peermetricall-wellformed")
		}
	case 7:
		st.PeerLatest("ping", vrfP[0])
	case 8:
		st.MetricNames()
	case 9:
		if w != nil {
			switch vrf_choice("window_call", 3) {
			case 0:
				w.Add(vrfMetric(0, true))
			case 1:
				w.Latest()
			case 2:
				for _, m := range w.All() {
					vrf_assert(m != nil, "C18.window.all-wellformed")
				}
			}
		}
	case 10:
		mc.alert(vrfP[0], "ping")
		mc.alert(vrfP[1], "ping") // nobody reads the alerts: the channel is full now
		mc.alert(vrfP[0], "ping")
	}
	vrf_assert(vrf_locks_held() == 0, "C18.metrics.locks-released")
	vrf_reach("C18.metrics.end")
}
