package config

import (
	"encoding/base64"
	"errors"

	crypto "github.com/libp2p/go-libp2p-core/crypto"
	pb "github.com/libp2p/go-libp2p-core/crypto/pb"
	peer "github.com/libp2p/go-libp2p-core/peer"
)

// (engine only) libp2p key handling is abstract: a private key is one of the
// two known keys, parsing recognises exactly their stored bytes, and the peer
// ID derived from a key is the one it was generated with. Natively the same
// strings go through the real libp2p crypto.
type vrfKey struct{ n int }

func (k *vrfKey) Bytes() ([]byte, error) {
	b, _ := base64.StdEncoding.DecodeString(vrfKeys[k.n])
	return b, nil
}
func (k *vrfKey) Equals(o crypto.Key) bool {
	ok, is := o.(*vrfKey)
	return is && ok.n == k.n
}
func (k *vrfKey) Raw() ([]byte, error)         { return k.Bytes() }
func (k *vrfKey) Type() pb.KeyType             { return pb.KeyType_Ed25519 }
func (k *vrfKey) Sign([]byte) ([]byte, error)  { return nil, nil }
func (k *vrfKey) GetPublic() crypto.PubKey     { return nil }

func vrfUnmarshalKey(b []byte) (crypto.PrivKey, error) {
	s := base64.StdEncoding.EncodeToString(b)
	for i, t := range vrfKeys {
		if t == s {
			return &vrfKey{i}, nil
		}
	}
	return nil, errors.New("crypto: not a private key")
}

func vrfMatches(id peer.ID, k crypto.PrivKey) bool {
	vk, ok := k.(*vrfKey)
	return ok && id.Pretty() == vrfIDs[vk.n]
}

func vrfIdent(i int) *Identity {
	pid, err := peer.Decode(vrfIDs[i])
	if err != nil {
		panic(err)
	}
	return &Identity{ID: pid, PrivateKey: &vrfKey{i}}
}
