package config

var vrfEntries = map[string]func(){
	"VrfC15Identity":    VrfC15Identity,
	"VrfC15IdentityEnv": VrfC15IdentityEnv,
	"VrfC15Manager":     VrfC15Manager,
	"VrfC15ManagerDoc":  VrfC15ManagerDoc,
}

// two real identities (ed25519): peer ID and the stored form of the private key
var vrfIDs = []string{
	"12D3KooWRzDEeJoq4QB6UCt4tUAnbtqJBYuHq9vf4WHRxB2iVGiM",
	"12D3KooWPPpP8yS85SbWvmUtNCnE1sLaZGtQe9PjbfdxNG6ZjRKR",
}
var vrfKeys = []string{
	"CAESQJSvuru8hiOpskb0XtsVi5KTKIrtLj76ooSKAGYKHqD88ECy15WP0o2fTX8GckB1wzfj1Jq98tH0pUp2KdbDfAo=",
	"CAESQO5/mi4yrt3fX7prV3DfVJIGI2Xuu2m9NU37pQS/qmH6ybm8lTyoY2BzrnPYmoYEf0P6Jy19YrzeswybTqe5eXw=",
}

// what an "id" / "private_key" field can hold: 0, 1 = the two identities, the
// rest is undecodable in one way or another
var vrfIDTexts = []string{vrfIDs[0], vrfIDs[1], "notapeer", ""}
var vrfKeyTexts = []string{vrfKeys[0], vrfKeys[1], "!!not-base64!!", "Z2FyYmFnZQ==", ""}

// VrfC15Identity: the identity file. A well-formed identity is valid and is
// loaded back equal from what was saved; an arbitrary document is accepted iff
// its ID decodes, its key parses and the ID is the one derived from the key.
func VrfC15Identity() {
	k := vrf_choice("identity", 2)
	ident := vrfIdent(k)
	vrf_assert(ident.Validate() == nil, "C15.identity.wellformed-valid")
	raw, err := ident.ToJSON()
	vrf_assert(err == nil, "C15.identity.save-ok")
	back := &Identity{}
	lerr := back.LoadJSON(raw)
	vrf_assert(lerr == nil, "C15.identity.valid-loads")
	if lerr == nil {
		vrf_assert(back.Equals(ident) && ident.Equals(back), "C15.identity.roundtrip")
	}

	idT := vrf_choice("doc_id", len(vrfIDTexts))
	keyT := vrf_choice("doc_key", len(vrfKeyTexts))
	doc := []byte(`{"id":"` + vrfIDTexts[idT] + `","private_key":"` + vrfKeyTexts[keyT] + `"}`)
	got := &Identity{}
	derr := got.LoadJSON(doc)
	consistent := idT < 2 && keyT < 2 && idT == keyT
	if consistent {
		vrf_assert(derr == nil, "C15.identity.valid-loads")
		if derr == nil {
			vrf_assert(got.Equals(vrfIdent(idT)), "C15.identity.loaded-in-effect")
		}
	} else {
		vrf_assert(derr != nil, "C15.identity.invalid-rejected")
	}
	if derr == nil {
		vrf_assert(got.Validate() == nil, "C15.identity.loaded-implies-valid")
	}
	vrf_reach("C15.identity.end")
}

// VrfC15IdentityEnv: CLUSTER_ID / CLUSTER_PRIVATEKEY over a valid identity:
// accepted => the supplied values are in effect, the identity is valid and
// what is saved loads again; refused => the resulting pair would not have been
// a valid identity.
func VrfC15IdentityEnv() {
	k := vrf_choice("identity", 2)
	ident := vrfIdent(k)
	setI, idT := vrf_choice("env_set_ID", 2) == 1, vrf_choice("env_ID", len(vrfIDTexts))
	setK, keyT := vrf_choice("env_set_PrivateKey", 2) == 1, vrf_choice("env_PrivateKey", len(vrfKeyTexts))
	vrf_env("cluster", "ID", setI, vrfIDTexts[idT])
	vrf_env("cluster", "PrivateKey", setK, vrfKeyTexts[keyT])
	err := ident.ApplyEnvVars()
	effID, effKey := k, k
	if setI {
		effID = idT
	}
	if setK {
		effKey = keyT
	}
	consistent := effID < 2 && effKey < 2 && effID == effKey
	if err == nil {
		vrf_assert(consistent, "C15.identity.env-accepted-implies-valid")
		vrf_assert(ident.Validate() == nil, "C15.identity.env-accepted-implies-valid")
		if consistent {
			vrf_assert(ident.Equals(vrfIdent(effID)), "C15.identity.env-in-effect")
		}
		raw, serr := ident.ToJSON()
		back := &Identity{}
		vrf_assert(serr == nil && back.LoadJSON(raw) == nil, "C15.identity.env-saved-loads")
	} else {
		vrf_assert(!consistent, "C15.identity.env-valid-accepted")
	}
	vrf_reach("C15.identity.env-end")
}
