package config

import (
	"encoding/base64"

	crypto "github.com/libp2p/go-libp2p-core/crypto"
	peer "github.com/libp2p/go-libp2p-core/peer"
)

func vrfIdent(i int) *Identity {
	pid, err := peer.Decode(vrfIDs[i])
	if err != nil {
		panic(err)
	}
	b, err := base64.StdEncoding.DecodeString(vrfKeys[i])
	if err != nil {
		panic(err)
	}
	k, err := crypto.UnmarshalPrivateKey(b)
	if err != nil {
		panic(err)
	}
	return &Identity{ID: pid, PrivateKey: k}
}
