package ipfscluster

import (
	"context"
	"time"

	"github.com/ipfs/ipfs-cluster/api"
	"github.com/ipfs/ipfs-cluster/pstoremgr"

	cid "github.com/ipfs/go-cid"
	ds "github.com/ipfs/go-datastore"
	host "github.com/libp2p/go-libp2p-core/host"
	peer "github.com/libp2p/go-libp2p-core/peer"
	peerstore "github.com/libp2p/go-libp2p-core/peerstore"
	rpc "github.com/libp2p/go-libp2p-gorpc"
)

var vrfEntries = map[string]func(){
	"VrfC17PeerRemove": VrfC17PeerRemove,
	"VrfC17RemoveManyPins": VrfC17RemoveManyPins,
	"VrfC17Removed":    VrfC17Removed,
}

// VrfC17PeerRemove: the pins of a removed peer are re-homed before it leaves the peerset.
func VrfC17PeerRemove() {
	n := vrf_param("peers")
	now := vrf_now()
	failed := vrfPeerNames[n-1]
	cons := &vrfConsensus{}
	base := vrfSymbolicMonitor(n, "freespace")
	c := vrfNewCluster(n, cons, base)
	c.id = peer.ID("self")
	cons.peers = append([]peer.ID{c.id}, vrfPeerNames[:n]...)
	c.config.DisableRepinning = vrf_nondet_bool("repinning_disabled")
	cons.rmFails = vrf_nondet_bool("rmpeer_fails")
	stored := vrfExistingPin(vrfCid(0), now, n)
	vrf_assume(stored.Type == api.DataType)
	cons.pins = append(cons.pins, vrfCopyPin(stored))
	err := c.PeerRemove(c.ctx, failed)
	rm := 0
	seenRm := false
	for _, e := range cons.events {
		if e == "rmpeer" {
			rm++
			seenRm = true
		}
		if e == "pin" {
			vrf_assert(!seenRm, "C17.remove.repin-first")
			vrf_assert(!c.config.DisableRepinning, "C17.remove.repin-only-when-enabled")
		}
		vrf_assert(e != "unpin", "C17.remove.never-unpins")
	}
	vrf_assert(rm == 1, "C17.remove.one-consensus-removal")
	vrf_assert((err == nil) == !cons.rmFails, "C17.remove.ack-implies-removed")
	vrf_reach("C17.remove.end")
}

// VrfC17RemoveManyPins: the removed peer holds several pins and one of them
// cannot be re-homed (its expiry has passed): the others are re-homed all the
// same, whatever the order in which the state lists them, before the removal.
func VrfC17RemoveManyPins() {
	n := 2
	now := vrf_now()
	failed := vrfPeerNames[n-1]
	cons := &vrfConsensus{}
	base := vrfSymbolicMonitor(n, "freespace")
	vrf_assume(vrf_and(base.states[0].healthy, base.states[0].numeric)) // a healthy survivor to re-home to
	c := vrfNewCluster(n, cons, base)
	c.id = peer.ID("self")
	cons.peers = append([]peer.ID{c.id}, vrfPeerNames[:n]...)
	vrf_assume(!c.config.FollowerMode)
	stuck := api.PinCid(vrfCid(0)) // cannot be re-pinned: expired
	stuck.ReplicationFactorMin, stuck.ReplicationFactorMax = 1, 1
	stuck.Allocations = []peer.ID{failed}
	stuck.ExpireAt = time.Unix(0, now-3600*vrfSecond)
	movable := api.PinCid(vrfCid(1))
	movable.ReplicationFactorMin, movable.ReplicationFactorMax = 1, 1
	movable.Allocations = []peer.ID{failed}
	if vrf_choice("stuck_pin_listed_first", 2) == 1 {
		cons.pins = append(cons.pins, stuck, movable)
	} else {
		cons.pins = append(cons.pins, movable, stuck)
	}
	err := c.PeerRemove(c.ctx, failed)
	vrf_assert(err == nil, "C17.remove-many.removed")
	rehomed := 0
	for _, e := range cons.log {
		vrf_assert(!e.unpin, "C17.remove-many.never-unpins")
		if e.pin.Cid.Equals(vrfCid(1)) {
			rehomed++
			vrf_assert(len(e.pin.Allocations) == 1 && e.pin.Allocations[0] == vrfPeerNames[0], "C17.remove-many.rehomed-to-the-survivor")
		}
	}
	vrf_assert(rehomed == 1, "C17.remove-many.every-movable-pin-rehomed")
	vrf_reach("C17.remove-many.end")
}

// ---- the remaining components Shutdown touches

type vrfTracker struct{ stopped bool }

func (t *vrfTracker) SetClient(*rpc.Client)                                      {}
func (t *vrfTracker) Shutdown(context.Context) error                             { t.stopped = true; return nil }
func (t *vrfTracker) Track(context.Context, *api.Pin) error                      { return nil }
func (t *vrfTracker) Untrack(context.Context, cid.Cid) error                     { return nil }
func (t *vrfTracker) StatusAll(context.Context, api.TrackerStatus) []*api.PinInfo { return nil }
func (t *vrfTracker) Status(context.Context, cid.Cid) *api.PinInfo               { return nil }
func (t *vrfTracker) RecoverAll(context.Context) ([]*api.PinInfo, error)         { return nil, nil }
func (t *vrfTracker) Recover(context.Context, cid.Cid) (*api.PinInfo, error)     { return nil, nil }

type vrfTracer struct{}

func (vrfTracer) SetClient(*rpc.Client)          {}
func (vrfTracer) Shutdown(context.Context) error { return nil }

type vrfAllocatorStop struct{ PinAllocator }

type vrfPeerstore struct{ peerstore.Peerstore }

func (vrfPeerstore) Peers() peer.IDSlice { return nil }

type vrfHostC struct {
	host.Host
	closed bool
}

func (h *vrfHostC) Peerstore() peerstore.Peerstore { return vrfPeerstore{} }
func (h *vrfHostC) Close() error                   { h.closed = true; return nil }
func (h *vrfHostC) ID() peer.ID                    { return peer.ID("self") }

type vrfDatastore struct{ ds.Datastore }

func (vrfDatastore) Close() error { return nil }

// VrfC17Removed: a peer that no longer finds itself in the peerset marks itself
// removed and shuts down; consensus data is discarded iff it was removed and ready.
func VrfC17Removed() {
	cons := &vrfConsensus{}
	base := vrfSymbolicMonitor(1, "freespace")
	c := vrfNewCluster(1, cons, base)
	c.id = peer.ID("self")
	ctx, cancel := contextWithCancel()
	c.ctx, c.cancel = ctx, cancel
	c.config.PeerWatchInterval = time.Second
	c.config.LeaveOnShutdown = vrf_nondet_bool("leave_on_shutdown")
	c.readyB = vrf_nondet_bool("ready")
	c.doneCh = make(chan struct{})
	c.tracker = &vrfTracker{}
	c.tracer = vrfTracer{}
	h := &vrfHostC{}
	c.host = h
	c.peerManager = pstoremgr.New(ctx, nil, "")
	c.datastore = vrfDatastore{}
	// the peerset this peer sees at each poll: with or without itself, of the
	// same or of another size than at the previous poll, or unknown
	sets := [][]peer.ID{{vrfPeerNames[0], c.id}, {vrfPeerNames[0]}, {vrfPeerNames[0], vrfPeerNames[1]}, {vrfPeerNames[0], vrfPeerNames[1], c.id}}
	cons.peers = sets[0]
	go c.watchPeers()
	vrf_yield()
	evicted := false
	for r := 0; r < vrf_param("polls") && !evicted; r++ {
		k := vrf_choice("peerset_at_poll", len(sets)+1)
		if k == len(sets) {
			cons.peersErr = true
		} else {
			cons.peersErr = false
			cons.peers = sets[k]
			evicted = k == 1 || k == 2
		}
		vrf_advance_time(1100) // one watch interval
		vrf_yield()
	}
	stopped := false
	select {
	case <-c.doneCh:
		stopped = true
	default:
	}
	vrf_assert(stopped == evicted, "C17.removed.stops-iff-evicted")
	cleaned := false
	for _, e := range cons.events {
		if e == "clean" {
			cleaned = true
		}
	}
	vrf_assert(cleaned == (evicted && c.readyB), "C17.removed.cleans")
	if evicted {
		vrf_assert(c.removed, "C17.removed.marked")
		// a peer that was removed by others does not try to remove itself again
		rm := 0
		for _, e := range cons.events {
			if e == "rmpeer" {
				rm++
			}
		}
		vrf_assert(rm == 0, "C17.removed.no-self-removal")
	} else {
		cancel()
		vrf_yield()
	}
	vrf_reach("C17.removed.end")
}
