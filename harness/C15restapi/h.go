package rest

import (
	"strconv"
	"time"

	ma "github.com/multiformats/go-multiaddr"
)

var vrfC15Addrs = []string{"/ip4/127.0.0.1/tcp/9094", "/ip6/::1/tcp/9094"}

func vrfC15Addr(i int) ma.Multiaddr { a, _ := ma.NewMultiaddr(vrfC15Addrs[i]); return a }

func vrfC15Config() *Config {
	cfg := &Config{}
	cfg.HTTPListenAddr = []ma.Multiaddr{vrfC15Addr(0)}
	if vrf_choice("second_listen_addr", 2) == 1 {
		cfg.HTTPListenAddr = append(cfg.HTTPListenAddr, vrfC15Addr(1))
	}
	cfg.ReadTimeout = time.Duration(vrf_nondet_int64("read_timeout"))
	cfg.ReadHeaderTimeout = time.Duration(vrf_nondet_int64("read_header_timeout"))
	cfg.WriteTimeout = time.Duration(vrf_nondet_int64("write_timeout"))
	cfg.IdleTimeout = time.Duration(vrf_nondet_int64("idle_timeout"))
	cfg.MaxHeaderBytes = vrf_nondet_int("max_header_bytes")
	switch vrf_choice("basic_auth", 3) {
	case 1:
		cfg.BasicAuthCredentials = map[string]string{}
	case 2:
		cfg.BasicAuthCredentials = map[string]string{"user": vrf_nondet_string("password")}
	}
	cfg.HTTPLogFile = vrf_nondet_string("http_log_file")
	if vrf_choice("headers", 2) == 1 {
		cfg.Headers = map[string][]string{"Server": {vrf_nondet_string("header_value")}}
	}
	if vrf_choice("cors_lists", 2) == 1 {
		cfg.CORSAllowedOrigins = []string{"*"}
		cfg.CORSAllowedMethods = []string{"GET", "POST"}
		cfg.CORSAllowedHeaders = []string{"X-Requested-With"}
		cfg.CORSExposedHeaders = []string{"Content-Type"}
	}
	cfg.CORSAllowCredentials = vrf_nondet_bool("cors_allow_credentials")
	cfg.CORSMaxAge = time.Duration(vrf_nondet_int64("cors_max_age"))
	return cfg
}

func vrfC15AddrsEqual(a, b []ma.Multiaddr) bool {
	if len(a) != len(b) {
		return false
	}
	for i := range a {
		if a[i] == nil || b[i] == nil || !a[i].Equal(b[i]) {
			return false
		}
	}
	return true
}

func vrfC15StrsEqual(a, b []string) bool {
	if len(a) != len(b) {
		return false
	}
	for i := range a {
		if a[i] != b[i] {
			return false
		}
	}
	return true
}

func VrfC15Restapi() {
	d := &Config{}
	vrf_assert(d.Default() == nil && d.Validate() == nil, "C15.restapi.default-valid")
	cfg := vrfC15Config()
	valid := cfg.Validate() == nil
	raw, err := cfg.ToJSON()
	vrf_assert(err == nil, "C15.restapi.save-ok")
	back := &Config{}
	lerr := back.LoadJSON(raw)
	if valid {
		vrf_assert(lerr == nil, "C15.restapi.valid-loads")
		vrf_assert(vrfC15AddrsEqual(back.HTTPListenAddr, cfg.HTTPListenAddr), "C15.restapi.roundtrip-addresses")
		vrf_assert(vrf_and(vrf_and(back.ReadTimeout == cfg.ReadTimeout, back.ReadHeaderTimeout == cfg.ReadHeaderTimeout),
			vrf_and(back.WriteTimeout == cfg.WriteTimeout, vrf_and(back.IdleTimeout == cfg.IdleTimeout, back.CORSMaxAge == cfg.CORSMaxAge))), "C15.restapi.roundtrip-durations")
		vrf_assert(back.MaxHeaderBytes == cfg.MaxHeaderBytes, "C15.restapi.roundtrip")
		vrf_assert(back.HTTPLogFile == cfg.HTTPLogFile, "C15.restapi.roundtrip")
		vrf_assert(back.CORSAllowCredentials == cfg.CORSAllowCredentials, "C15.restapi.roundtrip")
		vrf_assert(vrfC15StrsEqual(back.CORSAllowedOrigins, cfg.CORSAllowedOrigins) && vrfC15StrsEqual(back.CORSAllowedMethods, cfg.CORSAllowedMethods) &&
			vrfC15StrsEqual(back.CORSAllowedHeaders, cfg.CORSAllowedHeaders) && vrfC15StrsEqual(back.CORSExposedHeaders, cfg.CORSExposedHeaders), "C15.restapi.roundtrip-cors")
		vrf_assert(len(back.BasicAuthCredentials) == len(cfg.BasicAuthCredentials), "C15.restapi.roundtrip-credentials")
		if len(cfg.BasicAuthCredentials) == 1 {
			vrf_assert(back.BasicAuthCredentials["user"] == cfg.BasicAuthCredentials["user"], "C15.restapi.roundtrip-credentials")
		}
		vrf_assert(len(back.Headers) == len(cfg.Headers), "C15.restapi.roundtrip-headers")
		if len(cfg.Headers) == 1 {
			vrf_assert(len(back.Headers["Server"]) == 1 && back.Headers["Server"][0] == cfg.Headers["Server"][0], "C15.restapi.roundtrip-headers")
		}
	} else {
		vrf_assert(vrf_or(cfg.MaxHeaderBytes == 0, lerr != nil), "C15.restapi.invalid-rejected")
	}
	if lerr == nil {
		vrf_assert(back.Validate() == nil, "C15.restapi.loaded-implies-valid")
	}
	vrf_reach("C15.restapi.end")
}

// VrfC15RestapiEnv: settings supplied through environment variables on top of
// an arbitrary valid configuration.
func VrfC15RestapiEnv() {
	cfg := vrfC15Config()
	vrf_assume(cfg.Validate() == nil)
	bR, bL, bC, bM, bW := cfg.ReadTimeout, cfg.HTTPLogFile, cfg.CORSAllowCredentials, cfg.MaxHeaderBytes, cfg.WriteTimeout
	bAddrs := cfg.HTTPListenAddr
	setR, valR := vrf_nondet_bool("env_set_ReadTimeout"), time.Duration(vrf_nondet_int64("env_ReadTimeout"))
	setL, valL := vrf_nondet_bool("env_set_HTTPLogFile"), vrf_nondet_string("env_HTTPLogFile")
	setC, valC := vrf_nondet_bool("env_set_CORSAllowCredentials"), vrf_nondet_bool("env_CORSAllowCredentials")
	setM, valM := vrf_nondet_bool("env_set_MaxHeaderBytes"), vrf_nondet_int("env_MaxHeaderBytes")
	vrf_env(envConfigKey, "ReadTimeout", setR, valR.String())
	vrf_env(envConfigKey, "HTTPLogFile", setL, valL)
	vrf_env(envConfigKey, "CORSAllowCredentials", setC, vrf_ite_str(valC, "true", "false"))
	vrf_env(envConfigKey, "MaxHeaderBytes", setM, strconv.Itoa(valM))
	err := cfg.ApplyEnvVars()
	wR := time.Duration(vrf_ite_int(setR, int(valR), int(bR)))
	wL := vrf_ite_str(setL, valL, bL)
	wC := vrf_or(vrf_and(setC, valC), vrf_and(!setC, bC))
	wM := vrf_ite_int(setM, vrf_ite_int(valM == 0, DefaultMaxHeaderBytes, valM), bM)
	wantValid := vrf_and(wR >= 0, wM >= minMaxHeaderBytes)
	if err == nil {
		vrf_assert(vrf_and(cfg.ReadTimeout == wR, cfg.MaxHeaderBytes == wM), "C15.restapi.env-in-effect")
		vrf_assert(vrf_and(cfg.HTTPLogFile == wL, cfg.CORSAllowCredentials == wC), "C15.restapi.env-in-effect")
		vrf_assert(cfg.WriteTimeout == bW && vrfC15AddrsEqual(cfg.HTTPListenAddr, bAddrs), "C15.restapi.env-others-unchanged")
		vrf_assert(cfg.Validate() == nil, "C15.restapi.env-accepted-implies-valid")
	} else {
		vrf_assert(!wantValid, "C15.restapi.env-valid-accepted")
	}
	vrf_reach("C15.restapi.env-end")
}

var vrfEntries = map[string]func(){"VrfC15Restapi": VrfC15Restapi, "VrfC15RestapiEnv": VrfC15RestapiEnv, "VrfC15RestapiDisplay": VrfC15RestapiDisplay}

// VrfC15RestapiDisplay: the displayable form of the REST API section shows the
// settings but neither the API passwords nor the private key.
func VrfC15RestapiDisplay() {
	cfg := &Config{}
	vrf_assert(cfg.Default() == nil, "C15.restapi.display-default")
	pw := "pw-" + vrf_nondet_string("password")
	cfg.BasicAuthCredentials = map[string]string{"admin": pw}
	cfg.HTTPLogFile = "log-file-shown"
	out, err := cfg.ToDisplayJSON()
	vrf_assert(err == nil, "C15.restapi.display-ok")
	text := string(out)
	vrf_assert(!vrf_strcontains(text, pw), "C15.restapi.display-hides-passwords")
	vrf_assert(vrf_strcontains(text, "log-file-shown"), "C15.restapi.display-shows-settings")
	vrf_reach("C15.restapi.display-end")
}
