package metrics

import (
	"context"

	"github.com/ipfs/ipfs-cluster/api"

	peer "github.com/libp2p/go-libp2p-core/peer"
)

var vrfEntries = map[string]func(){
	"VrfC09Latest": VrfC09Latest,
	"VrfC09Alerts": VrfC09Alerts,
	"VrfC09Phi":    VrfC09Phi,
}

// (engine only) the phi-accrual arithmetic is floating point: any verdict
func vrfPhi(v float64, d []float64) float64 {
	if vrf_nondet_bool("phi_says_failed") {
		return 1000000
	}
	return 0
}

// VrfC09Phi: enough samples for the accrual detector to be consulted. Whatever
// the detector says, a peer whose latest metric is unexpired is not reported,
// and an expired one is reported at most once.
func VrfC09Phi() {
	accrualMetricsNum = 3
	DefaultWindowCap = 8
	now := vrf_now()
	st := NewStore()
	mc := NewChecker(context.Background(), st, 3.0)
	n := 3 + vrf_choice("extra_entries", vrf_param("extra"))
	var latest *api.Metric
	for i := 0; i < n; i++ {
		latest = &api.Metric{Name: "ping", Peer: vrfPeers[0], Valid: true, Expire: vrfExpiry(now), Value: "1"}
		st.Add(latest)
	}
	expired := now > latest.Expire
	vrf_note_bool("latest_expired", expired)
	// a pause much longer than the arrival spacing (what makes the detector suspicious)
	vrf_advance_time(300)
	failedNow := mc.FailedMetric("ping", vrfPeers[0])
	vrf_assert(vrf_implies(!expired, !failedNow), "C09.phi.unexpired-never-failed")
	total := 0
	for c := 0; c < 2; c++ {
		vrf_assert(mc.CheckPeers([]peer.ID{vrfPeers[0]}) == nil, "C09.phi.no-error")
		total += vrfDrain(mc)
	}
	vrf_assert(vrf_implies(!expired, total == 0), "C09.phi.never-unexpired")
	vrf_assert(total <= 1, "C09.phi.at-most-once")
	vrf_assert(vrf_implies(!expired, st.PeerLatest("ping", vrfPeers[0]) == latest), "C09.phi.fresh-kept")
	vrf_reach("C09.phi.end")
}

var vrfPeers = []peer.ID{"pA", "pB", "pC"}
var vrfNames = []string{"ping", "freespace"}

const vrfSecond = int64(1000000000)

type vrfArrival struct {
	name    int
	peer    int
	valid   bool
	expire  int64
	removed bool // a RemovePeer(peer) happened after this arrival
	m       *api.Metric
}

// vrfExpiry draws an expiry instant at least one second away from "now"
// (instants closer than that are outside the claim: natively the clock moves).
func vrfExpiry(now int64) int64 {
	delta := vrf_nondet_int64("expire_minus_now")
	vrf_assume(vrf_or(delta <= -vrfSecond, delta >= vrfSecond))
	vrf_assume(vrf_and(delta > -vrfSecond*1000000, delta < vrfSecond*1000000))
	return now + delta
}

// VrfC09Latest: arrival histories interleaved with peer removals, then the
// monitor's read path (Store.LatestValid + PeersetFilter, which is what
// pubsubmon.LatestMetrics is made of).
func VrfC09Latest() {
	k := vrf_param("arrivals")
	np := vrf_param("peers")
	DefaultWindowCap = vrf_param("window_cap") // wrap-around inside the bound
	now := vrf_now()
	st := NewStore()
	var hist []*vrfArrival
	// up to "removals" RemovePeer calls, each after a symbolic arrival (k = never)
	var removeAt, removePeer []int
	for r := 0; r < vrf_param("removals"); r++ {
		removeAt = append(removeAt, vrf_choice("remove_after_arrival", k+1))
		removePeer = append(removePeer, vrf_choice("removed_peer", np))
	}
	for i := 0; i < k; i++ {
		a := &vrfArrival{name: vrf_choice("name", 2), peer: vrf_choice("peer", np)}
		a.valid = vrf_nondet_bool("valid")
		a.expire = vrfExpiry(now)
		a.m = &api.Metric{Name: vrfNames[a.name], Peer: vrfPeers[a.peer], Valid: a.valid, Expire: a.expire, Value: "1"}
		st.Add(a.m)
		hist = append(hist, a)
		for r := 0; r < vrf_param("removals"); r++ {
			if removeAt[r] == i {
				rp := removePeer[r]
				st.RemovePeer(vrfPeers[rp])
				for _, h := range hist {
					if h.peer == rp {
						h.removed = true
					}
				}
			}
		}
	}
	// peerset: symbolic subset of the universe, or unknown
	var peerset []peer.ID
	member := make([]bool, np)
	havePeerset := vrf_choice("peerset_known", 2) == 1
	if havePeerset {
		for p := 0; p < np; p++ {
			if vrf_choice("member", 2) == 1 {
				member[p] = true
				peerset = append(peerset, vrfPeers[p])
			}
		}
	}
	q := 0 // queried name
	res := st.LatestValid(vrfNames[q])
	if havePeerset {
		res = PeersetFilter(res, peerset)
	}

	for p := 0; p < np; p++ {
		// the last arrival for (name q, peer p) that was not wiped by a removal
		var last *vrfArrival
		for _, h := range hist {
			if h.name == q && h.peer == p && !h.removed {
				last = h
			}
		}
		count := 0
		var got *api.Metric
		for _, m := range res {
			if m.Peer == vrfPeers[p] {
				count++
				got = m
			}
		}
		vrf_assert(count <= 1, "C09.latest.one-per-peer")
		expected := false
		if last != nil && (!havePeerset || member[p]) {
			expected = vrf_and(last.valid, !(now > last.expire))
		}
		vrf_assert((count == 1) == expected, "C09.latest.fresh-member-iff")
		if count == 1 {
			vrf_assert(last != nil && got == last.m, "C09.latest.is-last")
			vrf_assert(got.Valid, "C09.latest.valid")
			vrf_assert(!(now > got.Expire), "C09.latest.unexpired")
		}
	}
	for _, m := range res {
		vrf_assert(m.Name == vrfNames[q], "C09.latest.right-name")
	}
	vrf_reach("C09.latest.end")
}

func vrfDrain(mc *Checker) int {
	n := 0
	for {
		select {
		case <-mc.alertCh:
			n++
		default:
			return n
		}
	}
}

// VrfC09Alerts: one (name, peer) stream with w window entries whose latest is
// symbolic (expired or not), another healthy peer, then c failure checks.
func VrfC09Alerts() {
	w := vrf_param("entries")
	checks := vrf_param("checks")
	DefaultWindowCap = vrf_param("window_cap")
	accrualMetricsNum = 1000 // the phi-accrual branch (float arithmetic) is outside the claim
	now := vrf_now()
	st := NewStore()
	mc := NewChecker(context.Background(), st, 3.0)
	useAll := vrf_choice("check_all", 2) == 1
	n := 1 + vrf_choice("entries_minus_1", w)
	vrf_note_int("entries", n)
	var latest *api.Metric
	for i := 0; i < n; i++ {
		latest = &api.Metric{Name: "ping", Peer: vrfPeers[0], Valid: true, Expire: vrfExpiry(now), Value: "1"}
		st.Add(latest)
	}
	// a second, healthy peer that must never be reported
	st.Add(&api.Metric{Name: "ping", Peer: vrfPeers[1], Valid: true, Expire: now + 3600*vrfSecond, Value: "1"})
	// optionally the same peer also has a metric under a second name, with its own fate
	second := vrf_choice("second_metric_name", 2) == 1
	var latest2 *api.Metric
	expired2 := false
	if second {
		latest2 = &api.Metric{Name: "freespace", Peer: vrfPeers[0], Valid: true, Expire: vrfExpiry(now), Value: "1"}
		st.Add(latest2)
		expired2 = now > latest2.Expire
	}
	vrf_note_bool("second_name_expired", expired2)
	expired := now > latest.Expire
	vrf_note_bool("latest_expired", expired)
	vrf_note_bool("check_all", useAll)
	total := 0
	total2 := 0
	otherAlerts := 0
	for c := 0; c < checks; c++ {
		var err error
		if useAll {
			err = mc.CheckAll()
		} else {
			err = mc.CheckPeers([]peer.ID{vrfPeers[0], vrfPeers[1]})
		}
		vrf_assert(err == nil, "C09.alert.no-error")
		for {
			got := false
			select {
			case a := <-mc.alertCh:
				got = true
				if a.Peer == vrfPeers[0] && a.Name == "freespace" {
					total2++
				} else if a.Peer == vrfPeers[0] {
					total++
				} else {
					otherAlerts++
				}
			default:
			}
			if !got {
				break
			}
		}
		vrf_note_int("alerts_after_check", total)
		if c == 0 {
			vrf_assert(vrf_implies(expired, total == 1), "C09.alert.exactly-once-first-check")
		}
	}
	vrf_assert(otherAlerts == 0, "C09.alert.healthy-never")
	vrf_assert(vrf_implies(!expired, total == 0), "C09.alert.never-unexpired")
	vrf_assert(vrf_implies(expired, total == 1), "C09.alert.exactly-once")
	if second {
		// each metric name has its own count
		vrf_assert(vrf_implies(!expired2, total2 == 0), "C09.alert.never-unexpired")
		vrf_assert(vrf_implies(expired2, total2 == 1), "C09.alert.exactly-once-per-name")
	}
	if checks >= 2 {
		// after the alert the stale metric is forgotten
		gone := st.PeerLatest("ping", vrfPeers[0]) == nil
		vrf_assert(vrf_implies(expired, gone), "C09.alert.forgotten")
		vrf_assert(vrf_implies(!expired, !gone), "C09.alert.fresh-kept")
		if second {
			gone2 := st.PeerLatest("freespace", vrfPeers[0]) == nil
			vrf_assert(vrf_implies(expired2, gone2), "C09.alert.forgotten")
			vrf_assert(vrf_implies(!expired2, !gone2), "C09.alert.fresh-kept")
		}
	}
	// the peer comes back and fails again: a new outage is reported once more,
	// under every name (what was counted for the previous outage is forgotten)
	if checks >= 2 && vrf_param("second_outage") == 1 {
		st.Add(&api.Metric{Name: "ping", Peer: vrfPeers[0], Valid: true, Expire: now - 10*vrfSecond, Value: "2"})
		if second {
			st.Add(&api.Metric{Name: "freespace", Peer: vrfPeers[0], Valid: true, Expire: now - 10*vrfSecond, Value: "2"})
		}
		again, again2 := 0, 0
		for c := 0; c < checks; c++ {
			var err error
			if useAll {
				err = mc.CheckAll()
			} else {
				err = mc.CheckPeers([]peer.ID{vrfPeers[0], vrfPeers[1]})
			}
			vrf_assert(err == nil, "C09.alert.no-error")
			for {
				got := false
				select {
				case a := <-mc.alertCh:
					got = true
					if a.Peer == vrfPeers[0] && a.Name == "freespace" {
						again2++
					} else if a.Peer == vrfPeers[0] {
						again++
					} else {
						otherAlerts++
					}
				default:
				}
				if !got {
					break
				}
			}
		}
		vrf_assert(otherAlerts == 0, "C09.alert.healthy-never")
		vrf_assert(again == 1, "C09.alert.next-outage-reported-once")
		if second {
			vrf_assert(again2 == 1, "C09.alert.next-outage-reported-once")
		}
	}
	vrf_reach("C09.alert.end")
}
