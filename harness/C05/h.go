package stateless

import (
	"context"

	"github.com/ipfs/ipfs-cluster/api"

	cid "github.com/ipfs/go-cid"
)

var vrfEntries = map[string]func(){
	"VrfC05Schedule": VrfC05Schedule,
}

const (
	vrfInsNone = iota
	vrfInsTrackLocal
	vrfInsTrackRemote
	vrfInsUntrack
)

type vrfC05 struct {
	spt      *Tracker
	ps       *vrfPinset
	d        *vrfDaemon
	n        int
	last     []int  // last instruction per CID
	lastMode []bool // direct? (for track-local)
	nested   int    // nested instructions still allowed inside an IPFS call
	healthy  bool   // daemon answers every call successfully
	refused  []bool // last instruction on the CID was refused with ErrFullQueue
	overRec  []bool // the last instruction asked for a direct pin while the daemon held the CID recursively
}

func (h *vrfC05) mkPin(i int, local, direct, everywhere bool) *api.Pin {
	p := api.PinCid(h.d.cids[i])
	if direct {
		p.Mode = api.PinModeDirect
		p.MaxDepth = 0
	}
	switch {
	case everywhere:
		p.ReplicationFactorMin, p.ReplicationFactorMax = -1, -1
	case local:
		p.ReplicationFactorMin, p.ReplicationFactorMax = 1, 1
		p.Allocations = append(p.Allocations, vrfSelf)
	default:
		p.ReplicationFactorMin, p.ReplicationFactorMax = 1, 1
		p.Allocations = append(p.Allocations, vrfOther)
	}
	return p
}

// instruction issues one symbolic tracker instruction (as the consensus layer would).
func (h *vrfC05) instruction(allowWorkers bool) {
	nk := 5
	if allowWorkers {
		nk = 7
	}
	kind := vrf_choice("instruction", nk)
	if kind >= 5 {
		vrfWorkerStep(h.spt, kind == 6)
		return
	}
	i := 0
	if h.n > 1 {
		i = vrf_choice("cid", h.n)
	}
	c := h.d.cids[i]
	ctx := context.Background()
	switch kind {
	case 0, 1: // pin allocated here (recursive / direct), or to everyone
		// the cluster never turns a recursive entry into a direct one without an
		// unpin in between (Cluster.pin refuses that re-pin, see C04)
		if j := h.ps.find(c); j >= 0 && kind == 1 && h.ps.pins[j].MaxDepth != 0 {
			vrf_assume(false)
		}
		everywhere := vrf_nondet_bool("everywhere")
		p := h.mkPin(i, true, kind == 1, everywhere)
		h.ps.set(p)
		h.overRec[i] = kind == 1 && h.d.held[i] == vrfRecursive
		err := h.spt.Track(ctx, p)
		h.last[i], h.lastMode[i] = vrfInsTrackLocal, kind == 1
		h.refused[i] = err != nil
		vrf_assert(err == nil || err == ErrFullQueue, "C05.track.only-queue-error")
	case 2: // pin moved to another peer
		p := h.mkPin(i, false, false, false)
		h.ps.set(p)
		err := h.spt.Track(ctx, p)
		h.last[i] = vrfInsTrackRemote
		h.refused[i], h.overRec[i] = false, false
		vrf_assert(err == nil, "C05.track-remote.no-error")
	case 3:
		h.ps.remove(c)
		err := h.spt.Untrack(ctx, c)
		h.last[i] = vrfInsUntrack
		h.overRec[i] = false
		h.refused[i] = err != nil
		vrf_assert(err == nil || err == ErrFullQueue, "C05.untrack.only-queue-error")
	case 4:
		h.spt.Recover(ctx, c)
		h.refused[i] = false // a recover round retries what was refused
	}
	if h.refused[i] {
		// an instruction that cannot be queued is reported, and visible as an error status
		st := h.spt.Status(ctx, c)
		vrf_assert(vrfClass(st.Status) == vrfClassError, "C05.queue-full-reported")
	}
}

// onCall scripts one IPFS pin/unpin request: later instructions may arrive
// while it is in flight; its effect is applied only while the operation's
// context is live; it may fail.
func (h *vrfC05) onCall(d *vrfDaemon, kind string, ctx context.Context, pin *api.Pin) error {
	if h.healthy {
		if kind == "pin" {
			return h.applyPin(pin)
		}
		d.applyUnpin(pin)
		return nil
	}
	if h.nested > 0 && vrf_choice("instruction_while_in_flight", 2) == 1 {
		h.nested--
		h.instruction(false)
	}
	if ctx.Err() != nil {
		return ctx.Err() // request aborted: nothing applied
	}
	if vrf_nondet_bool("ipfs_call_fails") {
		return vrfErrDaemon
	}
	var err error
	if kind == "pin" {
		err = h.applyPin(pin)
	} else {
		d.applyUnpin(pin)
	}
	// the daemon has done its part; further instructions may arrive before the
	// worker gets to see the reply
	for vrf_param("reply_nesting") == 1 && h.nested > 0 && vrf_choice("instruction_while_reply_in_flight", 2) == 1 {
		h.nested--
		h.instruction(false)
	}
	return err
}

func (h *vrfC05) applyPin(pin *api.Pin) error {
	i := h.d.idx(pin.Cid)
	if i >= 0 && pin.MaxDepth == 0 && h.d.held[i] == vrfRecursive {
		return vrfErrDaemon // go-ipfs: already pinned recursively
	}
	h.d.applyPin(pin)
	return nil
}

func (h *vrfC05) drain() {
	// the two workers are independent goroutines: either may get ahead of the other
	unpinFirst := vrf_param("reply_nesting") == 1 && vrf_choice("unpin_worker_runs_first", 2) == 1
	for i := 0; i < 2*(h.spt.config.MaxPinQueueSize+1); i++ {
		a := vrfWorkerStep(h.spt, unpinFirst)
		b := vrfWorkerStep(h.spt, !unpinFirst)
		if !a && !b {
			break
		}
	}
}

func (h *vrfC05) matches(i int) bool {
	switch h.last[i] {
	case vrfInsTrackLocal:
		if h.lastMode[i] {
			return h.d.held[i] == vrfDirect
		}
		return h.d.held[i] == vrfRecursive
	case vrfInsUntrack:
		return h.d.held[i] == vrfNotHeld
	}
	return true // nothing asked, or moved elsewhere (best-effort unpin)
}

func VrfC05Schedule() {
	n := vrf_param("cids")
	k := vrf_param("steps")
	h := &vrfC05{n: n, ps: &vrfPinset{}, d: &vrfDaemon{}}
	for i := 0; i < n; i++ {
		h.d.cids = append(h.d.cids, vrfCid(i))
		// arbitrary earlier history: the daemon may already hold the CID
		held := vrfNotHeld
		if vrf_param("prestate") == 1 {
			held = vrf_choice("held_before", 3)
		}
		h.d.held = append(h.d.held, held)
	}
	h.last = make([]int, n)
	h.lastMode = make([]bool, n)
	h.refused = make([]bool, n)
	h.overRec = make([]bool, n)
	// arbitrary earlier history, continued: the shared state may already hold the
	// pin (tracked and pinned long ago, allocated here) whatever the daemon holds
	// now - a daemon loses pins to garbage collection or a manual "pin rm"
	if vrf_param("prestate") == 1 {
		for i := 0; i < n; i++ {
			if vrf_choice("in_state_before", 2) == 1 {
				h.ps.set(h.mkPin(i, true, false, false))
				h.last[i], h.lastMode[i] = vrfInsTrackLocal, false
			}
		}
	}
	h.nested = vrf_param("nested")
	h.d.onCall = h.onCall
	h.spt = vrfNewTracker(h.ps, h.d, vrf_param("queue"))
	for s := 0; s < k; s++ {
		h.instruction(true)
	}
	// quiesce: the workers finish what is queued, daemon healthy
	h.healthy = true
	h.drain()
	ctx := context.Background()
	for i := 0; i < n; i++ {
		_, inTable := h.spt.optracker.GetExists(ctx, h.d.cids[i])
		st := h.spt.Status(ctx, h.d.cids[i])
		cls := vrfClass(st.Status)
		vrf_note_int("last_instruction", h.last[i])
		vrf_note_bool("last_direct", h.lastMode[i])
		vrf_assert(cls != vrfClassPending, "C05.quiesce.nothing-pending")
		vrf_assert(h.matches(i) || cls == vrfClassError, "C05.quiesce.match-or-error")
		_ = inTable
	}
	// a recover round with IPFS healthy
	if vrf_param("recover") == 1 {
		_, err := h.spt.RecoverAll(ctx)
		vrf_assert(err == nil, "C05.recover.no-error")
		h.drain()
		for i := 0; i < n; i++ {
			vrf_note_bool("recover_direct", h.lastMode[i])
			vrf_note_bool("direct_tracked_while_recursively_held", h.overRec[i])
			vrf_assert(h.matches(i), "C05.recover.matches")
		}
	}
	vrf_reach("C05.end")
}

var _ = cid.Undef
