package observations

import (
	"time"

	ma "github.com/multiformats/go-multiaddr"
)

var vrfEntries = map[string]func(){
	"VrfC15Metrics": VrfC15Metrics, "VrfC15MetricsEnv": VrfC15MetricsEnv,
	"VrfC15Tracing": VrfC15Tracing, "VrfC15TracingEnv": VrfC15TracingEnv,
}

var vrfAddrs = []string{"/ip4/127.0.0.1/tcp/8888", "/dns4/metrics.example.org/tcp/9999", "/ip4/0.0.0.0/udp/6831"}

func vrfAddr(i int) ma.Multiaddr { a, _ := ma.NewMultiaddr(vrfAddrs[i]); return a }

func vrfMetricsCfg() *MetricsConfig {
	return &MetricsConfig{EnableStats: vrf_nondet_bool("enable_stats"),
		PrometheusEndpoint: vrfAddr(vrf_choice("prometheus_endpoint", 2)),
		ReportingInterval:  time.Duration(vrf_nondet_int64("reporting_interval"))}
}

func VrfC15Metrics() {
	d := &MetricsConfig{}
	d.Default()
	vrf_assert(d.Validate() == nil, "C15.metrics.default-valid")
	cfg := vrfMetricsCfg()
	valid := cfg.Validate() == nil
	raw, err := cfg.ToJSON()
	vrf_assert(err == nil, "C15.metrics.save-ok")
	back := &MetricsConfig{}
	lerr := back.LoadJSON(raw)
	if valid {
		vrf_assert(lerr == nil, "C15.metrics.valid-loads")
		vrf_assert(back.EnableStats == cfg.EnableStats && back.ReportingInterval == cfg.ReportingInterval, "C15.metrics.roundtrip")
		vrf_assert(back.PrometheusEndpoint != nil && back.PrometheusEndpoint.Equal(cfg.PrometheusEndpoint), "C15.metrics.roundtrip")
	} else {
		vrf_assert(lerr != nil, "C15.metrics.invalid-rejected")
	}
	if lerr == nil {
		vrf_assert(back.Validate() == nil, "C15.metrics.loaded-implies-valid")
	}
	vrf_reach("C15.metrics.end")
}

func VrfC15MetricsEnv() {
	cfg := vrfMetricsCfg()
	vrf_assume(cfg.Validate() == nil)
	before := *cfg
	setE, valE := vrf_nondet_bool("env_set_EnableStats"), vrf_nondet_bool("env_EnableStats")
	setR, valR := vrf_nondet_bool("env_set_ReportingInterval"), time.Duration(vrf_nondet_int64("env_ReportingInterval"))
	setP, valP := vrf_choice("env_set_PrometheusEndpoint", 2) == 1, vrf_choice("env_PrometheusEndpoint", 2)
	vrf_env(metricsEnvConfigKey, "EnableStats", setE, vrf_ite_str(valE, "true", "false"))
	vrf_env(metricsEnvConfigKey, "ReportingInterval", setR, valR.String())
	vrf_env(metricsEnvConfigKey, "PrometheusEndpoint", setP, vrfAddrs[valP])
	err := cfg.ApplyEnvVars()
	wE := vrf_or(vrf_and(setE, valE), vrf_and(!setE, before.EnableStats))
	wR := time.Duration(vrf_ite_int(setR, int(valR), int(before.ReportingInterval)))
	wantValid := vrf_or(!wE, wR >= 0)
	if err == nil {
		vrf_assert(vrf_and(cfg.EnableStats == wE, cfg.ReportingInterval == wR), "C15.metrics.env-in-effect")
		if setP {
			vrf_assert(cfg.PrometheusEndpoint.Equal(vrfAddr(valP)), "C15.metrics.env-in-effect")
		} else {
			vrf_assert(cfg.PrometheusEndpoint.Equal(before.PrometheusEndpoint), "C15.metrics.env-others-unchanged")
		}
		vrf_assert(cfg.Validate() == nil, "C15.metrics.env-accepted-implies-valid")
	} else {
		vrf_assert(!wantValid, "C15.metrics.env-valid-accepted")
	}
	vrf_reach("C15.metrics.env-end")
}

var vrfProbs = []float64{-0.5, 0, 0.3, 1}

func vrfTracingCfg() *TracingConfig {
	return &TracingConfig{EnableTracing: vrf_nondet_bool("enable_tracing"),
		JaegerAgentEndpoint: vrfAddr(2),
		SamplingProb:        vrfProbs[vrf_choice("sampling_prob", 4)],
		ServiceName:         vrf_nondet_string("service_name")}
}

func VrfC15Tracing() {
	d := &TracingConfig{}
	d.Default()
	vrf_assert(d.Validate() == nil, "C15.tracing.default-valid")
	cfg := vrfTracingCfg()
	valid := cfg.Validate() == nil
	raw, err := cfg.ToJSON()
	vrf_assert(err == nil, "C15.tracing.save-ok")
	back := &TracingConfig{}
	lerr := back.LoadJSON(raw)
	if valid {
		vrf_assert(lerr == nil, "C15.tracing.valid-loads")
		vrf_assert(back.EnableTracing == cfg.EnableTracing && back.SamplingProb == cfg.SamplingProb, "C15.tracing.roundtrip")
		vrf_assert(back.ServiceName == cfg.ServiceName, "C15.tracing.roundtrip")
		vrf_assert(back.JaegerAgentEndpoint != nil && back.JaegerAgentEndpoint.Equal(cfg.JaegerAgentEndpoint), "C15.tracing.roundtrip")
	} else {
		vrf_assert(lerr != nil, "C15.tracing.invalid-rejected")
	}
	if lerr == nil {
		vrf_assert(back.Validate() == nil, "C15.tracing.loaded-implies-valid")
	}
	vrf_reach("C15.tracing.end")
}

func VrfC15TracingEnv() {
	cfg := vrfTracingCfg()
	vrf_assume(cfg.Validate() == nil)
	before := *cfg
	setE, valE := vrf_nondet_bool("env_set_EnableTracing"), vrf_nondet_bool("env_EnableTracing")
	setS, valS := vrf_nondet_bool("env_set_ServiceName"), vrf_nondet_string("env_ServiceName")
	vrf_env(tracingEnvConfigKey, "EnableTracing", setE, vrf_ite_str(valE, "true", "false"))
	vrf_env(tracingEnvConfigKey, "ServiceName", setS, valS)
	err := cfg.ApplyEnvVars()
	wE := vrf_or(vrf_and(setE, valE), vrf_and(!setE, before.EnableTracing))
	wS := vrf_ite_str(setS, valS, before.ServiceName)
	wantValid := vrf_or(!wE, !(before.SamplingProb < 0))
	if err == nil {
		vrf_assert(vrf_and(cfg.EnableTracing == wE, cfg.ServiceName == wS), "C15.tracing.env-in-effect")
		vrf_assert(cfg.SamplingProb == before.SamplingProb && cfg.JaegerAgentEndpoint.Equal(before.JaegerAgentEndpoint), "C15.tracing.env-others-unchanged")
		vrf_assert(cfg.Validate() == nil, "C15.tracing.env-accepted-implies-valid")
	} else {
		vrf_assert(!wantValid, "C15.tracing.env-valid-accepted")
	}
	vrf_reach("C15.tracing.env-end")
}
