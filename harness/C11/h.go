package rest

import (
	"context"
	"errors"
	"io"
	"net/http"
	"net/url"
	"strings"

	types "github.com/ipfs/ipfs-cluster/api"
	"github.com/ipfs/ipfs-cluster/state"

	cid "github.com/ipfs/go-cid"
	peer "github.com/libp2p/go-libp2p-core/peer"
	rpc "github.com/libp2p/go-libp2p-gorpc"
	"github.com/gorilla/mux"
)

var vrfEntries = map[string]func(){
	"VrfC11PinRoutes": VrfC11PinRoutes,
	"VrfC11Auth":      VrfC11Auth,
	"VrfC11ReadRoutes": VrfC11ReadRoutes,
	"VrfC11Router":     VrfC11Router,
	"VrfC11PeerAdd":    VrfC11PeerAdd,
}

// ---- response recorder

type vrfWriter struct {
	hdr       http.Header
	headers   int // WriteHeader calls
	status    int
	documents int // Write calls (one per encoded document)
}

func (w *vrfWriter) Header() http.Header { return w.hdr }
func (w *vrfWriter) Write(b []byte) (int, error) {
	if w.headers == 0 {
		w.headers = 1
		w.status = 200
	}
	w.documents++
	return len(b), nil
}
func (w *vrfWriter) WriteHeader(code int) {
	w.headers++
	if w.headers == 1 {
		w.status = code
	}
}

// ---- the cluster behind the API

type vrfCall struct {
	filter types.TrackerStatus
	name   string
	method string
	pin    *types.Pin
	path   *types.PinPath
	cid    cid.Cid
	peer   peer.ID
}

type vrfClusterSvc struct {
	calls  []vrfCall
	result int // 0 ok, 1 not found, 2 other error
}

func (s *vrfClusterSvc) ret() error {
	switch s.result {
	case 1:
		return state.ErrNotFound
	case 2:
		return errors.New("cluster: operation failed")
	}
	return nil
}
func (s *vrfClusterSvc) Pin(ctx context.Context, in *types.Pin, out *types.Pin) error {
	s.calls = append(s.calls, vrfCall{method: "Pin", pin: in})
	return s.ret()
}
func (s *vrfClusterSvc) Unpin(ctx context.Context, in *types.Pin, out *types.Pin) error {
	s.calls = append(s.calls, vrfCall{method: "Unpin", pin: in})
	return s.ret()
}
func (s *vrfClusterSvc) PinPath(ctx context.Context, in *types.PinPath, out *types.Pin) error {
	s.calls = append(s.calls, vrfCall{method: "PinPath", path: in})
	return s.ret()
}
func (s *vrfClusterSvc) UnpinPath(ctx context.Context, in *types.PinPath, out *types.Pin) error {
	s.calls = append(s.calls, vrfCall{method: "UnpinPath", path: in})
	return s.ret()
}
func (s *vrfClusterSvc) PinGet(ctx context.Context, in cid.Cid, out *types.Pin) error {
	s.calls = append(s.calls, vrfCall{method: "PinGet", cid: in})
	return s.ret()
}
func (s *vrfClusterSvc) Status(ctx context.Context, in cid.Cid, out *types.GlobalPinInfo) error {
	s.calls = append(s.calls, vrfCall{method: "Status", cid: in})
	return s.ret()
}
func (s *vrfClusterSvc) StatusLocal(ctx context.Context, in cid.Cid, out *types.PinInfo) error {
	s.calls = append(s.calls, vrfCall{method: "StatusLocal", cid: in})
	return s.ret()
}
func (s *vrfClusterSvc) Recover(ctx context.Context, in cid.Cid, out *types.GlobalPinInfo) error {
	s.calls = append(s.calls, vrfCall{method: "Recover", cid: in})
	return s.ret()
}
func (s *vrfClusterSvc) RecoverLocal(ctx context.Context, in cid.Cid, out *types.PinInfo) error {
	s.calls = append(s.calls, vrfCall{method: "RecoverLocal", cid: in})
	return s.ret()
}
func (s *vrfClusterSvc) PeerAdd(ctx context.Context, in peer.ID, out *types.ID) error {
	s.calls = append(s.calls, vrfCall{method: "PeerAdd", peer: in})
	return s.ret()
}
func (s *vrfClusterSvc) PeerRemove(ctx context.Context, in peer.ID, out *struct{}) error {
	s.calls = append(s.calls, vrfCall{method: "PeerRemove", peer: in})
	return s.ret()
}
func (s *vrfClusterSvc) ID(ctx context.Context, in struct{}, out *types.ID) error {
	s.calls = append(s.calls, vrfCall{method: "ID"})
	return s.ret()
}

func (s *vrfClusterSvc) StatusAll(ctx context.Context, in types.TrackerStatus, out *[]*types.GlobalPinInfo) error {
	s.calls = append(s.calls, vrfCall{method: "StatusAll", filter: in})
	return s.ret()
}
func (s *vrfClusterSvc) StatusAllLocal(ctx context.Context, in types.TrackerStatus, out *[]*types.PinInfo) error {
	s.calls = append(s.calls, vrfCall{method: "StatusAllLocal", filter: in})
	return s.ret()
}
func (s *vrfClusterSvc) RecoverAll(ctx context.Context, in struct{}, out *[]*types.GlobalPinInfo) error {
	s.calls = append(s.calls, vrfCall{method: "RecoverAll"})
	return s.ret()
}
func (s *vrfClusterSvc) RecoverAllLocal(ctx context.Context, in struct{}, out *[]*types.PinInfo) error {
	s.calls = append(s.calls, vrfCall{method: "RecoverAllLocal"})
	return s.ret()
}
func (s *vrfClusterSvc) Peers(ctx context.Context, in struct{}, out *[]*types.ID) error {
	s.calls = append(s.calls, vrfCall{method: "Peers"})
	return s.ret()
}
func (s *vrfClusterSvc) Version(ctx context.Context, in struct{}, out *types.Version) error {
	s.calls = append(s.calls, vrfCall{method: "Version"})
	return s.ret()
}
func (s *vrfClusterSvc) Alerts(ctx context.Context, in struct{}, out *[]types.Alert) error {
	s.calls = append(s.calls, vrfCall{method: "Alerts"})
	return s.ret()
}
func (s *vrfClusterSvc) Pins(ctx context.Context, in struct{}, out *[]*types.Pin) error {
	s.calls = append(s.calls, vrfCall{method: "Pins"})
	if s.result == 0 {
		for i, t := range []types.PinType{types.DataType, types.MetaType, types.ShardType} {
			p := types.PinCid(vrfTestCids[i])
			p.Type = t
			*out = append(*out, p)
		}
	}
	return s.ret()
}
func (s *vrfClusterSvc) RepoGC(ctx context.Context, in struct{}, out *types.GlobalRepoGC) error {
	s.calls = append(s.calls, vrfCall{method: "RepoGC"})
	return s.ret()
}
func (s *vrfClusterSvc) RepoGCLocal(ctx context.Context, in struct{}, out *types.RepoGC) error {
	s.calls = append(s.calls, vrfCall{method: "RepoGCLocal"})
	return s.ret()
}

type vrfMonitorSvc struct{ s *vrfClusterSvc }

func (m *vrfMonitorSvc) LatestMetrics(ctx context.Context, in string, out *[]*types.Metric) error {
	m.s.calls = append(m.s.calls, vrfCall{method: "LatestMetrics", name: in})
	return m.s.ret()
}
func (m *vrfMonitorSvc) MetricNames(ctx context.Context, in struct{}, out *[]string) error {
	m.s.calls = append(m.s.calls, vrfCall{method: "MetricNames"})
	return m.s.ret()
}

var vrfTestCids = func() []cid.Cid {
	var out []cid.Cid
	for _, s := range []string{"QmUaFyXjZUNaUwYF8rBtbJc7fEJ46aJXvgV8z2HHs6jvmJ", "QmbrCtydGyPeHiLURSPMqrvE5mCgMCwFYq3UD4XLCeAYw6", "QmZHKZDavkvNfA9gSAg7HALv8jF7BJaKjUc9U2LSuvUySB"} {
		c, _ := cid.Decode(s)
		out = append(out, c)
	}
	return out
}()

func vrfNewAPI(svc *vrfClusterSvc) *API {
	srv := rpc.NewServer(nil, "vrf")
	if err := srv.RegisterName("Cluster", svc); err != nil {
		panic(err)
	}
	if err := srv.RegisterName("PeerMonitor", &vrfMonitorSvc{svc}); err != nil {
		panic(err)
	}
	a := &API{ctx: context.Background(), config: &Config{}}
	a.rpcClient = rpc.NewClientWithServer(nil, "vrf", srv)
	return a
}

const vrfGoodCid = "QmUaFyXjZUNaUwYF8rBtbJc7fEJ46aJXvgV8z2HHs6jvmJ"

// symbolic query values for the pin options this tier covers; empty = not given
type vrfOpts struct {
	name, mode, rmin, rmax, shard, update string
	rpl     string // the "replication" alias: sets both factors
	meta    string // value of the metadata key "team"
	allocs  int    // 0 none, 1 one peer, 2 two peers
	origins int    // 0 none, 1 one valid origin, 2 an invalid one
}

var vrfAllocStrs = []string{"", vrfGoodPeer, vrfGoodPeer + ",QmP63DkAFEnDYNjDYBpyNDfttu1fvUw99x1brscPzpqmmq"}
var vrfOriginStrs = []string{"", "/ip4/1.2.3.4/tcp/4001/p2p/" + vrfGoodPeer, "/ip4/1.2.3.4/tcp/4001"}

func vrfSymbolicQuery(q url.Values) vrfOpts {
	if vrf_param("more_options") == 1 {
		// the remaining options, with the others absent
		o := vrfOpts{}
		o.meta = vrf_nondet_string("q_meta_team")
		o.allocs = vrf_choice("q_user_allocations", 3)
		o.origins = vrf_choice("q_origins", 3)
		o.rpl = vrf_nondet_string("q_replication")
		q.Set("replication", o.rpl)
		q.Set("meta-team", o.meta)
		q.Set("user-allocations", vrfAllocStrs[o.allocs])
		q.Set("origins", vrfOriginStrs[o.origins])
		return o
	}
	o := vrfOpts{
		name:   vrf_nondet_string("q_name"),
		mode:   vrf_nondet_string("q_mode"),
		rmin:   vrf_nondet_string("q_replication_min"),
		rmax:   vrf_nondet_string("q_replication_max"),
		shard:  vrf_nondet_string("q_shard_size"),
		update: vrf_nondet_string("q_pin_update"),
	}
	q.Set("name", o.name)
	q.Set("mode", o.mode)
	q.Set("replication-min", o.rmin)
	q.Set("replication-max", o.rmax)
	q.Set("shard-size", o.shard)
	q.Set("pin-update", o.update)
	return o
}

// optsInvalid: some option carries a value its parser rejects
func (o vrfOpts) invalid() bool {
	return vrf_or(vrf_or(vrf_or(vrf_and(o.rmin != "", !vrfAtoiOK(o.rmin)), vrf_and(o.rmax != "", !vrfAtoiOK(o.rmax))),
		vrf_or(vrf_and(o.shard != "", !vrfParseUintOK(o.shard)), vrf_and(o.update != "", !vrfCidOK(o.update)))), vrf_or(o.origins == 2, vrf_and(o.rpl != "", !vrfAtoiOK(o.rpl))))
}

func (o vrfOpts) check(po *types.PinOptions, label string) {
	vrf_assert(po.Name == o.name, label+".name")
	wantMode := types.PinModeRecursive
	if o.mode == "direct" {
		wantMode = types.PinModeDirect
	}
	vrf_assert(po.Mode == wantMode, label+".mode")
	vrf_assert(vrf_or(o.rmin == "", po.ReplicationFactorMin == vrfAtoi(o.rmin)), label+".rmin")
	vrf_assert(vrf_or(o.rmax == "", po.ReplicationFactorMax == vrfAtoi(o.rmax)), label+".rmax")
	vrf_assert(vrf_or(vrf_or(o.rmin != "", o.rpl != ""), po.ReplicationFactorMin == 0), label+".rmin-unset")
	vrf_assert(vrf_or(o.rpl == "", vrf_and(po.ReplicationFactorMin == vrfAtoi(o.rpl), po.ReplicationFactorMax == vrfAtoi(o.rpl))), label+".replication-alias")
	vrf_assert(vrf_or(o.shard == "", po.ShardSize == vrfParseUint(o.shard)), label+".shard-size")
	vrf_assert(vrf_or(o.update != "", po.PinUpdate == cid.Undef), label+".update-unset")
	if vrf_param("more_options") == 1 {
		v, ok := po.Metadata["team"]
		vrf_assert(ok && v == o.meta && len(po.Metadata) == 1, label+".metadata")
		vrf_assert(len(po.UserAllocations) == o.allocs, label+".user-allocations")
		if o.allocs >= 1 && len(po.UserAllocations) >= 1 {
			vrf_assert(peer.Encode(po.UserAllocations[0]) == vrfGoodPeer, label+".user-allocations")
		}
		vrf_assert(len(po.Origins) == o.origins, label+".origins")
		if o.origins == 1 && len(po.Origins) == 1 {
			vrf_assert(po.Origins[0].String() == vrfOriginStrs[1], label+".origins")
		}
	}
}

// VrfC11PinRoutes: POST/DELETE /pins/{hash}, /pins/{keyType}/{path}, /allocations/{hash},
// /pins/{hash} status+recover, DELETE /peers/{peer}
func VrfC11PinRoutes() {
	svc := &vrfClusterSvc{}
	svc.result = vrf_choice("cluster_answer", 3)
	a := vrfNewAPI(svc)
	route := vrf_choice("route", vrf_param("routes"))
	vrf_note_int("route", route)
	q := url.Values{}
	o := vrfSymbolicQuery(q)
	r := &http.Request{Method: "POST", URL: &url.URL{Path: "/x", RawQuery: q.Encode()}, Header: http.Header{}}
	w := &vrfWriter{hdr: http.Header{}}
	hash := vrf_nondet_string("hash")
	// path routes: key type and path are drawn from a concrete universe so that
	// the real go-path parser runs on them
	keyType := []string{"ipfs", "ipns", "ipld", "bogus", ""}[vrf_choice("key_type", 5)]
	path := []string{vrfGoodCid, vrfGoodCid + "/some/file.txt", "not-a-cid", "", vrfGoodCid + "/"}[vrf_choice("path", 5)]
	pid := vrf_nondet_string("peer")
	malformed := false
	want := ""
	usesOptions := false
	switch route {
	case 0, 1: // pin / unpin by CID
		r = mux.SetURLVars(r, map[string]string{"hash": hash})
		malformed = vrf_or(!vrfCidOK(hash), o.invalid())
		usesOptions = true
		if route == 0 {
			want = "Pin"
			a.pinHandler(w, r)
		} else {
			want = "Unpin"
			a.unpinHandler(w, r)
		}
	case 2, 3: // pin / unpin by path
		r = mux.SetURLVars(r, map[string]string{"keyType": keyType, "path": path})
		malformed = vrf_or(!vrfPathOK("/"+keyType+"/"+strings.TrimSuffix(path, "/")), o.invalid())
		usesOptions = true
		if route == 2 {
			want = "PinPath"
			a.pinPathHandler(w, r)
		} else {
			want = "UnpinPath"
			a.unpinPathHandler(w, r)
		}
	case 4: // allocation
		r = mux.SetURLVars(r, map[string]string{"hash": hash})
		malformed = vrf_or(!vrfCidOK(hash), o.invalid())
		want = "PinGet"
		a.allocationHandler(w, r)
	case 5: // remove peer
		r = mux.SetURLVars(r, map[string]string{"peer": pid})
		malformed = !vrfPeerOK(pid)
		want = "PeerRemove"
		a.peerRemoveHandler(w, r)
	}
	vrf_note_bool("malformed", malformed)
	vrf_note_bool("bad_option_only", vrf_and(malformed, vrf_and(o.invalid(), vrf_or(route >= 2, vrfCidOK(hash)))))
	// the response: one status line, one document at most
	vrf_assert(w.headers == 1, "C11.response.one-status")
	vrf_assert(w.documents <= 1, "C11.response.one-document")
	if malformed {
		vrf_assert(w.status >= 400 && w.status < 500, "C11.malformed.4xx")
		vrf_assert(len(svc.calls) == 0, "C11.malformed.no-rpc")
		vrf_reach("C11.end-malformed")
		return
	}
	vrf_assert(len(svc.calls) == 1, "C11.wellformed.one-rpc")
	if len(svc.calls) != 1 {
		return
	}
	call := svc.calls[0]
	vrf_assert(call.method == want, "C11.rpc.matches-route")
	switch route {
	case 0, 1:
		vrf_assert(call.pin != nil && call.pin.Cid.String() == vrfCidString(hash), "C11.rpc.same-cid")
		if usesOptions && call.pin != nil {
			o.check(&call.pin.PinOptions, "C11.rpc.options")
		}
	case 2, 3:
		vrf_assert(call.path != nil && call.path.Path == vrfPathString("/"+keyType+"/"+strings.TrimSuffix(path, "/")), "C11.rpc.same-path")
		if call.path != nil {
			o.check(&call.path.PinOptions, "C11.rpc.options")
		}
	case 4:
		vrf_assert(call.cid.String() == vrfCidString(hash), "C11.rpc.same-cid")
	case 5:
		vrf_assert(string(call.peer) != "", "C11.rpc.peer-decoded")
	}
	if svc.result == 0 {
		vrf_assert(w.status >= 200 && w.status < 300, "C11.ok.2xx")
	} else {
		vrf_assert(w.status >= 400, "C11.error.status")
	}
	vrf_reach("C11.end-wellformed")
}

// VrfC11Auth: with credentials configured, the wrapped handler runs iff a
// matching pair was supplied.
func VrfC11Auth() {
	svc := &vrfClusterSvc{}
	a := vrfNewAPI(svc)
	creds := map[string]string{}
	users := []string{"alice", "bob", "carol"}
	for i := 0; i < vrf_param("credentials"); i++ {
		creds[users[i]] = vrf_nondet_string("configured_password")
	}
	inner := http.HandlerFunc(a.idHandler)
	h := basicAuthHandler(creds, inner)
	r := &http.Request{Method: "GET", URL: &url.URL{Path: "/id"}, Header: http.Header{}}
	supplied := vrf_choice("credentials_supplied", 2) == 1
	user := vrf_nondet_string("user")
	pass := vrf_nondet_string("password")
	if supplied {
		r.SetBasicAuth(user, pass)
	}
	w := &vrfWriter{hdr: http.Header{}}
	h.ServeHTTP(w, r)
	valid := false
	if supplied {
		for u, p := range creds {
			valid = vrf_or(valid, vrf_and(u == user, p == pass))
		}
	}
	vrf_note_bool("valid_credentials", valid)
	ran := len(svc.calls) > 0
	vrf_assert(ran == valid, "C11.auth.iff-credentials")
	vrf_assert(vrf_or(valid, w.status == 401), "C11.auth.401")
	vrf_assert(w.headers == 1, "C11.auth.one-status")
	vrf_reach("C11.auth.end")
}

// VrfC11ReadRoutes: the read-only and whole-pinset routes: status and recover of
// a CID (cluster-wide or local), the status and recover listings, allocations,
// metrics, peers, id, version, alerts, repo gc.
func VrfC11ReadRoutes() {
	svc := &vrfClusterSvc{}
	svc.result = vrf_choice("cluster_answer", 3)
	a := vrfNewAPI(svc)
	route := vrf_choice("route", 13)
	vrf_note_int("route", route)
	local := vrf_nondet_string("q_local")
	q := url.Values{}
	q.Set("local", local)
	filters := []string{"", "pinned", "pin_error,queued", "bogus", "pinned,bogus"}
	pinFilters := []string{"", "pin", "all", "meta-pin,shard-pin", "bogus"}
	fs := filters[vrf_choice("status_filter", len(filters))]
	pf := pinFilters[vrf_choice("pin_type_filter", len(pinFilters))]
	if route == 2 {
		q.Set("filter", fs)
	}
	if route == 4 {
		q.Set("filter", pf)
	}
	r := &http.Request{Method: "GET", URL: &url.URL{Path: "/x", RawQuery: q.Encode()}, Header: http.Header{}}
	w := &vrfWriter{hdr: http.Header{}}
	hash := vrf_nondet_string("hash")
	metric := vrf_nondet_string("metric_name")
	isLocal := local == "true"
	malformed := false
	want := ""
	switch route {
	case 0: // GET /pins/{hash}
		r = mux.SetURLVars(r, map[string]string{"hash": hash})
		malformed = !vrfCidOK(hash)
		want = "Status"
		if isLocal {
			want = "StatusLocal"
		}
		a.statusHandler(w, r)
	case 1: // POST /pins/{hash}/recover
		r = mux.SetURLVars(r, map[string]string{"hash": hash})
		malformed = !vrfCidOK(hash)
		want = "Recover"
		if isLocal {
			want = "RecoverLocal"
		}
		a.recoverHandler(w, r)
	case 2: // GET /pins
		malformed = fs != "" && types.TrackerStatusFromString(fs) == types.TrackerStatusUndefined
		want = "StatusAll"
		if isLocal {
			want = "StatusAllLocal"
		}
		a.statusAllHandler(w, r)
	case 3: // POST /pins/recover
		want = "RecoverAll"
		if isLocal {
			want = "RecoverAllLocal"
		}
		a.recoverAllHandler(w, r)
	case 4: // GET /allocations
		malformed = pf == "bogus"
		want = "Pins"
		a.allocationsHandler(w, r)
	case 5:
		r = mux.SetURLVars(r, map[string]string{"name": metric})
		want = "LatestMetrics"
		a.metricsHandler(w, r)
	case 6:
		want = "MetricNames"
		a.metricNamesHandler(w, r)
	case 7:
		want = "Peers"
		a.peerListHandler(w, r)
	case 8:
		want = "ID"
		a.idHandler(w, r)
	case 9:
		want = "Version"
		a.versionHandler(w, r)
	case 10:
		want = "Alerts"
		a.alertsHandler(w, r)
	case 11:
		want = "RepoGC"
		if isLocal {
			want = "RepoGCLocal"
		}
		a.repoGCHandler(w, r)
	case 12: // unknown route
		a.notFoundHandler(w, r)
		vrf_assert(w.status == 404 && len(svc.calls) == 0 && w.headers == 1, "C11.read.unknown-route-404")
		vrf_reach("C11.read.end-unknown")
		return
	}
	vrf_assert(w.headers == 1, "C11.response.one-status")
	vrf_assert(w.documents <= 1, "C11.response.one-document")
	if malformed {
		vrf_assert(w.status >= 400 && w.status < 500, "C11.malformed.4xx")
		vrf_assert(len(svc.calls) == 0, "C11.malformed.no-rpc")
		vrf_reach("C11.read.end-malformed")
		return
	}
	vrf_assert(len(svc.calls) == 1, "C11.wellformed.one-rpc")
	if len(svc.calls) != 1 {
		return
	}
	call := svc.calls[0]
	vrf_assert(call.method == want, "C11.rpc.matches-route")
	switch route {
	case 0, 1:
		vrf_assert(call.cid.String() == vrfCidString(hash), "C11.rpc.same-cid")
	case 2:
		vrf_assert(call.filter == types.TrackerStatusFromString(fs), "C11.rpc.same-filter")
	case 5:
		vrf_assert(call.name == metric, "C11.rpc.same-metric-name")
	}
	if svc.result == 0 {
		vrf_assert(w.status >= 200 && w.status < 300, "C11.ok.2xx")
	} else {
		vrf_assert(w.status >= 400, "C11.error.status")
	}
	vrf_reach("C11.read.end-wellformed")
}

// VrfC11Router: the API built by the real NewAPIWithHost (listening sockets
// opaque, CORS / tracing / logging wrappers transparent), requests sent through
// its real handler chain, gorilla/mux matching the routes the code registered:
// with credentials configured nothing - known or unknown route, any method -
// runs without a valid pair; with valid (or no configured) credentials every
// (method, path) of the route table performs that route's cluster operation, a
// known path with another method is refused (405) and an unknown path is a 404,
// both without any cluster call.
func VrfC11Router() {
	svc := &vrfClusterSvc{}
	cfg := &Config{}
	cfg.Default()
	cfg.Tracing = vrf_choice("tracing", 2) == 1
	withCreds := vrf_choice("credentials_configured", 2) == 1
	pw := vrf_nondet_string("configured_password")
	if withCreds {
		cfg.BasicAuthCredentials = map[string]string{"alice": pw}
	}
	a, err := NewAPIWithHost(context.Background(), cfg, nil)
	vrf_assert(err == nil && a != nil, "C11.router.constructed")
	if a == nil {
		return
	}
	srv := rpc.NewServer(nil, "vrf")
	srv.RegisterName("Cluster", svc)
	srv.RegisterName("PeerMonitor", &vrfMonitorSvc{svc})
	a.rpcClient = rpc.NewClientWithServer(nil, "vrf", srv)

	type rt struct{ method, path, op string }
	table := []rt{
		{"GET", "/id", "ID"}, {"GET", "/version", "Version"}, {"GET", "/peers", "Peers"},
		{"DELETE", "/peers/" + vrfGoodPeer, "PeerRemove"},
		{"GET", "/allocations", "Pins"}, {"GET", "/allocations/" + vrfGoodCid, "PinGet"},
		{"GET", "/pins", "StatusAll"}, {"POST", "/pins/" + vrfGoodCid + "/recover", "Recover"},
		{"POST", "/pins/recover", "RecoverAll"}, {"GET", "/pins/" + vrfGoodCid, "Status"},
		{"POST", "/pins/" + vrfGoodCid, "Pin"}, {"DELETE", "/pins/" + vrfGoodCid, "Unpin"},
		{"POST", "/pins/ipfs/" + vrfGoodCid + "/a/b", "PinPath"}, {"DELETE", "/pins/ipns/example.org", "UnpinPath"},
		{"POST", "/ipfs/gc", "RepoGC"}, {"GET", "/health/alerts", "Alerts"},
		{"GET", "/monitor/metrics/ping", "LatestMetrics"}, {"GET", "/monitor/metrics", "MetricNames"},
		// wrong method on a known path
		{"PUT", "/pins/" + vrfGoodCid, "405"}, {"DELETE", "/id", "405"}, {"POST", "/version", "405"},
		// unknown paths
		{"GET", "/nothing/here", "404"}, {"POST", "/pins/" + vrfGoodCid + "/recover/more", "404"}, {"GET", "/api/v0/id", "404"},
	}
	k := table[vrf_choice("request", len(table))]
	r := &http.Request{Method: k.method, URL: &url.URL{Path: k.path}, Header: http.Header{}}
	supplied := vrf_choice("credentials_supplied", 2) == 1
	user, pass := vrf_nondet_string("user"), vrf_nondet_string("password")
	if supplied {
		r.SetBasicAuth(user, pass)
	}
	w := &vrfWriter{hdr: http.Header{}}
	a.server.Handler.ServeHTTP(w, r)

	valid := !withCreds
	if withCreds && supplied {
		valid = vrf_and(user == "alice", pass == pw)
	}
	vrf_note_bool("valid_credentials", valid)
	vrf_assert(w.headers == 1, "C11.router.one-status")
	if !valid {
		vrf_assert(w.status == 401 && len(svc.calls) == 0, "C11.router.nothing-without-credentials")
		vrf_reach("C11.router.end-unauthorised")
		return
	}
	switch k.op {
	case "404":
		vrf_assert(w.status == 404 && len(svc.calls) == 0, "C11.router.unknown-path-404")
	case "405":
		vrf_assert(w.status == 405 && len(svc.calls) == 0, "C11.router.wrong-method-refused")
	default:
		vrf_assert(len(svc.calls) == 1 && svc.calls[0].method == k.op, "C11.router.route-performs-its-operation")
		vrf_assert(w.status >= 200 && w.status < 300, "C11.router.ok")
	}
	vrf_reach("C11.router.end-authorised")
}

const vrfGoodPeer = "QmZHKZDavkvNfA9gSAg7HALv8jF7BJaKjUc9U2LSuvUySB"

// ---- request bodies

type vrfBody struct {
	data   []byte
	pos    int
	chunk  int // bytes handed out per Read (the body arrives in pieces)
	closed int
}

func (b *vrfBody) Read(p []byte) (int, error) {
	if b.pos >= len(b.data) {
		return 0, io.EOF
	}
	n := len(b.data) - b.pos
	if b.chunk > 0 && n > b.chunk {
		n = b.chunk
	}
	if n > len(p) {
		n = len(p)
	}
	copy(p, b.data[b.pos:b.pos+n])
	b.pos += n
	return n, nil
}
func (b *vrfBody) Close() error { b.closed++; return nil }

// VrfC11PeerAdd: POST /peers carries its argument in the body: an undecodable
// body or peer ID is refused with a 4xx and nothing reaches the cluster; a
// decodable one performs exactly PeerAdd with the peer it named.
func VrfC11PeerAdd() {
	svc := &vrfClusterSvc{}
	svc.result = vrf_choice("cluster_answer", 3)
	a := vrfNewAPI(svc)
	bodies := []struct {
		text string
		peer string // the peer named by a well-formed body
	}{
		{`{"peer_id":"` + vrfGoodPeer + `"}`, vrfGoodPeer},
		{`{"peer_id":"` + vrfGoodPeer + `","comment":"ignored"}`, vrfGoodPeer},
		{` {"peer_id" : "QmP63DkAFEnDYNjDYBpyNDfttu1fvUw99x1brscPzpqmmq"} `, "QmP63DkAFEnDYNjDYBpyNDfttu1fvUw99x1brscPzpqmmq"},
		{`{"peer_id":"notapeer"}`, ""},
		{`{"peer_id":""}`, ""},
		{`{}`, ""},
		{`{"peer_id":5}`, ""},
		{`{"peer_id":"` + vrfGoodPeer, ""}, // cut short
		{`peer_id=` + vrfGoodPeer, ""},
		{``, ""},
		{`["` + vrfGoodPeer + `"]`, ""},
		{`null`, ""},
	}
	b := bodies[vrf_choice("body", len(bodies))]
	body := &vrfBody{data: []byte(b.text), chunk: []int{0, 7}[vrf_choice("body_in_pieces", 2)]}
	r := &http.Request{Method: "POST", URL: &url.URL{Path: "/peers"}, Header: http.Header{}, Body: body}
	w := &vrfWriter{hdr: http.Header{}}
	a.peerAddHandler(w, r)
	vrf_assert(w.headers == 1, "C11.response.one-status")
	vrf_assert(w.documents <= 1, "C11.response.one-document")
	if b.peer == "" {
		vrf_assert(w.status >= 400 && w.status < 500, "C11.malformed.4xx")
		vrf_assert(len(svc.calls) == 0, "C11.malformed.no-rpc")
		vrf_assert(w.documents == 1, "C11.malformed.error-document")
		vrf_reach("C11.peeradd.end-malformed")
		return
	}
	vrf_assert(len(svc.calls) == 1, "C11.wellformed.one-rpc")
	if len(svc.calls) != 1 {
		return
	}
	want, _ := peer.Decode(b.peer)
	vrf_assert(svc.calls[0].method == "PeerAdd" && svc.calls[0].peer == want, "C11.peeradd.same-peer")
	if svc.result == 0 {
		vrf_assert(w.status >= 200 && w.status < 300 && w.documents == 1, "C11.ok.2xx")
	} else {
		vrf_assert(w.status >= 400 && w.documents == 1, "C11.error.status")
	}
	vrf_reach("C11.peeradd.end-wellformed")
}
