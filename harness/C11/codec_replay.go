package rest

import (
	"strconv"
	"strings"

	cid "github.com/ipfs/go-cid"
	gopath "github.com/ipfs/go-path"
	peer "github.com/libp2p/go-libp2p-core/peer"
)

func vrfCidOK(s string) bool  { _, err := cid.Decode(s); return err == nil }
func vrfPeerOK(s string) bool { _, err := peer.Decode(s); return err == nil }
func vrfAtoiOK(s string) bool { _, err := strconv.Atoi(s); return err == nil }
func vrfParseUintOK(s string) bool {
	_, err := strconv.ParseUint(s, 10, 64)
	return err == nil
}
func vrfPathOK(s string) bool { _, err := gopath.ParsePath(s); return err == nil }
func vrfAtoi(s string) int    { v, _ := strconv.Atoi(s); return v }
func vrfParseUint(s string) uint64 {
	v, _ := strconv.ParseUint(s, 10, 64)
	return v
}
func vrfCidString(s string) string {
	c, err := cid.Decode(s)
	if err != nil {
		return ""
	}
	return c.String()
}
func vrfHasSlashSuffix(s string) bool { return strings.HasSuffix(s, "/") }

func vrfPathString(s string) string {
	p, err := gopath.ParsePath(s)
	if err != nil {
		return ""
	}
	return p.String()
}
