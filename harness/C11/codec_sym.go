package rest

import gopath "github.com/ipfs/go-path"

// decodability of request parts: the same uninterpreted predicates/functions
// that the engine's contract stubs of cid.Decode, peer.Decode, strconv and
// go-path use.
func vrfCidOK(s string) bool        { return vrf_uf_bool("cid_ok", s) }
func vrfPeerOK(s string) bool       { return vrf_uf_bool("peer_ok", s) }
func vrfAtoiOK(s string) bool       { return vrf_uf_bool("pi_ok", s) }
func vrfParseUintOK(s string) bool  { return vrf_uf_bool("pu_ok", s) }
func vrfPathOK(s string) bool { _, err := gopath.ParsePath(s); return err == nil }
func vrfAtoi(s string) int          { return int(vrf_uf_u64("pi_val", s)) }
func vrfParseUint(s string) uint64  { return vrf_uf_u64("pu_val", s) }
func vrfCidString(s string) string  { return vrf_uf_str("cid_str", vrf_uf_str("cid_bytes", s)) }
func vrfHasSlashSuffix(s string) bool { return vrf_strsuffix(s, "/") }

func vrfPathString(s string) string {
	p, err := gopath.ParsePath(s)
	if err != nil {
		return ""
	}
	return p.String()
}
