package raft

func vrf_fs_put_dir(path string, exists bool, id int) { panic("vrf intrinsic") }
func vrf_fs_exists(path string) bool                  { panic("vrf intrinsic") }
func vrf_fs_id(path string) int                       { panic("vrf intrinsic") }

func vrfTempDir() string                         { return "/vrf-tmp" }
func vrfCleanup(string)                          {}
func vrfPutDir(path string, exists bool, id int) { vrf_fs_put_dir(path, exists, id) }
func vrfExists(path string) bool                 { return vrf_fs_exists(path) }
func vrfID(path string) int                      { return vrf_fs_id(path) }
