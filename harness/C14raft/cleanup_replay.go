package raft

// the snapshot store's answer is only controllable inside the symbolic executor
func VrfC14Cleanup() {}
