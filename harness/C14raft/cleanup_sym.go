package raft

import (
	"errors"
	"io"
	"path/filepath"

	hraft "github.com/hashicorp/raft"
)

var vrfSnapshotAnswer int // 0: no snapshot at all, 1: a snapshot, 2: the snapshots cannot be read

// stands for latestSnapshot (hashicorp's file snapshot store is outside the model)
func vrfLatestSnapshot(raftDataFolder string) (*hraft.SnapshotMeta, io.ReadCloser, error) {
	switch vrfSnapshotAnswer {
	case 1:
		return &hraft.SnapshotMeta{ID: "snap", Index: 7}, nil, nil
	case 2:
		return nil, nil, errors.New("snapshot: cannot be opened")
	}
	return nil, nil, nil
}

// VrfC14Cleanup: cleaning the Raft data of a peer. Only a folder that provably
// holds no snapshot is thrown away; a folder with a snapshot - or one whose
// snapshots cannot be read - becomes the newest rotated backup, whatever
// backups exist already.
func VrfC14Cleanup() {
	keep := 1 + vrf_choice("keep_minus_1", 3)
	base := vrfTempDir()
	data := filepath.Join(base, "raft")
	cfg := &Config{DataFolder: data, BackupsRotate: keep}
	vrfPutDir(data, true, 1)
	old0 := filepath.Join(base, "raft.old.0")
	had0 := vrf_nondet_bool("backup_exists")
	vrfPutDir(old0, had0, 100)
	vrfSnapshotAnswer = vrf_choice("snapshot_store_answer", 3)
	err := CleanupRaft(cfg)
	vrf_assert(err == nil, "C14.cleanup.no-error")
	vrf_assert(!vrfExists(data), "C14.cleanup.data-folder-gone")
	if vrfSnapshotAnswer == 0 {
		// nothing worth keeping: no backup is made of an empty state
		vrf_assert(vrfExists(old0) == had0, "C14.cleanup.empty-not-backed-up")
		vrf_assert(vrf_implies(had0, vrfID(old0) == 100), "C14.cleanup.empty-not-backed-up")
	} else {
		vrf_assert(vrf_and(vrfExists(old0), vrfID(old0) == 1), "C14.cleanup.data-kept-as-newest-backup")
	}
	vrf_reach("C14.cleanup.end")
}
