package raft

import (
	"fmt"
	"path/filepath"
)

var vrfEntries = map[string]func(){"VrfC14Rotate": VrfC14Rotate, "VrfC14Cleanup": VrfC14Cleanup}

// VrfC14Rotate: cleaning Raft data keeps it recoverable as the newest of at
// most N rotated backups; older ones shift by one; only the oldest is dropped.
func VrfC14Rotate() {
	// retention: every value up to max_keep, and one two-digit value (folder names
	// stop sorting numerically at .old.10)
	keep := 1 + vrf_choice("keep_minus_1", vrf_param("max_keep")+1)
	if keep > vrf_param("max_keep") {
		keep = vrf_param("big_keep")
	}
	cleans := vrf_param("cleans")
	base := vrfTempDir()
	defer vrfCleanup(base)
	data := filepath.Join(base, "raft")
	dbh := newDataBackupHelper(data, keep)
	slots := keep + 2 // also folders beyond the retention window
	name := func(i int) string { return filepath.Join(base, fmt.Sprintf("raft.old.%d", i)) }
	exists := make([]bool, slots)
	ids := make([]int, slots)
	for i := 0; i < slots; i++ {
		exists[i] = vrf_nondet_bool("backup_exists")
		ids[i] = 100 + i
		vrfPutDir(name(i), exists[i], ids[i])
	}
	nextID := 1
	for c := 0; c < cleans; c++ {
		haveData := vrf_nondet_bool("data_folder_exists")
		vrfPutDir(data, haveData, nextID)
		dataID := nextID
		nextID++
		err := dbh.makeBackup()
		vrf_assert(err == nil, "C14.rotate.no-error")
		if !haveData {
			for i := 0; i < slots; i++ {
				vrf_assert(vrfExists(name(i)) == exists[i], "C14.rotate.nothing-to-backup-unchanged")
			}
			continue // (the comparison above is a term equality: no branching on the flags)
		}
		// expected state: k = contiguous backups from index 0, within the window
		// (this loop follows the same existence facts as the code; nothing below
		// branches on the folders beyond the first gap, whose existence stays arbitrary)
		k := 0
		for k < keep && exists[k] {
			k++
		}
		wantExists := make([]bool, slots)
		wantIDs := make([]int, slots)
		copy(wantExists, exists)
		copy(wantIDs, ids)
		top := k // index that receives the oldest surviving backup
		if k >= keep {
			top = keep - 1 // the oldest in a full window is discarded
		}
		for i := top; i >= 1; i-- {
			wantExists[i], wantIDs[i] = true, ids[i-1]
		}
		wantExists[0], wantIDs[0] = true, dataID
		vrf_assert(!vrfExists(data), "C14.rotate.data-moved")
		vrf_assert(vrf_and(vrfExists(name(0)), vrfID(name(0)) == dataID), "C14.rotate.newest-is-data")
		after := make([]bool, slots)
		afterID := make([]int, slots)
		inWindow := 0
		for i := 0; i < slots; i++ {
			after[i], afterID[i] = vrfExists(name(i)), vrfID(name(i))
			vrf_assert(after[i] == wantExists[i], "C14.rotate.shift-by-one")
			vrf_assert(vrf_implies(wantExists[i], afterID[i] == wantIDs[i]), "C14.rotate.shift-by-one")
			if i < keep {
				inWindow = vrf_ite_int(after[i], inWindow+1, inWindow)
			}
		}
		vrf_assert(inWindow <= keep, "C14.rotate.at-most-keep")
		// only the oldest of a full window may disappear
		for i := 0; i < slots; i++ {
			survived := false
			for j := 0; j < slots; j++ {
				survived = vrf_or(survived, vrf_and(after[j], afterID[j] == ids[i]))
			}
			vrf_assert(vrf_implies(exists[i], vrf_or(survived, k >= keep && i == keep-1)), "C14.rotate.only-oldest-dropped")
		}
		copy(exists, after)
		copy(ids, afterID)
	}
	vrf_reach("C14.rotate.end")
}
