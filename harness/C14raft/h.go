package raft

import (
	"fmt"
	"path/filepath"
)

var vrfEntries = map[string]func(){"VrfC14Rotate": VrfC14Rotate}

// VrfC14Rotate: cleaning Raft data keeps it recoverable as the newest of at
// most N rotated backups; older ones shift by one; only the oldest is dropped.
func VrfC14Rotate() {
	keep := 1 + vrf_choice("keep_minus_1", vrf_param("max_keep"))
	cleans := vrf_param("cleans")
	base := vrfTempDir()
	defer vrfCleanup(base)
	data := filepath.Join(base, "raft")
	dbh := newDataBackupHelper(data, keep)
	slots := keep + 2 // also folders beyond the retention window
	name := func(i int) string { return filepath.Join(base, fmt.Sprintf("raft.old.%d", i)) }
	exists := make([]bool, slots)
	ids := make([]int, slots)
	for i := 0; i < slots; i++ {
		exists[i] = vrf_nondet_bool("backup_exists")
		ids[i] = 100 + i
		vrfPutDir(name(i), exists[i], ids[i])
	}
	nextID := 1
	for c := 0; c < cleans; c++ {
		haveData := vrf_nondet_bool("data_folder_exists")
		vrfPutDir(data, haveData, nextID)
		dataID := nextID
		nextID++
		err := dbh.makeBackup()
		vrf_assert(err == nil, "C14.rotate.no-error")
		if !haveData {
			for i := 0; i < slots; i++ {
				vrf_assert(vrfExists(name(i)) == exists[i], "C14.rotate.nothing-to-backup-unchanged")
			}
			continue
		}
		// expected state: k = contiguous backups from index 0, within the window
		k := 0
		for k < keep && exists[k] {
			k++
		}
		wantExists := make([]bool, slots)
		wantIDs := make([]int, slots)
		copy(wantExists, exists)
		copy(wantIDs, ids)
		top := k // index that receives the oldest surviving backup
		if k >= keep {
			top = keep - 1 // the oldest in a full window is discarded
		}
		for i := top; i >= 1; i-- {
			wantExists[i], wantIDs[i] = true, ids[i-1]
		}
		wantExists[0], wantIDs[0] = true, dataID
		vrf_assert(!vrfExists(data), "C14.rotate.data-moved")
		vrf_assert(vrfExists(name(0)) && vrfID(name(0)) == dataID, "C14.rotate.newest-is-data")
		inWindow := 0
		for i := 0; i < slots; i++ {
			vrf_assert(vrfExists(name(i)) == wantExists[i], "C14.rotate.shift-by-one")
			if wantExists[i] {
				vrf_assert(vrfID(name(i)) == wantIDs[i], "C14.rotate.shift-by-one")
			}
			if i < keep && vrfExists(name(i)) {
				inWindow++
			}
		}
		vrf_assert(inWindow <= keep, "C14.rotate.at-most-keep")
		// only the oldest of a full window may disappear
		for i := 0; i < slots; i++ {
			if !exists[i] {
				continue
			}
			survived := false
			for j := 0; j < slots; j++ {
				if vrfExists(name(j)) && vrfID(name(j)) == ids[i] {
					survived = true
				}
			}
			vrf_assert(survived || (k >= keep && i == keep-1), "C14.rotate.only-oldest-dropped")
		}
		for i := 0; i < slots; i++ {
			exists[i] = vrfExists(name(i))
			if exists[i] {
				ids[i] = vrfID(name(i))
			}
		}
	}
	vrf_reach("C14.rotate.end")
}
