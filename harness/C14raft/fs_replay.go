package raft

import (
	"os"
	"path/filepath"
	"strconv"
)

func vrfTempDir() string {
	d, err := os.MkdirTemp("", "vrfc14")
	if err != nil {
		panic(err)
	}
	return d
}
func vrfCleanup(d string) { os.RemoveAll(d) }
func vrfPutDir(path string, exists bool, id int) {
	os.RemoveAll(path)
	if exists {
		os.MkdirAll(path, 0o700)
		os.WriteFile(filepath.Join(path, "id"), []byte(strconv.Itoa(id)), 0o600)
	}
}
func vrfExists(path string) bool { _, err := os.Stat(path); return err == nil }
func vrfID(path string) int {
	b, err := os.ReadFile(filepath.Join(path, "id"))
	if err != nil {
		return -1
	}
	v, _ := strconv.Atoi(string(b))
	return v
}
