package ipfscluster

import (
	"context"
	"time"

	"github.com/ipfs/ipfs-cluster/api"

	peer "github.com/libp2p/go-libp2p-core/peer"
)

var vrfEntries = map[string]func(){
	"VrfC10Closest": VrfC10Closest,
	"VrfC10Repin":   VrfC10Repin,
	"VrfC10Candidates": VrfC10Candidates,
	"VrfC10Expiry":  VrfC10Expiry,
}

// VrfC10Closest: for any CID and any peerset whose members agree on it, exactly
// one surviving member considers itself the closest (the one that acts).
func VrfC10Closest() {
	n := vrf_param("survivors")
	members := vrfPeerNames[:n]
	ci := vrfCid(0)
	closest := 0
	for i := 0; i < n; i++ {
		var others []peer.ID
		for j := 0; j < n; j++ {
			if j != i {
				others = append(others, members[j])
			}
		}
		dc := &distanceChecker{local: members[i], otherPeers: others, cache: map[peer.ID]distance{}}
		if dc.isClosest(ci) {
			closest++
		}
	}
	vrf_assert(closest == 1, "C10.closest.exactly-one")
	vrf_reach("C10.closest.end")
}

type vrfAlertMonitor struct {
	*vrfMonitor
	alerts chan *api.Alert
}

func (m *vrfAlertMonitor) Alerts() <-chan *api.Alert { return m.alerts }

// VrfC10Repin: one alert (or one peer removal) against one stored pin.
func VrfC10Repin() {
	n := vrf_param("peers") // survivors' metric universe: vrfPeerNames[0..n), the failed peer is the last one
	now := vrf_now()
	failed := vrfPeerNames[n-1]
	cons := &vrfConsensus{}
	base := vrfSymbolicMonitor(n, "freespace")
	mon := &vrfAlertMonitor{vrfMonitor: base, alerts: make(chan *api.Alert, 4)}
	c := vrfNewCluster(n, cons, base)
	c.monitor = mon
	c.id = peer.ID("self")
	ctx, cancel := contextWithCancel()
	c.ctx, c.cancel = ctx, cancel
	cons.peers = append([]peer.ID{c.id}, vrfPeerNames[:n]...)
	if vrf_param("trusted_others") == 1 {
		cons.trustAll = true // the other members take part in the "who is closest" decision
	}
	c.config.DisableRepinning = vrf_nondet_bool("repinning_disabled")
	// the stored pin
	stored := vrfExistingPin(vrfCid(0), now, n)
	// the kinds of pin a peer can hold: plain data, a shard of a sharded add
	// (depth 1, may reference the previous shard) and the cluster-DAG root of
	// one (direct, references its meta pin). Meta pins have no holders.
	// "kinds" = 0 restricts the entry to plain data pins without an update source
	// (used for the larger peer universe, where the kinds add nothing new)
	kinds := vrf_param("kinds")
	pinType := 0
	if kinds == 1 {
		pinType = vrf_choice("pin_type", 3)
	}
	switch pinType {
	case 0:
		stored.Type = api.DataType
	case 1:
		stored.Type = api.ShardType
		stored.Mode, stored.MaxDepth = api.PinModeRecursive, 1
		if vrf_choice("shard_has_reference", 2) == 1 {
			ref := vrfCid(2)
			stored.Reference = &ref
		}
	case 2:
		stored.Type = api.ClusterDAGType
		stored.Mode, stored.MaxDepth = api.PinModeDirect, 0
		ref := vrfCid(2)
		stored.Reference = &ref
	}
	vrf_note_int("pin_type", int(stored.Type))
	if kinds == 1 && vrf_choice("created_by_pin_update", 2) == 1 {
		stored.PinUpdate = vrfCid(1)
		if vrf_choice("update_source_still_pinned", 2) == 1 {
			src := api.PinCid(vrfCid(1))
			src.ReplicationFactorMin, src.ReplicationFactorMax = 1, 1
			src.Allocations = []peer.ID{vrfPeerNames[0]} // not held by the failed peer
			cons.pins = append(cons.pins, src)
		}
	}
	vrf_note_bool("has_update_source", stored.PinUpdate.Defined())
	cons.pins = append(cons.pins, vrfCopyPin(stored))
	held := vrfHasPeer(stored.Allocations, failed)

	viaRemoval := vrf_choice("peer_removed_instead_of_alert", 2) == 1
	alertName := []string{pingMetricName, "freespace"}[vrf_choice("alert_metric", 2)]
	if viaRemoval {
		c.PeerRemove(c.ctx, failed)
	} else {
		go c.alertsHandler()
		vrf_yield()
		mon.alerts <- &api.Alert{Metric: api.Metric{Name: alertName, Peer: failed}, TriggeredAt: time.Now()}
		vrf_yield()
		cancel()
		vrf_yield()
	}

	active := !c.config.DisableRepinning && !c.config.FollowerMode && (viaRemoval || alertName == pingMetricName)
	if vrf_param("trusted_others") == 1 && !viaRemoval {
		// every member sees the alert: the one that acts is the survivor whose
		// hash is closest to the CID - the failed peer itself does not count
		var others []peer.ID
		for _, p := range cons.peers {
			if p != c.id && p != failed {
				others = append(others, p)
			}
		}
		dc := &distanceChecker{local: c.id, otherPeers: others, cache: map[peer.ID]distance{}}
		closest := dc.isClosest(stored.Cid)
		vrf_note_bool("self_is_closest_survivor", closest)
		active = active && closest
	}
	for _, e := range cons.log {
		vrf_assert(!e.unpin, "C10.repin.never-unpins")
		vrf_assert(e.pin.Cid.Equals(stored.Cid), "C10.repin.only-pins-of-the-failed-peer")
	}
	if i := cons.find(vrfCid(0)); true {
		vrf_assert(i >= 0, "C10.repin.pin-never-dropped")
	}
	if !active || !held {
		vrf_assert(len(cons.log) == 0, "C10.repin.only-when-enabled-and-held")
		vrf_reach("C10.repin.end-untouched")
		return
	}
	vrf_assert(len(cons.log) <= 1, "C10.repin.at-most-once")
	// healthy holders that remain once the failed peer is excluded
	remaining := 0
	for i := 0; i < n-1; i++ {
		if vrfHasPeer(stored.Allocations, vrfPeerNames[i]) {
			remaining = vrf_ite_int(base.states[i].healthy, remaining+1, remaining)
		}
	}
	under := stored.ReplicationFactorMin > 0 && remaining < stored.ReplicationFactorMin
	vrf_note_bool("under_replicated", under)
	if len(cons.log) == 1 {
		got := cons.log[0].pin
		vrf_assert(got.Cid.Equals(stored.Cid), "C10.repin.same-cid")
		// every option is preserved
		vrf_assert(vrf_and(got.Name == stored.Name, vrf_and(got.Mode == stored.Mode, got.MaxDepth == stored.MaxDepth)), "C10.repin.options-preserved")
		vrf_assert(vrf_and(got.ReplicationFactorMin == stored.ReplicationFactorMin, got.ReplicationFactorMax == stored.ReplicationFactorMax), "C10.repin.options-preserved")
		vrf_assert(got.ExpireAt.Equal(stored.ExpireAt) && vrfMetaEqual(got.Metadata, stored.Metadata) && got.Type == stored.Type, "C10.repin.options-preserved")
		vrf_assert((got.Reference == nil) == (stored.Reference == nil) && (got.Reference == nil || got.Reference.Equals(*stored.Reference)), "C10.repin.options-preserved")
		if under {
			// re-homed: only healthy peers other than the failed one are added
			for _, a := range got.Allocations {
				vrf_assert(a != failed || !under, "C10.repin.excludes-failed")
				idx := vrfIndexOf(vrfPeerNames[:n], a)
				if idx >= 0 && !vrfHasPeer(stored.Allocations, a) {
					vrf_assert(base.states[idx].healthy, "C10.repin.added-healthy")
				}
			}
		} else {
			vrf_assert(vrfPeersEqual(got.Allocations, stored.Allocations), "C10.repin.enough-holders-untouched")
		}
	} else {
		// nothing logged: legitimate only when re-allocation was impossible or
		// unnecessary. It is possible when the healthy holders that remain plus the
		// healthy survivors with a usable metric reach the minimum.
		cands := 0
		for i := 0; i < n-1; i++ {
			if !vrfHasPeer(stored.Allocations, vrfPeerNames[i]) {
				cands = vrf_ite_int(vrf_and(base.states[i].healthy, base.states[i].numeric), cands+1, cands)
			}
		}
		// (a pin whose expiry has passed is not re-homed: the state sync is about to unpin it)
		expired := vrf_and(!stored.ExpireAt.IsZero(), stored.ExpireAt.UnixNano() < now)
		vrf_note_bool("already_expired", expired)
		vrf_assert(!vrf_and(vrf_and(under, !expired), remaining+cands >= stored.ReplicationFactorMin), "C10.repin.rehomed-when-possible")
		vrf_reach("C10.repin.end-not-logged")
	}
	vrf_reach("C10.repin.end-active")
}

// VrfC10Expiry: the periodic state sync unpins exactly the expired pins.
func VrfC10Expiry() {
	n := vrf_param("peers")
	now := vrf_now()
	cons := &vrfConsensus{}
	c := vrfNewCluster(n, cons, vrfSymbolicMonitor(n, "freespace"))
	c.id = peer.ID("self")
	cons.peers = []peer.ID{c.id}
	pin := api.PinCid(vrfCid(0))
	pin.ReplicationFactorMin, pin.ReplicationFactorMax = -1, -1
	hasExpiry := vrf_choice("has_expiry", 2) == 1
	expired := false
	if hasExpiry {
		delta := vrf_nondet_int64("expire_minus_now")
		vrf_assume(vrf_or(delta <= -vrfSecond, delta >= vrfSecond))
		vrf_assume(vrf_and(delta > -vrfSecond*1000000, delta < vrfSecond*1000000))
		pin.ExpireAt = time.Unix(0, now+delta)
		expired = delta < 0
	}
	other := api.PinCid(vrfCid(1)) // never expires
	other.ReplicationFactorMin, other.ReplicationFactorMax = -1, -1
	// optionally an expired entry that cannot be unpinned directly (a shard of a
	// sharded add made with an expiry): the sweep must go on past it
	stuck := vrf_choice("expired_shard_entry", 3) // 0 none, 1 listed first, 2 listed last
	shard := api.PinCid(vrfCid(2))
	shard.Type, shard.MaxDepth = api.ShardType, 1
	shard.ReplicationFactorMin, shard.ReplicationFactorMax = -1, -1
	shard.ExpireAt = time.Unix(0, now-3600*vrfSecond)
	switch stuck {
	case 1:
		cons.pins = append(cons.pins, shard, vrfCopyPin(pin), other)
	case 2:
		cons.pins = append(cons.pins, vrfCopyPin(pin), other, shard)
	default:
		cons.pins = append(cons.pins, vrfCopyPin(pin), other)
	}
	err := c.StateSync(c.ctx)
	if stuck == 0 {
		vrf_assert(err == nil, "C10.expiry.no-error")
	}
	unpins := 0
	for _, e := range cons.log {
		vrf_assert(e.unpin && e.pin.Cid.Equals(pin.Cid), "C10.expiry.only-the-expired-pin")
		unpins++
	}
	want := vrf_and(expired, !c.config.FollowerMode)
	vrf_assert((unpins == 1) == want, "C10.expiry.exactly-expired")
	vrf_assert(unpins <= 1, "C10.expiry.once")
	vrf_reach("C10.expiry.end")
}

// VrfC10Candidates: who takes part in the "exactly one peer acts" partition.
// The distance comparison runs over the members this peer trusts, without
// itself and without the failed peer - an untrusted member (a follower, a peer
// whose updates the others discard) must never be a candidate, or a pin that
// hashes closest to it would be handled by nobody.
func VrfC10Candidates() {
	cons := &vrfConsensus{trusted: map[peer.ID]bool{}}
	c := &Cluster{ctx: context.Background(), id: peer.ID("self"), config: &Config{}, consensus: cons}
	members := []peer.ID{c.id, "pA", "pB", "pC"}
	cons.peers = members
	cons.trusted[c.id] = true
	for _, p := range members[1:] {
		cons.trusted[p] = vrf_nondet_bool("trusted")
	}
	exclude := []peer.ID{"", "pA", "pC", "stranger"}[vrf_choice("failed_peer", 4)]
	dc, err := c.distances(c.ctx, exclude)
	vrf_assert(err == nil && dc != nil, "C10.candidates.ok")
	if dc == nil {
		return
	}
	vrf_assert(dc.local == c.id, "C10.candidates.local-is-self")
	for _, p := range members[1:] {
		in := vrfIndexOf(dc.otherPeers, p) >= 0
		want := vrf_and(cons.trusted[p], p != exclude)
		vrf_assert(in == want, "C10.candidates.trusted-survivors-only")
	}
	vrf_assert(vrfIndexOf(dc.otherPeers, c.id) < 0, "C10.candidates.not-self")
	for i, p := range dc.otherPeers {
		vrf_assert(vrfIndexOf(members, p) >= 0, "C10.candidates.members-only")
		for j := i + 1; j < len(dc.otherPeers); j++ {
			vrf_assert(dc.otherPeers[j] != p, "C10.candidates.no-duplicate")
		}
	}
	vrf_reach("C10.candidates.end")
}
