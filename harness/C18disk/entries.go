package disk

var vrfEntries = map[string]func(){"VrfC18Informer": VrfC18Informer}
