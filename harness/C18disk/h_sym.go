package disk

import (
	"context"

	"github.com/ipfs/ipfs-cluster/api"

	rpc "github.com/libp2p/go-libp2p-gorpc"
)

type vrfIPFSSvc struct{}

func (vrfIPFSSvc) RepoStat(ctx context.Context, in struct{}, out *api.IPFSRepoStat) error {
	*out = api.IPFSRepoStat{RepoSize: 10, StorageMax: 100}
	return nil
}

// VrfC18Informer: GetMetric while another goroutine shuts the informer down
// (Shutdown sets rpcClient to nil; nothing synchronises the two).
func VrfC18Informer() {
	cfg := &Config{}
	cfg.Default()
	inf, err := NewInformer(cfg)
	vrf_assert(err == nil, "C18.informer.new")
	srv := rpc.NewServer(nil, "vrf")
	srv.RegisterName("IPFSConnector", vrfIPFSSvc{})
	client := rpc.NewClientWithServer(nil, "vrf", srv)
	inf.SetClient(client)
	// guarantee: rpcClient is only touched under the informer's mutex;
	// rely: whenever the mutex is acquired another goroutine may have shut it down
	vrf_protect(&inf.rpcClient, &inf.mu, "C18.informer")
	vrf_interference(&inf.mu, func() {
		if vrf_choice("shutdown_by_other_goroutine", 2) == 1 {
			inf.rpcClient = nil
		}
	})
	m := inf.GetMetric(context.Background())
	vrf_assert(m != nil, "C18.informer.metric-returned")
	vrf_reach("C18.informer.end")
}
