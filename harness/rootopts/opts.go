package ipfscluster

import (
	"context"
	"time"

	"github.com/ipfs/ipfs-cluster/allocator/descendalloc"
	"github.com/ipfs/ipfs-cluster/api"

	cid "github.com/ipfs/go-cid"
	peer "github.com/libp2p/go-libp2p-core/peer"
	multiaddr "github.com/multiformats/go-multiaddr"
)

var vrfMetaKeys = []string{"k1", "k2"}

// vrfFactorsValid is the documented validity rule for a replication-factor
// pair, written without control flow: both -1, or 1 <= min <= max.
func vrfFactorsValid(min, max int) bool {
	return vrf_or(vrf_and(min == -1, max == -1), vrf_and(min >= 1, max >= min))
}

// vrfSymbolicOptions draws pin options from: any name, both modes, any valid
// or unset factor pair (or any pair at all when anyFactors), a zero or arbitrary
// expiry (>= 1 s away from now), metadata over two fixed non-empty keys with
// arbitrary values, user allocations a subset of the first two peers.
func vrfSymbolicOptions(now int64, anyFactors bool) api.PinOptions {
	var o api.PinOptions
	o.Name = vrf_nondet_string("name")
	mode := vrf_nondet_int("mode")
	vrf_assume(vrf_or(mode == 0, mode == 1))
	o.Mode = api.PinMode(mode)
	o.ReplicationFactorMin = vrf_nondet_int("rmin")
	o.ReplicationFactorMax = vrf_nondet_int("rmax")
	if !anyFactors {
		unset := vrf_and(o.ReplicationFactorMin == 0, o.ReplicationFactorMax == 0)
		vrf_assume(vrf_or(unset, vrfFactorsValid(o.ReplicationFactorMin, o.ReplicationFactorMax)))
	}
	if vrf_param("expiry") == 1 && vrf_choice("has_expiry", 2) == 1 {
		delta := vrf_nondet_int64("expire_minus_now")
		vrf_assume(vrf_or(delta <= -vrfSecond, delta >= vrfSecond))
		vrf_assume(vrf_and(delta > -vrfSecond*1000000, delta < vrfSecond*1000000))
		o.ExpireAt = time.Unix(0, now+delta)
	}
	for _, k := range vrfMetaKeys[:vrf_param("meta_keys")] {
		if vrf_choice("has_meta_"+k, 2) == 1 {
			if o.Metadata == nil {
				o.Metadata = map[string]string{}
			}
			o.Metadata[k] = vrf_nondet_string("meta_" + k)
		}
	}
	for i := 0; i < vrf_param("origins"); i++ {
		if vrf_choice("has_origin", 2) == 1 {
			o.Origins = append(o.Origins, vrfOrigin(i))
		}
	}
	if vrf_param("user_allocs") == 1 {
		for i := 0; i < 2; i++ {
			if vrf_choice("user_alloc", 2) == 1 {
				o.UserAllocations = append(o.UserAllocations, vrfPeerNames[i])
			}
		}
	}
	return o
}

var vrfOriginStrs = []string{
	"/ip4/1.2.3.4/tcp/4001/p2p/QmZHKZDavkvNfA9gSAg7HALv8jF7BJaKjUc9U2LSuvUySB",
	"/dns4/example.org/tcp/4001/p2p/QmP63DkAFEnDYNjDYBpyNDfttu1fvUw99x1brscPzpqmmq",
}

// vrfMaddr is a minimal multiaddr.Multiaddr: an origin is identified by its text
type vrfMaddr struct{ s string }

func (a *vrfMaddr) MarshalJSON() ([]byte, error)     { return []byte(`"` + a.s + `"`), nil }
func (a *vrfMaddr) UnmarshalJSON([]byte) error        { return nil }
func (a *vrfMaddr) MarshalText() ([]byte, error)      { return []byte(a.s), nil }
func (a *vrfMaddr) UnmarshalText([]byte) error        { return nil }
func (a *vrfMaddr) MarshalBinary() ([]byte, error)    { return []byte(a.s), nil }
func (a *vrfMaddr) UnmarshalBinary([]byte) error      { return nil }
func (a *vrfMaddr) Equal(b multiaddr.Multiaddr) bool  { return b != nil && a.s == b.String() }
func (a *vrfMaddr) Bytes() []byte                     { return []byte(a.s) }
func (a *vrfMaddr) String() string                    { return a.s }
func (a *vrfMaddr) Protocols() []multiaddr.Protocol   { return nil }
func (a *vrfMaddr) Encapsulate(multiaddr.Multiaddr) multiaddr.Multiaddr { return a }
func (a *vrfMaddr) Decapsulate(multiaddr.Multiaddr) multiaddr.Multiaddr { return a }
func (a *vrfMaddr) ValueForProtocol(int) (string, error) { return "", nil }

func vrfOrigin(i int) multiaddr.Multiaddr { return &vrfMaddr{vrfOriginStrs[i]} }

func vrfOriginsEqual(a, b []multiaddr.Multiaddr) bool {
	if len(a) != len(b) {
		return false
	}
	for i := range a {
		if !a[i].Equal(b[i]) {
			return false
		}
	}
	return true
}

func vrfMetaEqual(a, b map[string]string) bool {
	for _, k := range vrfMetaKeys {
		va, oka := a[k]
		vb, okb := b[k]
		if oka != okb {
			return false
		}
		if oka && va != vb {
			return false
		}
	}
	return true
}

func vrfPeersEqual(a, b []peer.ID) bool {
	if len(a) != len(b) {
		return false
	}
	for i := range a {
		if a[i] != b[i] {
			return false
		}
	}
	return true
}

func vrfNewCluster(n int, cons *vrfConsensus, mon *vrfMonitor) *Cluster {
	cfg := &Config{}
	cfg.ReplicationFactorMin = vrf_nondet_int("default_rmin")
	cfg.ReplicationFactorMax = vrf_nondet_int("default_rmax")
	// the configuration is validated at start-up (Config.Validate)
	vrf_assume(vrfFactorsValid(cfg.ReplicationFactorMin, cfg.ReplicationFactorMax))
	cfg.FollowerMode = vrf_nondet_bool("follower")
	return &Cluster{ctx: context.Background(), config: cfg, monitor: mon, consensus: cons,
		ipfs: &vrfIPFS{}, allocator: descendalloc.NewAllocator(), informers: []Informer{&vrfInformer{"freespace"}}}
}

// vrfExistingPin builds an arbitrary well-formed stored pin for ci.
func vrfExistingPin(ci cid.Cid, now int64, n int) *api.Pin {
	p := api.PinWithOpts(ci, vrfSymbolicOptions(now, false))
	t := vrf_nondet_uint64("existing_type")
	vrf_assume(vrf_or(vrf_or(t == uint64(api.DataType), t == uint64(api.MetaType)), vrf_or(t == uint64(api.ShardType), t == uint64(api.ClusterDAGType))))
	p.Type = api.PinType(t)
	// stored pins always carry effective factors
	vrf_assume(vrfFactorsValid(p.ReplicationFactorMin, p.ReplicationFactorMax))
	p.UserAllocations = nil // transient, never stored
	if p.ReplicationFactorMin > 0 {
		for i := 0; i < n; i++ {
			if vrf_choice("existing_alloc", 2) == 1 {
				p.Allocations = append(p.Allocations, vrfPeerNames[i])
			}
		}
		// representation invariant of stored pins: min <= #allocations <= max
		vrf_assume(vrf_and(p.ReplicationFactorMin <= len(p.Allocations), len(p.Allocations) <= p.ReplicationFactorMax))
	}
	return p
}


func contextWithCancel() (context.Context, func()) {
	return context.WithCancel(context.Background())
}
