package pstoremgr

import (
	ma "github.com/multiformats/go-multiaddr"
)

var vrfEntries = map[string]func(){"VrfDevMA": VrfDevMA}

func VrfDevMA() {
	a, err := ma.NewMultiaddr("/ip4/1.2.3.4/tcp/9096/p2p/QmUaFyXjZUNaUwYF8rBtbJc7fEJ46aJXvgV8z2HHs6jvmJ")
	vrf_assert(err == nil, "dev.ok")
	vrf_assert(a.String() == "/ip4/1.2.3.4/tcp/9096/p2p/QmUaFyXjZUNaUwYF8rBtbJc7fEJ46aJXvgV8z2HHs6jvmJ", "dev.str")
	_, err = ma.NewMultiaddr("/ip4/999.2.3.4/tcp/1")
	vrf_assert(err != nil, "dev.bad")
	vrf_reach("dev.end")
}
