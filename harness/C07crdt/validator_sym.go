package crdt

import (
	"context"

	"github.com/ipfs/ipfs-cluster/pstoremgr"

	peer "github.com/libp2p/go-libp2p-core/peer"
	pubsub "github.com/libp2p/go-libp2p-pubsub"
	pubsub_pb "github.com/libp2p/go-libp2p-pubsub/pb"
)

func vrf_topic_validate(ctx context.Context, source peer.ID, msg *pubsub.Message) bool {
	panic("vrf intrinsic")
}

// VrfC07Validator: the validator that setup() registers for the pinset topic
// accepts a message iff its SIGNER is trusted - whoever forwarded it.
func VrfC07Validator() {
	h := &vrfHost{id: vrfTrustPeers[0], ps: &vrfPstore{}}
	cfg := &Config{ClusterName: "vrf"}
	cfg.TrustAll = vrf_nondet_bool("trust_all")
	ctx, cancel := context.WithCancel(context.Background())
	css := &Consensus{ctx: ctx, cancel: cancel, config: cfg, host: h, rpcReady: make(chan struct{}, 1),
		pubsub: &pubsub.PubSub{}}
	css.peerManager = pstoremgr.New(ctx, h, "")
	// the configured list: any subset of the other peers, in order, with this
	// peer's own ID nowhere, first, in the middle or last (a cluster-wide shared
	// list names every member) - setup() does the trusting
	trusted := make([]bool, len(vrfTrustPeers))
	selfAt := vrf_choice("own_id_in_the_list", 4) // 0: not listed, 1: first, 2: after the first other peer, 3: last
	if selfAt == 1 {
		cfg.TrustedPeers = append(cfg.TrustedPeers, vrfTrustPeers[0])
	}
	for i := 1; i < len(vrfTrustPeers); i++ {
		if vrf_choice("configured", 2) == 1 {
			cfg.TrustedPeers = append(cfg.TrustedPeers, vrfTrustPeers[i])
			trusted[i] = true
		}
		if selfAt == 2 && i == 1 {
			cfg.TrustedPeers = append(cfg.TrustedPeers, vrfTrustPeers[0])
		}
	}
	if selfAt == 3 {
		cfg.TrustedPeers = append(cfg.TrustedPeers, vrfTrustPeers[0])
	}
	css.rpcReady <- struct{}{}
	css.setup() // registers the validator, then stops at the (unmodelled) broadcaster
	signer := vrf_choice("signer", len(vrfTrustPeers))
	source := vrf_choice("forwarded_by", len(vrfTrustPeers))
	msg := &pubsub.Message{Message: &pubsub_pb.Message{From: []byte(vrfTrustPeers[signer])}, ReceivedFrom: vrfTrustPeers[source]}
	ok := vrf_topic_validate(ctx, vrfTrustPeers[source], msg)
	vrf_note_int("signer", signer)
	vrf_note_int("forwarded_by", source)
	vrf_assert(ok == vrf_or(cfg.TrustAll, vrf_or(signer == 0, trusted[signer])), "C07.validator.iff-signer-trusted")
	for i, p := range vrfTrustPeers {
		vrf_assert(css.IsTrustedPeer(ctx, p) == vrf_or(cfg.TrustAll, vrf_or(i == 0, trusted[i])), "C07.validator.setup-trusts-the-configured-peers")
	}
	vrf_reach("C07.validator.end")
}
