package crdt

import (
	"context"

	peer "github.com/libp2p/go-libp2p-core/peer"
	pubsub "github.com/libp2p/go-libp2p-pubsub"
	pubsub_pb "github.com/libp2p/go-libp2p-pubsub/pb"
)

func vrf_topic_validate(ctx context.Context, source peer.ID, msg *pubsub.Message) bool {
	panic("vrf intrinsic")
}

// VrfC07Validator: the validator that setup() registers for the pinset topic
// accepts a message iff its SIGNER is trusted - whoever forwarded it.
func VrfC07Validator() {
	h := &vrfHost{id: vrfTrustPeers[0], ps: &vrfPstore{}}
	cfg := &Config{ClusterName: "vrf"}
	cfg.TrustAll = vrf_nondet_bool("trust_all")
	ctx, cancel := context.WithCancel(context.Background())
	css := &Consensus{ctx: ctx, cancel: cancel, config: cfg, host: h, rpcReady: make(chan struct{}, 1),
		pubsub: &pubsub.PubSub{}}
	css.peerManager = nil
	trusted := make([]bool, len(vrfTrustPeers))
	for i := 1; i < len(vrfTrustPeers); i++ {
		if vrf_choice("configured", 2) == 1 {
			// (what Trust() does, without the libp2p peerstore side effects)
			css.trustedPeers.Store(vrfTrustPeers[i], struct{}{})
			trusted[i] = true
		}
	}
	css.rpcReady <- struct{}{}
	css.setup() // registers the validator, then stops at the (unmodelled) broadcaster
	signer := vrf_choice("signer", len(vrfTrustPeers))
	source := vrf_choice("forwarded_by", len(vrfTrustPeers))
	msg := &pubsub.Message{Message: &pubsub_pb.Message{From: []byte(vrfTrustPeers[signer])}, ReceivedFrom: vrfTrustPeers[source]}
	ok := vrf_topic_validate(ctx, vrfTrustPeers[source], msg)
	vrf_note_int("signer", signer)
	vrf_note_int("forwarded_by", source)
	vrf_assert(ok == vrf_or(cfg.TrustAll, vrf_or(signer == 0, trusted[signer])), "C07.validator.iff-signer-trusted")
	vrf_reach("C07.validator.end")
}
