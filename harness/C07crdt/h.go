package crdt

import (
	"context"
	"time"

	"github.com/ipfs/ipfs-cluster/pstoremgr"

	connmgr "github.com/libp2p/go-libp2p-core/connmgr"
	host "github.com/libp2p/go-libp2p-core/host"
	peer "github.com/libp2p/go-libp2p-core/peer"
	peerstore "github.com/libp2p/go-libp2p-core/peerstore"
	ma "github.com/multiformats/go-multiaddr"
)

var vrfEntries = map[string]func(){
	"VrfC07Trust":     VrfC07Trust,
	"VrfC07Validator": VrfC07Validator,
}

// minimal libp2p host: only what Trust()/IsTrustedPeer() touch
type vrfPstore struct {
	peerstore.Peerstore
}

func (p *vrfPstore) Addrs(peer.ID) []ma.Multiaddr                        { return nil }
func (p *vrfPstore) SetAddrs(peer.ID, []ma.Multiaddr, time.Duration)     {}
func (p *vrfPstore) Put(peer.ID, string, interface{}) error              { return nil }

type vrfHost struct {
	host.Host
	id peer.ID
	ps *vrfPstore
	cm *vrfConnMgr
}

func (h *vrfHost) ID() peer.ID                     { return h.id }
func (h *vrfHost) Peerstore() peerstore.Peerstore  { return h.ps }
func (h *vrfHost) ConnManager() connmgr.ConnManager {
	if h.cm == nil {
		return nil
	}
	return h.cm
}

// vrfConnMgr: the host's connection manager. Other subsystems (pubsub mesh,
// DHT) protect peers under their own tags, so whether a peer stays protected
// after Unprotect is the environment's answer, not the consensus component's.
type vrfConnMgr struct {
	connmgr.ConnManager
}

func (c *vrfConnMgr) Protect(peer.ID, string)             {}
func (c *vrfConnMgr) Unprotect(peer.ID, string) bool      { return vrf_nondet_bool("still_protected_under_another_tag") }
func (c *vrfConnMgr) IsProtected(peer.ID, string) bool    { return vrf_nondet_bool("is_protected") }
func (c *vrfConnMgr) TagPeer(peer.ID, string, int)        {}
func (c *vrfConnMgr) UntagPeer(peer.ID, string)           {}

var vrfTrustPeers = []peer.ID{"self", "pA", "pB", "pC"}

// VrfC07Trust: trust follows the configuration (explicit list, empty list,
// trust-all) and later Trust/Distrust calls.
func VrfC07Trust() {
	h := &vrfHost{id: vrfTrustPeers[0], ps: &vrfPstore{}}
	if vrf_choice("has_connection_manager", 2) == 1 {
		h.cm = &vrfConnMgr{}
	}
	cfg := &Config{}
	cfg.TrustAll = vrf_nondet_bool("trust_all")
	css := &Consensus{ctx: context.Background(), config: cfg, host: h, peerManager: pstoremgr.New(context.Background(), h, "")}
	want := make([]bool, len(vrfTrustPeers))
	// configured list (what setup() does for css.config.TrustedPeers)
	for i := 1; i < len(vrfTrustPeers); i++ {
		if vrf_choice("configured", 2) == 1 {
			cfg.TrustedPeers = append(cfg.TrustedPeers, vrfTrustPeers[i])
		}
	}
	for _, p := range css.config.TrustedPeers {
		css.Trust(css.ctx, p)
	}
	for i := 1; i < len(vrfTrustPeers); i++ {
		for _, p := range cfg.TrustedPeers {
			if p == vrfTrustPeers[i] {
				want[i] = true
			}
		}
	}
	// later Trust / Distrust calls
	for s := 0; s < vrf_param("steps"); s++ {
		i := 1 + vrf_choice("peer", len(vrfTrustPeers)-1)
		if vrf_choice("distrust", 2) == 1 {
			vrf_assert(css.Distrust(css.ctx, vrfTrustPeers[i]) == nil, "C07.trust.no-error")
			want[i] = false
		} else {
			vrf_assert(css.Trust(css.ctx, vrfTrustPeers[i]) == nil, "C07.trust.no-error")
			want[i] = true
		}
	}
	for i, p := range vrfTrustPeers {
		got := css.IsTrustedPeer(css.ctx, p)
		vrf_assert(got == vrf_or(cfg.TrustAll, vrf_or(i == 0, want[i])), "C07.trust.iff-configured")
	}
	vrf_assert(css.IsTrustedPeer(css.ctx, peer.ID("never-seen")) == cfg.TrustAll, "C07.trust.stranger")
	vrf_reach("C07.trust.end")
}
