package crdt

// the topic validator is only reachable inside the symbolic executor
func VrfC07Validator() {}
