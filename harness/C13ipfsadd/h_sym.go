package ipfsadd

import (
	"context"
	"errors"
	"strings"

	cid "github.com/ipfs/go-cid"
	chunker "github.com/ipfs/go-ipfs-chunker"
	files "github.com/ipfs/go-ipfs-files"
	ipld "github.com/ipfs/go-ipld-format"
	dag "github.com/ipfs/go-merkledag"
	mfs "github.com/ipfs/go-mfs"
	ihelper "github.com/ipfs/go-unixfs/importer/helpers"
)

var vrfEntries = map[string]func(){"VrfC13CidBuilder": VrfC13CidBuilder}

// the destination of the blocks: records the nodes handed over
type vrfDagService struct {
	ipld.DAGService
	added []ipld.Node
}

func (d *vrfDagService) Add(ctx context.Context, n ipld.Node) error {
	d.added = append(d.added, n)
	return nil
}

// what the importer hands to the libraries that build the DAG (go-mfs for
// directories, the unixfs importer for file contents): the code of those
// libraries is outside the model, what they are GIVEN is the subject
var vrfRootNodes []*dag.ProtoNode
var vrfMkdirs []mfs.MkdirOpts
var vrfBuilders []*ihelper.DagBuilderParams
var vrfPut []ipld.Node

func vrfNewRoot(ctx context.Context, ds ipld.DAGService, node *dag.ProtoNode, pf mfs.PubFunc) (*mfs.Root, error) {
	vrfRootNodes = append(vrfRootNodes, node)
	return &mfs.Root{}, nil
}
func vrfMkdir(r *mfs.Root, pth string, opts mfs.MkdirOpts) error {
	vrfMkdirs = append(vrfMkdirs, opts)
	return nil
}
func vrfPutNode(r *mfs.Root, path string, nd ipld.Node) error {
	vrfPut = append(vrfPut, nd)
	return nil
}
func vrfNewFile(name string, node ipld.Node, parent interface{}, dserv ipld.DAGService) (*mfs.File, error) {
	return &mfs.File{}, nil
}
// the unixfs payload of a symbolic link (a protobuf message) is not the subject
func vrfSymlinkData(target string) ([]byte, error) { return []byte("symlink:" + target), nil }

func vrfParamsNew(dbp *ihelper.DagBuilderParams, spl chunker.Splitter) (*ihelper.DagBuilderHelper, error) {
	vrfBuilders = append(vrfBuilders, dbp)
	return nil, errors.New("file contents are outside this entry")
}

// VrfC13CidBuilder: whatever the importer creates itself or asks the DAG
// libraries to create - the MFS root, intermediate directories, symbolic-link
// nodes, the file-content builder - is created with the CID builder derived
// from the add parameters (CID version and hash function), so that the root is
// the one the standard importer computes for the same parameters.
func VrfC13CidBuilder() {
	var builder cid.Builder
	switch vrf_choice("cid_builder", 3) {
	case 0:
		builder = cid.V0Builder{}
	case 1:
		builder = cid.V1Builder{Codec: cid.DagProtobuf, MhType: 0x12}
	case 2:
		builder = cid.V1Builder{Codec: cid.DagProtobuf, MhType: 0xb220}
	}
	ds := &vrfDagService{}
	a := &Adder{ctx: context.Background(), dagService: ds, Silent: true, CidBuilder: builder, Chunker: ""}
	vrfRootNodes, vrfMkdirs, vrfBuilders, vrfPut = nil, nil, nil, nil
	path := []string{"link", "dir/link", "a/b/link"}[vrf_choice("path", 3)]
	var err error
	kind := vrf_choice("kind", 3)
	switch kind {
	case 0: // a symbolic link
		err = a.addSymlink(path, files.NewLinkFile("target.txt", nil).(*files.Symlink))
	case 1: // a directory
		err = a.addDir(path, files.NewSliceDirectory(nil), false)
	case 2: // a regular file: up to the hand-over to the content builder
		err = a.addFile(path, files.NewReaderFile(strings.NewReader("content")))
	}
	if kind == 2 {
		vrf_assert(err != nil && len(vrfBuilders) == 1, "C13.cidbuilder.content-builder-created")
	} else {
		vrf_assert(err == nil, "C13.cidbuilder.no-error")
	}
	for _, n := range ds.added {
		pn, ok := n.(*dag.ProtoNode)
		vrf_assert(ok && pn.CidBuilder() == builder, "C13.cidbuilder.own-nodes")
	}
	for _, n := range vrfPut {
		if pn, ok := n.(*dag.ProtoNode); ok {
			vrf_assert(pn.CidBuilder() == builder, "C13.cidbuilder.own-nodes")
		}
	}
	if kind == 0 {
		vrf_assert(len(ds.added) == 1 && len(vrfPut) == 1, "C13.cidbuilder.symlink-node-delivered")
	}
	for _, n := range vrfRootNodes {
		vrf_assert(n.CidBuilder() == builder, "C13.cidbuilder.mfs-root")
	}
	for _, o := range vrfMkdirs {
		vrf_assert(o.CidBuilder == builder, "C13.cidbuilder.directories")
	}
	for _, b := range vrfBuilders {
		vrf_assert(b.CidBuilder == builder, "C13.cidbuilder.file-contents")
	}
	vrf_assert(len(vrfRootNodes)+len(vrfMkdirs)+len(vrfBuilders)+len(ds.added) > 0, "C13.cidbuilder.something-built")
	vrf_reach("C13.cidbuilder.end")
}
