package ipfsadd

var vrfEntries = map[string]func(){"VrfC13CidBuilder": VrfC13CidBuilder}

// what the importer hands to go-mfs and the unixfs importer is only observable inside the symbolic executor
func VrfC13CidBuilder() {}
