package pstoremgr

func vrf_fs_put_file(path string, text string) { panic("vrf intrinsic") }

func vrfTempDir() string            { return "/vrf-tmp" }
func vrfCleanup(string)             {}
func vrfPutFile(path, text string)  { vrf_fs_put_file(path, text) }
