package pstoremgr

import (
	"context"
	"path/filepath"
	"strings"

	peer "github.com/libp2p/go-libp2p-core/peer"
	ma "github.com/multiformats/go-multiaddr"
)

var vrfEntries = map[string]func(){"VrfC14Peerstore": VrfC14Peerstore}

const vrfP1 = "QmUaFyXjZUNaUwYF8rBtbJc7fEJ46aJXvgV8z2HHs6jvmJ"
const vrfP2 = "QmbrCtydGyPeHiLURSPMqrvE5mCgMCwFYq3UD4XLCeAYw6"

// lines a peerstore file may contain
var vrfLines = []string{
	"/ip4/1.2.3.4/tcp/9096/p2p/" + vrfP1,
	"/dns4/cluster.example.org/tcp/9096/p2p/" + vrfP2,
	"/ip4/5.6.7.8/tcp/1/p2p/" + vrfP1,
	"",
	"# a comment",
	"not an address",
	"/ip4/999.1.1.1/tcp/9096",
	"/nosuchprotocol/1",
}

func vrfValid(i int) bool { return i <= 2 }

// VrfC14Peerstore: the peer-address file reads back as the parsed addresses
// in file order; unparsable lines are skipped (never a nil entry, never a crash).
func VrfC14Peerstore() {
	n := vrf_param("lines")
	dir := vrfTempDir()
	defer vrfCleanup(dir)
	path := filepath.Join(dir, "peerstore")
	var chosen []int
	var text []string
	for i := 0; i < n; i++ {
		k := vrf_choice("line", len(vrfLines))
		chosen = append(chosen, k)
		text = append(text, vrfLines[k])
	}
	vrfPutFile(path, strings.Join(text, "\n")+"\n")
	pm := New(context.Background(), nil, path)
	addrs := pm.LoadPeerstore()
	var want []string
	for _, k := range chosen {
		if vrfValid(k) {
			want = append(want, vrfLines[k])
		}
	}
	for _, a := range addrs {
		vrf_assert(a != nil, "C14.peerstore.no-nil")
	}
	vrf_assert(len(addrs) == len(want), "C14.peerstore.unparsable-skipped")
	if len(addrs) == len(want) {
		for i, a := range addrs {
			if a != nil {
				vrf_assert(a.String() == want[i], "C14.peerstore.parsed-in-order")
			}
		}
	}
	// save -> load keeps addresses and their order
	var infos []peer.AddrInfo
	var saved []string
	for _, a := range addrs {
		if a == nil {
			continue
		}
		pi, err := peer.AddrInfoFromP2pAddr(a)
		vrf_assert(err == nil, "C14.peerstore.addrinfo")
		if err == nil {
			infos = append(infos, *pi)
			saved = append(saved, a.String())
		}
	}
	path2 := filepath.Join(dir, "peerstore2")
	// the file may exist already, from an earlier run with more peers
	if vrf_choice("older_longer_file_exists", 2) == 1 {
		vrfPutFile(path2, strings.Join([]string{vrfLines[0], vrfLines[1], vrfLines[2], vrfLines[1]}, "\n")+"\n")
	}
	pm2 := New(context.Background(), nil, path2)
	vrf_assert(pm2.SavePeerstore(infos) == nil, "C14.peerstore.save-ok")
	back := pm2.LoadPeerstore()
	vrf_assert(len(back) == len(saved), "C14.peerstore.save-load")
	if len(back) == len(saved) {
		for i, a := range back {
			vrf_assert(a != nil && a.String() == saved[i], "C14.peerstore.save-load")
		}
	}
	vrf_reach("C14.peerstore.end")
}

var _ ma.Multiaddr
