package pstoremgr

import "os"

func vrfTempDir() string {
	d, err := os.MkdirTemp("", "vrfc14p")
	if err != nil {
		panic(err)
	}
	return d
}
func vrfCleanup(d string)          { os.RemoveAll(d) }
func vrfPutFile(path, text string) { os.WriteFile(path, []byte(text), 0o600) }
