package pubsubmon

import "time"

var vrfEntries = map[string]func(){"VrfC15Pubsubmon": VrfC15Pubsubmon, "VrfC15PubsubmonEnv": VrfC15PubsubmonEnv}

// VrfC15PubsubmonEnv: the check interval supplied through the environment (the
// failure threshold is a float and stays as loaded).
func VrfC15PubsubmonEnv() {
	cfg := &Config{CheckInterval: time.Duration(vrf_nondet_int64("check_interval")),
		FailureThreshold: []float64{0.5, 3}[vrf_choice("failure_threshold", 2)]}
	vrf_assume(cfg.Validate() == nil)
	before := *cfg
	setT, valT := vrf_nondet_bool("env_set_CheckInterval"), time.Duration(vrf_nondet_int64("env_CheckInterval"))
	vrf_env(envConfigKey, "CheckInterval", setT, valT.String())
	err := cfg.ApplyEnvVars()
	want := time.Duration(vrf_ite_int(setT, int(valT), int(before.CheckInterval)))
	if err == nil {
		vrf_assert(cfg.CheckInterval == want, "C15.pubsubmon.env-in-effect")
		vrf_assert(cfg.FailureThreshold == before.FailureThreshold, "C15.pubsubmon.env-others-unchanged")
		vrf_assert(cfg.Validate() == nil, "C15.pubsubmon.env-accepted-implies-valid")
	} else {
		vrf_assert(!(want > 0), "C15.pubsubmon.env-valid-accepted")
	}
	vrf_reach("C15.pubsubmon.env-end")
}

func VrfC15Pubsubmon() {
	d := &Config{}
	d.Default()
	vrf_assert(d.Validate() == nil, "C15.pubsubmon.default-valid")
	cfg := &Config{CheckInterval: time.Duration(vrf_nondet_int64("check_interval")),
		FailureThreshold: []float64{-1, 0, 0.5, 3}[vrf_choice("failure_threshold", 4)]}
	valid := cfg.Validate() == nil
	raw, err := cfg.ToJSON()
	vrf_assert(err == nil, "C15.pubsubmon.save-ok")
	back := &Config{}
	lerr := back.LoadJSON(raw)
	if valid {
		vrf_assert(lerr == nil, "C15.pubsubmon.valid-loads")
		vrf_assert(back.CheckInterval == cfg.CheckInterval && back.FailureThreshold == cfg.FailureThreshold, "C15.pubsubmon.roundtrip")
	} else {
		vrf_assert(lerr != nil, "C15.pubsubmon.invalid-rejected")
	}
	if lerr == nil {
		vrf_assert(back.Validate() == nil, "C15.pubsubmon.loaded-implies-valid")
	}
	vrf_reach("C15.pubsubmon.end")
}
