package pubsubmon

import "time"

var vrfEntries = map[string]func(){"VrfC15Pubsubmon": VrfC15Pubsubmon}

func VrfC15Pubsubmon() {
	d := &Config{}
	d.Default()
	vrf_assert(d.Validate() == nil, "C15.pubsubmon.default-valid")
	cfg := &Config{CheckInterval: time.Duration(vrf_nondet_int64("check_interval")),
		FailureThreshold: []float64{-1, 0, 0.5, 3}[vrf_choice("failure_threshold", 4)]}
	valid := cfg.Validate() == nil
	raw, err := cfg.ToJSON()
	vrf_assert(err == nil, "C15.pubsubmon.save-ok")
	back := &Config{}
	lerr := back.LoadJSON(raw)
	if valid {
		vrf_assert(lerr == nil, "C15.pubsubmon.valid-loads")
		vrf_assert(back.CheckInterval == cfg.CheckInterval && back.FailureThreshold == cfg.FailureThreshold, "C15.pubsubmon.roundtrip")
	} else {
		vrf_assert(lerr != nil, "C15.pubsubmon.invalid-rejected")
	}
	if lerr == nil {
		vrf_assert(back.Validate() == nil, "C15.pubsubmon.loaded-implies-valid")
	}
	vrf_reach("C15.pubsubmon.end")
}
