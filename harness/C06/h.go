package stateless

import (
	"context"

	"github.com/ipfs/ipfs-cluster/api"
	"github.com/ipfs/ipfs-cluster/pintracker/optracker"

	cid "github.com/ipfs/go-cid"
)

var vrfEntries = map[string]func(){
	"VrfC06Views": VrfC06Views,
	"VrfC06Masks": VrfC06Masks,
}

const vrfKnownStatusBits = 8190 // union of the 12 single-bit statuses

// VrfC06Views: one CID in every situation; the per-CID status, the listing and
// the filtered listing.
func VrfC06Views() {
	f := vrf_nondet_int("filter")
	vrf_assume(f&^vrfKnownStatusBits == 0) // filters are unions of known statuses
	c0 := vrfCid(0)
	ps := &vrfPinset{}
	d := &vrfDaemon{cids: []cid.Cid{c0}, held: []int{vrfNotHeld}}
	d.held[0] = vrf_choice("ipfs_holds", 3)
	// the pinset entry
	kind := vrf_choice("pinset_entry", 5) // 0 absent, 1 local, 2 everywhere, 3 remote, 4 meta
	direct := false
	if kind != 0 {
		p := api.PinCid(c0)
		p.Name = "n"
		if kind == 1 || kind == 2 {
			direct = vrf_choice("recorded_direct", 2) == 1
			if direct {
				p.Mode = api.PinModeDirect
				p.MaxDepth = 0
			}
		}
		switch kind {
		case 1:
			p.ReplicationFactorMin, p.ReplicationFactorMax = 1, 2
			p.Allocations = append(p.Allocations, vrfSelf)
		case 2:
			p.ReplicationFactorMin, p.ReplicationFactorMax = -1, -1
		case 3:
			p.ReplicationFactorMin, p.ReplicationFactorMax = 1, 1
			p.Allocations = append(p.Allocations, vrfOther)
		case 4:
			p.Type = api.MetaType
			// a meta entry never has allocations of its own; its factors are those of the add
			if vrf_choice("meta_everywhere", 2) == 1 {
				p.ReplicationFactorMin, p.ReplicationFactorMax = -1, -1
			} else {
				p.ReplicationFactorMin, p.ReplicationFactorMax = 2, 3
			}
		}
		ps.set(p)
	}
	vrf_note_bool("recorded_direct", direct)
	spt := vrfNewTracker(ps, d, 2)
	// the last operation on this CID, if it is still in the table
	opKind := vrf_choice("operation", 4) // 0 none, 1 pin, 2 unpin, 3 remote
	phase := optracker.PhaseDone
	if opKind != 0 {
		typ := []optracker.OperationType{optracker.OperationPin, optracker.OperationPin, optracker.OperationUnpin, optracker.OperationRemote}[opKind]
		phase = optracker.Phase(vrf_choice("phase", 4))
		op := spt.optracker.TrackNewOperation(context.Background(), api.PinCid(c0), typ, phase)
		if phase == optracker.PhaseError {
			op.SetError(vrfErrDaemon)
		}
	}
	ctx := context.Background()
	one := spt.Status(ctx, c0)
	all := spt.StatusAll(ctx, api.TrackerStatusUndefined)
	filtered := spt.StatusAll(ctx, api.TrackerStatus(f))

	var inAll *api.PinInfo
	for _, pi := range all {
		if pi.Cid.Equals(c0) {
			vrf_assert(inAll == nil, "C06.views.listed-once")
			inAll = pi
		}
	}
	vrf_assert(one != nil && one.Cid.Equals(c0), "C06.views.status-answers")
	clsOne := vrfClass(one.Status)
	vrf_assert(clsOne != vrfClassOther, "C06.views.known-status")

	// the two views agree
	if inAll == nil {
		vrf_assert(clsOne == vrfClassUnpinned, "C06.views.same-class")
	} else {
		vrf_assert(vrfClass(inAll.Status) == clsOne, "C06.views.same-class")
	}

	// and agree with the facts (no operation in the table: quiescent)
	if opKind == 0 {
		expected := vrfClassUnpinned
		switch kind {
		case 1, 2:
			holds := (direct && d.held[0] == vrfDirect) || (!direct && d.held[0] == vrfRecursive)
			if holds {
				expected = vrfClassPinned
			} else {
				expected = vrfClassError
			}
		case 3:
			expected = vrfClassRemote
		case 4:
			expected = vrfClassSharded
		}
		vrf_assert(clsOne == expected, "C06.views.truthful-status")
		if inAll != nil {
			vrf_assert(vrfClass(inAll.Status) == expected, "C06.views.truthful-listing")
		} else {
			vrf_assert(expected == vrfClassUnpinned, "C06.views.truthful-listing")
		}
	} else {
		// an operation in the table decides: error phase = error status,
		// queued/in-progress = pending, done = its result
		want := vrfClassOther
		switch {
		case opKind == 3:
			want = vrfClassRemote
		case phase == optracker.PhaseError:
			want = vrfClassError
		case phase == optracker.PhaseQueued || phase == optracker.PhaseInProgress:
			want = vrfClassPending
		case opKind == 1:
			want = vrfClassPinned
		case opKind == 2:
			want = vrfClassUnpinned
		}
		vrf_assert(clsOne == want, "C06.views.operation-status")
	}

	// filter law: the filtered listing is the unfiltered one restricted to the filter
	var inFiltered *api.PinInfo
	for _, pi := range filtered {
		if pi.Cid.Equals(c0) {
			vrf_assert(inFiltered == nil, "C06.filter.listed-once")
			inFiltered = pi
		}
		vrf_assert(pi.Status.Match(api.TrackerStatus(f)), "C06.filter.only-matching")
	}
	if inAll == nil {
		vrf_assert(inFiltered == nil, "C06.filter.law")
	} else {
		vrf_assert((inFiltered != nil) == inAll.Status.Match(api.TrackerStatus(f)), "C06.filter.law")
		if inFiltered != nil {
			vrf_assert(inFiltered.Status == inAll.Status, "C06.filter.same-status")
		}
	}
	vrf_reach("C06.views.end")
}

// VrfC06Masks: the bit-mask kernels over the whole domain.
func VrfC06Masks() {
	st := vrf_nondet_int("status")
	f := vrf_nondet_int("filter")
	vrf_assume(vrf_and(st&^vrfKnownStatusBits == 0, f&^vrfKnownStatusBits == 0))
	m := api.TrackerStatus(st).Match(api.TrackerStatus(f))
	vrf_assert(m == vrf_or(vrf_or(f == 0, st == 0), st&f != 0), "C06.masks.match-definition")
	// a single status matches a union iff it is one of its members
	k := vrf_choice("single_bit", 12)
	single := 2 << uint(k)
	vrf_assert(api.TrackerStatus(single).Match(api.TrackerStatus(f)) == vrf_or(f == 0, f&single != 0), "C06.masks.member")
	// names round-trip for every single status and the named unions
	name := api.TrackerStatus(single).String()
	vrf_assert(api.TrackerStatusFromString(name) == api.TrackerStatus(single), "C06.masks.string-roundtrip")
	vrf_assert(api.TrackerStatusFromString(name+",bogus-status") == api.TrackerStatus(single), "C06.masks.unknown-ignored")
	k2 := vrf_choice("second_bit", 12)
	union := api.TrackerStatus(single | 2<<uint(k2))
	vrf_assert(api.TrackerStatusFromString(union.String()) == union, "C06.masks.union-roundtrip")
	vrf_reach("C06.masks.end")
}
