package optracker

import (
	"context"
	"errors"

	"github.com/ipfs/ipfs-cluster/api"

	cid "github.com/ipfs/go-cid"
)

var vrfEntries = map[string]func(){"VrfC18OpTracker": VrfC18OpTracker}

func vrfCid(i int) cid.Cid {
	c, _ := cid.Decode([]string{
		"QmUaFyXjZUNaUwYF8rBtbJc7fEJ46aJXvgV8z2HHs6jvmJ",
		"QmbrCtydGyPeHiLURSPMqrvE5mCgMCwFYq3UD4XLCeAYw6"}[i])
	return c
}

// VrfC18OpTracker: every public operation of the operation table and of an
// operation touches the protected state only under its mutex, survives
// interference from other goroutines and releases what it locked.
func VrfC18OpTracker() {
	ctx := context.Background()
	opt := NewOperationTracker(ctx, "self", "self")
	var ops []*Operation
	if vrf_choice("existing_operation", 2) == 1 {
		typ := []OperationType{OperationPin, OperationUnpin, OperationRemote}[vrf_choice("existing_type", 3)]
		op := opt.TrackNewOperation(ctx, api.PinCid(vrfCid(0)), typ, Phase(vrf_choice("existing_phase", 4)))
		ops = append(ops, op)
	}
	vrf_protect(&opt.operations, &opt.mu, "C18.optracker")
	for _, op := range ops {
		vrf_protect(&op.phase, &op.mu, "C18.operation")
		vrf_protect(&op.error, &op.mu, "C18.operation")
		vrf_protect(&op.ts, &op.mu, "C18.operation")
	}
	// other goroutines: a worker finishing/cleaning an operation, another caller tracking one
	vrf_interference(&opt.mu, func() {
		switch vrf_choice("other_goroutine", 3) {
		case 1:
			delete(opt.operations, vrfCid(0))
		case 2:
			opt.operations[vrfCid(1)] = NewOperation(ctx, api.PinCid(vrfCid(1)), OperationPin, PhaseQueued)
		}
	})
	switch vrf_choice("call", 9) {
	case 0:
		op := opt.TrackNewOperation(ctx, api.PinCid(vrfCid(0)), []OperationType{OperationPin, OperationUnpin}[vrf_choice("new_type", 2)], PhaseQueued)
		if op != nil {
			got, ok := opt.operations[vrfCid(0)]
			_ = got
			_ = ok
		}
	case 1:
		if len(ops) > 0 {
			opt.Clean(ctx, ops[0])
		}
	case 2:
		st, ok := opt.Status(ctx, vrfCid(0))
		vrf_assert(ok || st == 0, "C18.optracker.status-consistent")
	case 3:
		opt.SetError(ctx, vrfCid(0), errors.New("x"))
	case 4:
		pi := opt.Get(ctx, vrfCid(0))
		vrf_assert(pi != nil && pi.Cid.Equals(vrfCid(0)), "C18.optracker.get-answers")
	case 5:
		pi, ok := opt.GetExists(ctx, vrfCid(0))
		vrf_assert(ok == (pi != nil), "C18.optracker.getexists-consistent")
	case 6:
		for _, pi := range opt.GetAll(ctx) {
			vrf_assert(pi != nil && pi.Cid.Defined(), "C18.optracker.getall-wellformed")
		}
	case 7:
		opt.OpContext(ctx, vrfCid(0))
	case 8:
		for _, pi := range opt.Filter(ctx, OperationPin) {
			vrf_assert(pi != nil, "C18.optracker.filter-wellformed")
		}
	}
	vrf_assert(vrf_locks_held() == 0, "C18.optracker.locks-released")
	// an operation's own accessors
	if len(ops) > 0 {
		op := ops[0]
		switch vrf_choice("op_call", 6) {
		case 0:
			op.SetPhase(PhaseDone)
			vrf_assert(op.phase == PhaseDone, "C18.operation.setphase")
		case 1:
			op.SetError(errors.New("boom"))
			vrf_assert(op.phase == PhaseError && op.error == "boom", "C18.operation.seterror")
		case 2:
			_ = op.Phase()
		case 3:
			_ = op.Error()
		case 4:
			_ = op.Timestamp()
		case 5:
			_ = op.ToTrackerStatus()
		}
		vrf_assert(vrf_locks_held() == 0, "C18.operation.locks-released")
	}
	vrf_reach("C18.optracker.end")
}
