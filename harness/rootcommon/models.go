package ipfscluster

import (
	"context"
	"errors"
	"strconv"

	"github.com/ipfs/ipfs-cluster/api"
	"github.com/ipfs/ipfs-cluster/state"

	cid "github.com/ipfs/go-cid"
	peer "github.com/libp2p/go-libp2p-core/peer"
	rpc "github.com/libp2p/go-libp2p-gorpc"
	multiaddr "github.com/multiformats/go-multiaddr"
)

// ---- environment models (shared by the root-package harnesses)

var vrfPeerNames = []peer.ID{"pA", "pB", "pC", "pD", "pE", "pF"}

type vrfMetricState struct {
	present bool   // the monitor holds a metric of this peer
	healthy bool   // present, valid and unexpired at the (frozen) instant of the call
	numeric bool   // value parses as an unsigned number
	value   uint64 // the parsed value (meaningful iff numeric)
	metric  *api.Metric
}

// vrfMonitor implements PeerMonitor. Contract modelled (checked for the real
// monitor by C09): LatestMetrics returns the metrics that are valid and
// unexpired at the time of the call, at most one per peer.
type vrfMonitor struct {
	states []vrfMetricState
	name   string
}

func (m *vrfMonitor) SetClient(*rpc.Client)                            {}
func (m *vrfMonitor) Shutdown(context.Context) error                   { return nil }
func (m *vrfMonitor) LogMetric(context.Context, *api.Metric) error     { return nil }
func (m *vrfMonitor) PublishMetric(context.Context, *api.Metric) error { return nil }
func (m *vrfMonitor) MetricNames(context.Context) []string             { return []string{m.name} }
func (m *vrfMonitor) Alerts() <-chan *api.Alert                        { return nil }
func (m *vrfMonitor) LatestMetrics(ctx context.Context, name string) []*api.Metric {
	var out []*api.Metric
	for i := range m.states {
		s := &m.states[i]
		if s.present && !s.metric.Discard() {
			out = append(out, s.metric)
		}
	}
	return out
}

type vrfInformer struct{ name string }

func (i *vrfInformer) SetClient(*rpc.Client)                 {}
func (i *vrfInformer) Shutdown(context.Context) error        { return nil }
func (i *vrfInformer) Name() string                          { return i.name }
func (i *vrfInformer) GetMetric(context.Context) *api.Metric { return nil }

const vrfSecond = int64(1000000000)

// vrfSymbolicMonitor builds a monitor with one symbolic metric state per peer.
// Nothing forks here: the code under test decides where the state matters.
func vrfSymbolicMonitor(n int, name string) *vrfMonitor {
	mon := &vrfMonitor{name: name}
	now := vrf_now()
	for i := 0; i < n; i++ {
		st := vrfMetricState{}
		st.present = vrf_nondet_bool("present")
		valid := vrf_nondet_bool("valid")
		delta := vrf_nondet_int64("expire_minus_now")
		// expiry instants closer than one second to "now" are outside the
		// claim (the wall clock moves between harness and code under test)
		vrf_assume(vrf_or(delta <= -vrfSecond, delta >= vrfSecond))
		vrf_assume(vrf_and(delta > -vrfSecond*1000000, delta < vrfSecond*1000000))
		st.numeric = vrf_nondet_bool("numeric")
		st.value = vrf_nondet_uint64("value")
		val := vrf_ite_str(st.numeric, strconv.FormatUint(st.value, 10), "not-a-number")
		exp := now + delta
		st.metric = &api.Metric{Name: name, Peer: vrfPeerNames[i], Value: val, Valid: valid, Expire: exp}
		// unexpired = the expiry instant is not before "now"
		st.healthy = vrf_and(st.present, vrf_and(valid, !(now > exp)))
		mon.states = append(mon.states, st)
	}
	return mon
}

func vrfCid(i int) cid.Cid {
	cids := []string{
		"QmUaFyXjZUNaUwYF8rBtbJc7fEJ46aJXvgV8z2HHs6jvmJ",
		"QmbrCtydGyPeHiLURSPMqrvE5mCgMCwFYq3UD4XLCeAYw6",
		"QmZHKZDavkvNfA9gSAg7HALv8jF7BJaKjUc9U2LSuvUySB",
	}
	c, _ := cid.Decode(cids[i])
	return c
}

func vrfIndexOf(list []peer.ID, p peer.ID) int {
	for i, x := range list {
		if x == p {
			return i
		}
	}
	return -1
}


// ---- shared pinset: consensus + state models

func vrfCopyPin(p *api.Pin) *api.Pin {
	if p == nil {
		return nil
	}
	c := *p
	c.Allocations = append([]peer.ID(nil), p.Allocations...)
	c.UserAllocations = append([]peer.ID(nil), p.UserAllocations...)
	c.Origins = append([]multiaddr.Multiaddr(nil), p.Origins...)
	if p.Metadata != nil {
		c.Metadata = map[string]string{}
		for k, v := range p.Metadata {
			c.Metadata[k] = v
		}
	}
	if p.Reference != nil {
		r := *p.Reference
		c.Reference = &r
	}
	return &c
}

type vrfLogEntry struct {
	unpin bool
	pin   *api.Pin
}

// vrfConsensus implements Consensus over a small pinset; LogPin/LogUnpin are
// recorded and applied (insert-or-replace / delete), as the real consensus
// layers do once an operation is committed.
type vrfConsensus struct {
	pins     []*api.Pin // the shared pinset (at most one entry per CID)
	log      []vrfLogEntry
	failLog  bool // LogPin/LogUnpin return an error (and change nothing)
	stateErr bool // State() fails
	peers    []peer.ID
	leader   peer.ID
	trustAll bool
	trusted  map[peer.ID]bool // per-peer trust (when set, used instead of trustAll)
	rmPeers  []peer.ID
	events   []string // "pin", "unpin", "rmpeer", "clean", "shutdown" in call order
	rmFails  bool
	peersErr bool
}

func (c *vrfConsensus) SetClient(*rpc.Client)          {}
func (c *vrfConsensus) Shutdown(context.Context) error {
	c.events = append(c.events, "shutdown")
	return nil
}
func (c *vrfConsensus) Ready(context.Context) <-chan struct{} {
	ch := make(chan struct{})
	close(ch)
	return ch
}
func (c *vrfConsensus) find(ci cid.Cid) int {
	for i, p := range c.pins {
		if p.Cid.Equals(ci) {
			return i
		}
	}
	return -1
}
func (c *vrfConsensus) LogPin(ctx context.Context, p *api.Pin) error {
	if c.failLog {
		return errors.New("consensus: commit failed")
	}
	cp := vrfCopyPin(p)
	c.events = append(c.events, "pin")
	c.log = append(c.log, vrfLogEntry{pin: cp})
	if i := c.find(p.Cid); i >= 0 {
		c.pins[i] = cp
	} else {
		c.pins = append(c.pins, cp)
	}
	return nil
}
func (c *vrfConsensus) LogUnpin(ctx context.Context, p *api.Pin) error {
	if c.failLog {
		return errors.New("consensus: commit failed")
	}
	c.log = append(c.log, vrfLogEntry{unpin: true, pin: vrfCopyPin(p)})
	if i := c.find(p.Cid); i >= 0 {
		c.pins = append(c.pins[:i:i], c.pins[i+1:]...)
	}
	return nil
}
func (c *vrfConsensus) AddPeer(context.Context, peer.ID) error { return nil }
func (c *vrfConsensus) RmPeer(ctx context.Context, p peer.ID) error {
	c.events = append(c.events, "rmpeer")
	if c.rmFails {
		return errors.New("consensus: cannot remove peer")
	}
	c.rmPeers = append(c.rmPeers, p)
	return nil
}
func (c *vrfConsensus) State(context.Context) (state.ReadOnly, error) {
	if c.stateErr {
		return nil, errors.New("consensus: no state")
	}
	return &vrfPinState{c}, nil
}
func (c *vrfConsensus) Leader(context.Context) (peer.ID, error)       { return c.leader, nil }
func (c *vrfConsensus) WaitForSync(context.Context) error             { return nil }
func (c *vrfConsensus) Clean(context.Context) error {
	c.events = append(c.events, "clean")
	return nil
}
func (c *vrfConsensus) Peers(context.Context) ([]peer.ID, error) {
	if c.peersErr {
		return nil, errors.New("consensus: peers unknown")
	}
	return c.peers, nil
}
func (c *vrfConsensus) IsTrustedPeer(_ context.Context, p peer.ID) bool {
	if c.trusted != nil {
		return c.trusted[p]
	}
	return c.trustAll
}
func (c *vrfConsensus) Trust(context.Context, peer.ID) error          { return nil }
func (c *vrfConsensus) Distrust(context.Context, peer.ID) error       { return nil }

type vrfPinState struct{ c *vrfConsensus }

func (s *vrfPinState) List(context.Context) ([]*api.Pin, error) {
	var out []*api.Pin
	for _, p := range s.c.pins {
		out = append(out, vrfCopyPin(p))
	}
	return out, nil
}
func (s *vrfPinState) Has(ctx context.Context, ci cid.Cid) (bool, error) {
	return s.c.find(ci) >= 0, nil
}
func (s *vrfPinState) Get(ctx context.Context, ci cid.Cid) (*api.Pin, error) {
	i := s.c.find(ci)
	if i < 0 {
		return nil, state.ErrNotFound
	}
	return vrfCopyPin(s.c.pins[i]), nil
}

// ---- IPFS connector model (only what the cluster facade needs)

type vrfIPFS struct {
	resolveFails bool
	resolveTo    cid.Cid
	blockGetErr  bool
	blockData    []byte
	calls        []string
}

func (i *vrfIPFS) SetClient(*rpc.Client)                        {}
func (i *vrfIPFS) Shutdown(context.Context) error               { return nil }
func (i *vrfIPFS) ID(context.Context) (*api.IPFSID, error)      { return &api.IPFSID{}, nil }
func (i *vrfIPFS) Pin(context.Context, *api.Pin) error          { i.calls = append(i.calls, "Pin"); return nil }
func (i *vrfIPFS) Unpin(context.Context, cid.Cid) error         { i.calls = append(i.calls, "Unpin"); return nil }
func (i *vrfIPFS) PinLsCid(context.Context, *api.Pin) (api.IPFSPinStatus, error) {
	return api.IPFSPinStatusUnpinned, nil
}
func (i *vrfIPFS) PinLs(context.Context, string) (map[string]api.IPFSPinStatus, error) {
	return nil, nil
}
func (i *vrfIPFS) ConnectSwarms(context.Context) error               { return nil }
func (i *vrfIPFS) SwarmPeers(context.Context) ([]peer.ID, error)      { return nil, nil }
func (i *vrfIPFS) ConfigKey(string) (interface{}, error)              { return nil, nil }
func (i *vrfIPFS) RepoStat(context.Context) (*api.IPFSRepoStat, error) { return &api.IPFSRepoStat{}, nil }
func (i *vrfIPFS) RepoGC(context.Context) (*api.RepoGC, error)        { return &api.RepoGC{}, nil }
func (i *vrfIPFS) Resolve(ctx context.Context, path string) (cid.Cid, error) {
	if i.resolveFails {
		return cid.Undef, errors.New("ipfs: cannot resolve path")
	}
	return i.resolveTo, nil
}
func (i *vrfIPFS) BlockPut(context.Context, *api.NodeWithMeta) error { return nil }
func (i *vrfIPFS) BlockGet(context.Context, cid.Cid) ([]byte, error) {
	if i.blockGetErr {
		return nil, errors.New("ipfs: block not found")
	}
	return i.blockData, nil
}

func vrfHasPeer(list []peer.ID, p peer.ID) bool { return vrfIndexOf(list, p) >= 0 }
