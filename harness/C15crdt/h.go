package crdt

import (
	"time"

	peer "github.com/libp2p/go-libp2p-core/peer"
)

var vrfEntries = map[string]func(){"VrfC15Crdt": VrfC15Crdt}

var vrfPeerStrs = []string{"QmZHKZDavkvNfA9gSAg7HALv8jF7BJaKjUc9U2LSuvUySB", "QmP63DkAFEnDYNjDYBpyNDfttu1fvUw99x1brscPzpqmmq"}

func vrfStrSame(got, want, def string) bool {
	return vrf_or(got == want, vrf_and(want == "", got == def))
}

func VrfC15Crdt() {
	d := &Config{}
	d.Default()
	vrf_assert(d.Validate() == nil, "C15.crdt.default-valid")
	cfg := &Config{}
	cfg.ClusterName = vrf_nondet_string("cluster_name")
	cfg.PeersetMetric = vrf_nondet_string("peerset_metric")
	cfg.DatastoreNamespace = vrf_nondet_string("datastore_namespace")
	cfg.RebroadcastInterval = time.Duration(vrf_nondet_int64("rebroadcast_interval"))
	cfg.Batching.MaxBatchSize = vrf_nondet_int("max_batch_size")
	cfg.Batching.MaxBatchAge = time.Duration(vrf_nondet_int64("max_batch_age"))
	cfg.Batching.MaxQueueSize = vrf_nondet_int("max_queue_size")
	cfg.TrustAll = vrf_choice("trust_all", 2) == 1
	if !cfg.TrustAll {
		for _, s := range vrfPeerStrs {
			if vrf_choice("trusted", 2) == 1 {
				p, _ := peer.Decode(s)
				cfg.TrustedPeers = append(cfg.TrustedPeers, p)
			}
		}
	}
	valid := cfg.Validate() == nil
	raw, err := cfg.ToJSON()
	vrf_assert(err == nil, "C15.crdt.save-ok")
	back := &Config{}
	lerr := back.LoadJSON(raw)
	if valid {
		vrf_assert(lerr == nil, "C15.crdt.valid-loads")
		vrf_assert(back.ClusterName == cfg.ClusterName && back.PeersetMetric == cfg.PeersetMetric, "C15.crdt.roundtrip")
		// an empty string / zero conventionally means "use the default"
		vrf_assert(vrfStrSame(back.DatastoreNamespace, cfg.DatastoreNamespace, DefaultDatastoreNamespace), "C15.crdt.roundtrip")
		vrf_assert(back.RebroadcastInterval == cfg.RebroadcastInterval, "C15.crdt.roundtrip")
		vrf_assert(back.Batching.MaxBatchSize == cfg.Batching.MaxBatchSize, "C15.crdt.roundtrip-batching")
		vrf_assert(back.Batching.MaxBatchAge == cfg.Batching.MaxBatchAge, "C15.crdt.roundtrip-batching")
		vrf_assert(back.Batching.MaxQueueSize == cfg.Batching.MaxQueueSize, "C15.crdt.roundtrip-batching")
		vrf_assert(back.TrustAll == cfg.TrustAll && len(back.TrustedPeers) == len(cfg.TrustedPeers), "C15.crdt.roundtrip-trust")
		for i := range cfg.TrustedPeers {
			if i < len(back.TrustedPeers) {
				vrf_assert(back.TrustedPeers[i] == cfg.TrustedPeers[i], "C15.crdt.roundtrip-trust")
			}
		}
	} else {
		// zero / empty values fall back to defaults; anything else invalid must be refused
		zeroish := vrf_or(cfg.ClusterName == "", vrf_or(cfg.PeersetMetric == "", vrf_or(cfg.RebroadcastInterval == 0, cfg.Batching.MaxQueueSize == 0)))
		vrf_assert(vrf_or(zeroish, lerr != nil), "C15.crdt.invalid-rejected")
	}
	if lerr == nil {
		vrf_assert(back.Validate() == nil, "C15.crdt.loaded-implies-valid")
	}
	vrf_reach("C15.crdt.end")
}
