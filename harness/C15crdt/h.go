package crdt

import (
	"strconv"
	"time"

	peer "github.com/libp2p/go-libp2p-core/peer"
)

var vrfEntries = map[string]func(){"VrfC15Crdt": VrfC15Crdt, "VrfC15CrdtEnv": VrfC15CrdtEnv, "VrfC15CrdtLoaded": VrfC15CrdtLoaded}

// VrfC15CrdtEnv: settings supplied through environment variables (the nested
// batching section included) on top of an arbitrary valid configuration. Empty
// text and a zero queue size mean "keep"; everything else must be in effect.
func VrfC15CrdtEnv() {
	cfg := &Config{}
	cfg.ClusterName = vrf_nondet_string("cluster_name")
	cfg.PeersetMetric = vrf_nondet_string("peerset_metric")
	cfg.DatastoreNamespace = DefaultDatastoreNamespace
	cfg.RebroadcastInterval = time.Duration(vrf_nondet_int64("rebroadcast_interval"))
	cfg.Batching.MaxBatchSize = vrf_nondet_int("max_batch_size")
	cfg.Batching.MaxBatchAge = time.Duration(vrf_nondet_int64("max_batch_age"))
	cfg.Batching.MaxQueueSize = vrf_nondet_int("max_queue_size")
	cfg.TrustAll = true
	vrf_assume(cfg.Validate() == nil)
	before := *cfg

	setN, valN := vrf_nondet_bool("env_set_ClusterName"), vrf_nondet_string("env_ClusterName")
	setM, valM := vrf_nondet_bool("env_set_PeersetMetric"), vrf_nondet_string("env_PeersetMetric")
	setR, valR := vrf_nondet_bool("env_set_RebroadcastInterval"), time.Duration(vrf_nondet_int64("env_RebroadcastInterval"))
	setS, valS := vrf_nondet_bool("env_set_MaxBatchSize"), vrf_nondet_int("env_MaxBatchSize")
	setA, valA := vrf_nondet_bool("env_set_MaxBatchAge"), time.Duration(vrf_nondet_int64("env_MaxBatchAge"))
	setQ, valQ := vrf_nondet_bool("env_set_MaxQueueSize"), vrf_nondet_int("env_MaxQueueSize")
	vrf_env(envConfigKey, "ClusterName", setN, valN)
	vrf_env(envConfigKey, "PeersetMetric", setM, valM)
	vrf_env(envConfigKey, "RebroadcastInterval", setR, valR.String())
	vrf_env(envConfigKey, "Batching_MaxBatchSize", setS, strconv.Itoa(valS))
	vrf_env(envConfigKey, "Batching_MaxBatchAge", setA, valA.String())
	vrf_env(envConfigKey, "Batching_MaxQueueSize", setQ, strconv.Itoa(valQ))

	err := cfg.ApplyEnvVars()

	want := before
	want.ClusterName = vrf_ite_str(vrf_and(setN, valN != ""), valN, before.ClusterName)
	want.PeersetMetric = vrf_ite_str(vrf_and(setM, valM != ""), valM, before.PeersetMetric)
	want.RebroadcastInterval = time.Duration(vrf_ite_int(setR, int(valR), int(before.RebroadcastInterval)))
	want.Batching.MaxBatchSize = vrf_ite_int(setS, valS, before.Batching.MaxBatchSize)
	want.Batching.MaxBatchAge = time.Duration(vrf_ite_int(setA, int(valA), int(before.Batching.MaxBatchAge)))
	want.Batching.MaxQueueSize = vrf_ite_int(vrf_and(setQ, valQ != 0), valQ, before.Batching.MaxQueueSize)
	if err == nil {
		vrf_assert(vrf_and(cfg.ClusterName == want.ClusterName, cfg.PeersetMetric == want.PeersetMetric), "C15.crdt.env-in-effect")
		vrf_assert(cfg.RebroadcastInterval == want.RebroadcastInterval, "C15.crdt.env-in-effect")
		vrf_assert(vrf_and(cfg.Batching.MaxBatchSize == want.Batching.MaxBatchSize, vrf_and(cfg.Batching.MaxBatchAge == want.Batching.MaxBatchAge, cfg.Batching.MaxQueueSize == want.Batching.MaxQueueSize)), "C15.crdt.env-in-effect")
		vrf_assert(cfg.TrustAll && cfg.DatastoreNamespace == before.DatastoreNamespace, "C15.crdt.env-others-unchanged")
		vrf_assert(cfg.Validate() == nil, "C15.crdt.env-accepted-implies-valid")
	} else {
		vrf_assert(want.Validate() != nil, "C15.crdt.env-valid-accepted")
	}
	vrf_reach("C15.crdt.env-end")
}

var vrfPeerStrs = []string{"QmZHKZDavkvNfA9gSAg7HALv8jF7BJaKjUc9U2LSuvUySB", "QmP63DkAFEnDYNjDYBpyNDfttu1fvUw99x1brscPzpqmmq"}

func vrfStrSame(got, want, def string) bool {
	return vrf_or(got == want, vrf_and(want == "", got == def))
}

func VrfC15Crdt() {
	d := &Config{}
	d.Default()
	vrf_assert(d.Validate() == nil, "C15.crdt.default-valid")
	cfg := &Config{}
	cfg.ClusterName = vrf_nondet_string("cluster_name")
	cfg.PeersetMetric = vrf_nondet_string("peerset_metric")
	cfg.DatastoreNamespace = vrf_nondet_string("datastore_namespace")
	cfg.RebroadcastInterval = time.Duration(vrf_nondet_int64("rebroadcast_interval"))
	cfg.Batching.MaxBatchSize = vrf_nondet_int("max_batch_size")
	cfg.Batching.MaxBatchAge = time.Duration(vrf_nondet_int64("max_batch_age"))
	cfg.Batching.MaxQueueSize = vrf_nondet_int("max_queue_size")
	cfg.TrustAll = vrf_choice("trust_all", 2) == 1
	if !cfg.TrustAll {
		for _, s := range vrfPeerStrs {
			if vrf_choice("trusted", 2) == 1 {
				p, _ := peer.Decode(s)
				cfg.TrustedPeers = append(cfg.TrustedPeers, p)
			}
		}
	}
	valid := cfg.Validate() == nil
	raw, err := cfg.ToJSON()
	vrf_assert(err == nil, "C15.crdt.save-ok")
	back := &Config{}
	lerr := back.LoadJSON(raw)
	if valid {
		vrf_assert(lerr == nil, "C15.crdt.valid-loads")
		vrf_assert(back.ClusterName == cfg.ClusterName && back.PeersetMetric == cfg.PeersetMetric, "C15.crdt.roundtrip")
		// an empty string / zero conventionally means "use the default"
		vrf_assert(vrfStrSame(back.DatastoreNamespace, cfg.DatastoreNamespace, DefaultDatastoreNamespace), "C15.crdt.roundtrip")
		vrf_assert(back.RebroadcastInterval == cfg.RebroadcastInterval, "C15.crdt.roundtrip")
		vrf_assert(back.Batching.MaxBatchSize == cfg.Batching.MaxBatchSize, "C15.crdt.roundtrip-batching")
		vrf_assert(back.Batching.MaxBatchAge == cfg.Batching.MaxBatchAge, "C15.crdt.roundtrip-batching")
		vrf_assert(back.Batching.MaxQueueSize == cfg.Batching.MaxQueueSize, "C15.crdt.roundtrip-batching")
		vrf_assert(back.TrustAll == cfg.TrustAll && len(back.TrustedPeers) == len(cfg.TrustedPeers), "C15.crdt.roundtrip-trust")
		for i := range cfg.TrustedPeers {
			if i < len(back.TrustedPeers) {
				vrf_assert(back.TrustedPeers[i] == cfg.TrustedPeers[i], "C15.crdt.roundtrip-trust")
			}
		}
	} else {
		// zero / empty values fall back to defaults; anything else invalid must be refused
		zeroish := vrf_or(cfg.ClusterName == "", vrf_or(cfg.PeersetMetric == "", vrf_or(cfg.RebroadcastInterval == 0, cfg.Batching.MaxQueueSize == 0)))
		vrf_assert(vrf_or(zeroish, lerr != nil), "C15.crdt.invalid-rejected")
	}
	if lerr == nil {
		vrf_assert(back.Validate() == nil, "C15.crdt.loaded-implies-valid")
	}
	vrf_reach("C15.crdt.end")
}

// VrfC15CrdtLoaded: whatever the loader accepts is a fixpoint of save -> load.
// The trusted-peers list is the one setting the loader normalises (a "*" entry
// anywhere means trust-all): every shape of that list - wildcard alone, peers
// alone, peers before and after a wildcard, empty - loads to a configuration
// that saving and loading again reproduces, and a second environment pass with
// nothing set changes nothing.
func VrfC15CrdtLoaded() {
	lists := []string{`["*"]`, `[]`, `["` + vrfPeerStrs[0] + `"]`, `["` + vrfPeerStrs[0] + `","*"]`, `["*","` + vrfPeerStrs[0] + `"]`,
		`["` + vrfPeerStrs[0] + `","*","` + vrfPeerStrs[1] + `"]`, `["` + vrfPeerStrs[0] + `","` + vrfPeerStrs[1] + `"]`}
	doc := `{"cluster_name":"c","trusted_peers":` + lists[vrf_choice("trusted_peers", len(lists))] + `}`
	first := &Config{}
	vrf_assert(first.LoadJSON([]byte(doc)) == nil, "C15.crdt.loaded-accepts")
	same := func(a, b *Config, label string) {
		vrf_assert(a.TrustAll == b.TrustAll && len(a.TrustedPeers) == len(b.TrustedPeers), label)
		for i := range a.TrustedPeers {
			if i < len(b.TrustedPeers) {
				vrf_assert(a.TrustedPeers[i] == b.TrustedPeers[i], label)
			}
		}
	}
	raw, err := first.ToJSON()
	vrf_assert(err == nil, "C15.crdt.loaded-saves")
	second := &Config{}
	vrf_assert(second.LoadJSON(raw) == nil, "C15.crdt.loaded-reloads")
	same(first, second, "C15.crdt.loaded-is-a-fixpoint")
	third := *first
	third.TrustedPeers = append([]peer.ID{}, first.TrustedPeers...)
	vrf_assert(third.ApplyEnvVars() == nil, "C15.crdt.loaded-env-pass-ok")
	same(first, &third, "C15.crdt.loaded-env-pass-changes-nothing")
	vrf_reach("C15.crdt.loaded-end")
}
