package raft

import "time"

var vrfEntries = map[string]func(){"VrfC15Raft": VrfC15Raft}

func vrfDurSame(got, want, def time.Duration) bool {
	return vrf_or(got == want, vrf_and(want == 0, got == def))
}

func VrfC15Raft() {
	d := &Config{}
	d.Default()
	vrf_assert(d.Validate() == nil, "C15.raft.default-valid")
	cfg := &Config{}
	cfg.Default()
	cfg.DataFolder = vrf_nondet_string("data_folder")
	cfg.WaitForLeaderTimeout = time.Duration(vrf_nondet_int64("wait_for_leader_timeout"))
	cfg.NetworkTimeout = time.Duration(vrf_nondet_int64("network_timeout"))
	cfg.CommitRetries = vrf_nondet_int("commit_retries")
	cfg.CommitRetryDelay = time.Duration(vrf_nondet_int64("commit_retry_delay"))
	cfg.BackupsRotate = vrf_nondet_int("backups_rotate")
	cfg.RaftConfig.SnapshotThreshold = vrf_nondet_uint64("snapshot_threshold")
	cfg.RaftConfig.TrailingLogs = vrf_nondet_uint64("trailing_logs")
	valid := cfg.Validate() == nil
	raw, err := cfg.ToJSON()
	vrf_assert(err == nil, "C15.raft.save-ok")
	back := &Config{}
	lerr := back.LoadJSON(raw)
	dd := &Config{}
	dd.Default()
	if valid {
		vrf_assert(lerr == nil, "C15.raft.valid-loads")
		vrf_assert(back.DataFolder == cfg.DataFolder, "C15.raft.roundtrip")
		vrf_assert(vrf_and(back.WaitForLeaderTimeout == cfg.WaitForLeaderTimeout, vrf_and(back.NetworkTimeout == cfg.NetworkTimeout, back.CommitRetryDelay == cfg.CommitRetryDelay)), "C15.raft.roundtrip")
		vrf_assert(back.CommitRetries == cfg.CommitRetries && back.BackupsRotate == cfg.BackupsRotate, "C15.raft.roundtrip")
		vrf_assert(vrf_or(back.RaftConfig.SnapshotThreshold == cfg.RaftConfig.SnapshotThreshold, vrf_and(cfg.RaftConfig.SnapshotThreshold == 0, back.RaftConfig.SnapshotThreshold == dd.RaftConfig.SnapshotThreshold)), "C15.raft.roundtrip-raftconfig")
		vrf_assert(vrf_or(back.RaftConfig.TrailingLogs == cfg.RaftConfig.TrailingLogs, vrf_and(cfg.RaftConfig.TrailingLogs == 0, back.RaftConfig.TrailingLogs == dd.RaftConfig.TrailingLogs)), "C15.raft.roundtrip-raftconfig")
	} else {
		zeroish := vrf_or(cfg.WaitForLeaderTimeout == 0, vrf_or(cfg.NetworkTimeout == 0, vrf_or(cfg.CommitRetryDelay == 0, cfg.BackupsRotate == 0)))
		vrf_assert(vrf_or(zeroish, lerr != nil), "C15.raft.invalid-rejected")
	}
	if lerr == nil {
		vrf_assert(back.Validate() == nil, "C15.raft.loaded-implies-valid")
	}
	vrf_reach("C15.raft.end")
}
