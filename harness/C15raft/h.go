package raft

import (
	"strconv"
	"time"
)

var vrfEntries = map[string]func(){"VrfC15Raft": VrfC15Raft, "VrfC15RaftEnv": VrfC15RaftEnv}

// VrfC15RaftEnv: settings supplied through environment variables on top of an
// arbitrary valid configuration. Zero / empty means "keep what is there" except
// for commit_retries, which is taken as given.
func VrfC15RaftEnv() {
	cfg := &Config{}
	cfg.Default()
	cfg.WaitForLeaderTimeout = time.Duration(vrf_nondet_int64("wait_for_leader_timeout"))
	cfg.NetworkTimeout = time.Duration(vrf_nondet_int64("network_timeout"))
	cfg.CommitRetries = vrf_nondet_int("commit_retries")
	cfg.CommitRetryDelay = time.Duration(vrf_nondet_int64("commit_retry_delay"))
	cfg.BackupsRotate = vrf_nondet_int("backups_rotate")
	vrf_assume(cfg.Validate() == nil)
	bW, bN, bR, bD, bB, bNS, bTL := cfg.WaitForLeaderTimeout, cfg.NetworkTimeout, cfg.CommitRetries, cfg.CommitRetryDelay, cfg.BackupsRotate, cfg.DatastoreNamespace, cfg.RaftConfig.TrailingLogs

	setW, valW := vrf_nondet_bool("env_set_WaitForLeaderTimeout"), time.Duration(vrf_nondet_int64("env_WaitForLeaderTimeout"))
	setN, valN := vrf_nondet_bool("env_set_NetworkTimeout"), time.Duration(vrf_nondet_int64("env_NetworkTimeout"))
	setR, valR := vrf_nondet_bool("env_set_CommitRetries"), vrf_nondet_int("env_CommitRetries")
	setD, valD := vrf_nondet_bool("env_set_CommitRetryDelay"), time.Duration(vrf_nondet_int64("env_CommitRetryDelay"))
	setB, valB := vrf_nondet_bool("env_set_BackupsRotate"), vrf_nondet_int("env_BackupsRotate")
	setS, valS := vrf_nondet_bool("env_set_DatastoreNamespace"), vrf_nondet_string("env_DatastoreNamespace")
	setT, valT := vrf_nondet_bool("env_set_TrailingLogs"), vrf_nondet_uint64("env_TrailingLogs")
	vrf_env(envConfigKey, "WaitForLeaderTimeout", setW, valW.String())
	vrf_env(envConfigKey, "NetworkTimeout", setN, valN.String())
	vrf_env(envConfigKey, "CommitRetries", setR, strconv.Itoa(valR))
	vrf_env(envConfigKey, "CommitRetryDelay", setD, valD.String())
	vrf_env(envConfigKey, "BackupsRotate", setB, strconv.Itoa(valB))
	vrf_env(envConfigKey, "DatastoreNamespace", setS, valS)
	vrf_env(envConfigKey, "TrailingLogs", setT, strconv.FormatUint(valT, 10))

	err := cfg.ApplyEnvVars()

	wW := time.Duration(vrf_ite_int(vrf_and(setW, valW != 0), int(valW), int(bW)))
	wN := time.Duration(vrf_ite_int(vrf_and(setN, valN != 0), int(valN), int(bN)))
	wR := vrf_ite_int(setR, valR, bR)
	wD := time.Duration(vrf_ite_int(vrf_and(setD, valD != 0), int(valD), int(bD)))
	wB := vrf_ite_int(vrf_and(setB, valB != 0), valB, bB)
	wS := vrf_ite_str(vrf_and(setS, valS != ""), valS, bNS)
	wT := uint64(vrf_ite_int(vrf_and(setT, valT != 0), int(valT), int(bTL)))
	wantValid := vrf_and(vrf_and(wW > 0, wN > 0), vrf_and(wR >= 0, vrf_and(wD > 0, wB > 0)))
	if err == nil {
		vrf_assert(vrf_and(cfg.WaitForLeaderTimeout == wW, vrf_and(cfg.NetworkTimeout == wN, cfg.CommitRetryDelay == wD)), "C15.raft.env-in-effect")
		vrf_assert(vrf_and(cfg.CommitRetries == wR, cfg.BackupsRotate == wB), "C15.raft.env-in-effect")
		vrf_assert(cfg.DatastoreNamespace == wS, "C15.raft.env-in-effect")
		vrf_assert(cfg.RaftConfig.TrailingLogs == wT, "C15.raft.env-in-effect")
		vrf_assert(cfg.Validate() == nil, "C15.raft.env-accepted-implies-valid")
	} else {
		vrf_assert(!wantValid, "C15.raft.env-valid-accepted")
	}
	vrf_reach("C15.raft.env-end")
}

func vrfDurSame(got, want, def time.Duration) bool {
	return vrf_or(got == want, vrf_and(want == 0, got == def))
}

func VrfC15Raft() {
	d := &Config{}
	d.Default()
	vrf_assert(d.Validate() == nil, "C15.raft.default-valid")
	cfg := &Config{}
	cfg.Default()
	cfg.DataFolder = vrf_nondet_string("data_folder")
	cfg.DatastoreNamespace = vrf_nondet_string("datastore_namespace")
	cfg.WaitForLeaderTimeout = time.Duration(vrf_nondet_int64("wait_for_leader_timeout"))
	cfg.NetworkTimeout = time.Duration(vrf_nondet_int64("network_timeout"))
	cfg.CommitRetries = vrf_nondet_int("commit_retries")
	cfg.CommitRetryDelay = time.Duration(vrf_nondet_int64("commit_retry_delay"))
	cfg.BackupsRotate = vrf_nondet_int("backups_rotate")
	cfg.RaftConfig.SnapshotThreshold = vrf_nondet_uint64("snapshot_threshold")
	cfg.RaftConfig.TrailingLogs = vrf_nondet_uint64("trailing_logs")
	cfg.RaftConfig.HeartbeatTimeout = time.Duration(vrf_nondet_int64("heartbeat_timeout"))
	cfg.RaftConfig.ElectionTimeout = time.Duration(vrf_nondet_int64("election_timeout"))
	cfg.RaftConfig.CommitTimeout = time.Duration(vrf_nondet_int64("commit_timeout"))
	cfg.RaftConfig.SnapshotInterval = time.Duration(vrf_nondet_int64("snapshot_interval"))
	cfg.RaftConfig.LeaderLeaseTimeout = time.Duration(vrf_nondet_int64("leader_lease_timeout"))
	cfg.RaftConfig.MaxAppendEntries = vrf_nondet_int("max_append_entries")
	// hashicorp/raft's own limits for its timing settings (its ValidateConfig): only
	// values it accepts are explored for these fields
	ms := time.Millisecond
	rc0 := cfg.RaftConfig
	vrf_assume(vrf_and(vrf_and(rc0.HeartbeatTimeout >= 5*ms, rc0.ElectionTimeout >= rc0.HeartbeatTimeout),
		vrf_and(vrf_and(rc0.CommitTimeout >= ms, rc0.SnapshotInterval >= 5*ms), vrf_and(rc0.LeaderLeaseTimeout >= 5*ms, rc0.LeaderLeaseTimeout <= rc0.HeartbeatTimeout))))
	vrf_assume(vrf_and(rc0.MaxAppendEntries > 0, rc0.MaxAppendEntries <= 1024))
	valid := cfg.Validate() == nil
	raw, err := cfg.ToJSON()
	vrf_assert(err == nil, "C15.raft.save-ok")
	back := &Config{}
	lerr := back.LoadJSON(raw)
	dd := &Config{}
	dd.Default()
	if valid {
		vrf_assert(lerr == nil, "C15.raft.valid-loads")
		vrf_assert(back.DataFolder == cfg.DataFolder, "C15.raft.roundtrip")
		// (an empty namespace conventionally means "use the default")
		vrf_note_bool("namespace_is_default", vrf_or(cfg.DatastoreNamespace == "", cfg.DatastoreNamespace == DefaultDatastoreNamespace))
		vrf_assert(vrf_or(back.DatastoreNamespace == cfg.DatastoreNamespace, vrf_and(cfg.DatastoreNamespace == "", back.DatastoreNamespace == DefaultDatastoreNamespace)), "C15.raft.roundtrip-namespace")
		vrf_assert(vrf_and(back.WaitForLeaderTimeout == cfg.WaitForLeaderTimeout, vrf_and(back.NetworkTimeout == cfg.NetworkTimeout, back.CommitRetryDelay == cfg.CommitRetryDelay)), "C15.raft.roundtrip")
		vrf_assert(back.CommitRetries == cfg.CommitRetries && back.BackupsRotate == cfg.BackupsRotate, "C15.raft.roundtrip")
		vrf_assert(vrf_or(back.RaftConfig.SnapshotThreshold == cfg.RaftConfig.SnapshotThreshold, vrf_and(cfg.RaftConfig.SnapshotThreshold == 0, back.RaftConfig.SnapshotThreshold == dd.RaftConfig.SnapshotThreshold)), "C15.raft.roundtrip-raftconfig")
		vrf_assert(vrf_or(back.RaftConfig.TrailingLogs == cfg.RaftConfig.TrailingLogs, vrf_and(cfg.RaftConfig.TrailingLogs == 0, back.RaftConfig.TrailingLogs == dd.RaftConfig.TrailingLogs)), "C15.raft.roundtrip-raftconfig")
		// the hashicorp/raft timing settings (a valid value is never zero)
		rc, bc := cfg.RaftConfig, back.RaftConfig
		vrf_assert(vrf_and(vrf_and(bc.HeartbeatTimeout == rc.HeartbeatTimeout, bc.ElectionTimeout == rc.ElectionTimeout),
			vrf_and(bc.CommitTimeout == rc.CommitTimeout, vrf_and(bc.SnapshotInterval == rc.SnapshotInterval, bc.LeaderLeaseTimeout == rc.LeaderLeaseTimeout))), "C15.raft.roundtrip-raft-timing")
		vrf_assert(bc.MaxAppendEntries == rc.MaxAppendEntries, "C15.raft.roundtrip-raftconfig")
	} else {
		zeroish := vrf_or(cfg.WaitForLeaderTimeout == 0, vrf_or(cfg.NetworkTimeout == 0, vrf_or(cfg.CommitRetryDelay == 0, cfg.BackupsRotate == 0)))
		vrf_assert(vrf_or(zeroish, lerr != nil), "C15.raft.invalid-rejected")
	}
	if lerr == nil {
		vrf_assert(back.Validate() == nil, "C15.raft.loaded-implies-valid")
	}
	vrf_reach("C15.raft.end")
}
