package crdt

import (
	"context"
	"errors"
	"io"
	"time"

	"github.com/ipfs/ipfs-cluster/api"
	"github.com/ipfs/ipfs-cluster/state"

	cid "github.com/ipfs/go-cid"
)

var vrfEntries = map[string]func(){
	"VrfC02Worker": VrfC02Worker,
	"VrfC02Direct": VrfC02Direct,
	"VrfC02Age":    VrfC02Age,
	"VrfC02Hooks":  VrfC02Hooks,
}

func vrfCid(i int) cid.Cid {
	c, _ := cid.Decode([]string{
		"QmUaFyXjZUNaUwYF8rBtbJc7fEJ46aJXvgV8z2HHs6jvmJ",
		"QmbrCtydGyPeHiLURSPMqrvE5mCgMCwFYq3UD4XLCeAYw6"}[i])
	return c
}

type vrfOp struct {
	unpin bool
	cid   int
}

// vrfBatchState implements state.BatchingState: staged writes become visible at Commit.
type vrfBatchState struct {
	ops          []vrfOp // every Add/Rm call, in call order
	staged       int     // writes since the last successful commit
	commits      int     // Commit calls
	commitsOK    int
	committedOps int
	failWrites   bool
	neverFail    bool // commits always succeed (VrfC02Age)
}

func (s *vrfBatchState) cidIndex(c cid.Cid) int {
	if c.Equals(vrfCid(0)) {
		return 0
	}
	return 1
}
func (s *vrfBatchState) List(context.Context) ([]*api.Pin, error)      { return nil, nil }
func (s *vrfBatchState) Has(context.Context, cid.Cid) (bool, error)    { return false, nil }
func (s *vrfBatchState) Get(context.Context, cid.Cid) (*api.Pin, error) { return nil, state.ErrNotFound }
func (s *vrfBatchState) Add(ctx context.Context, p *api.Pin) error {
	s.ops = append(s.ops, vrfOp{false, s.cidIndex(p.Cid)})
	if s.failWrites && vrf_nondet_bool("write_fails") {
		return errors.New("datastore: batch put failed")
	}
	s.staged++
	return nil
}
func (s *vrfBatchState) Rm(ctx context.Context, c cid.Cid) error {
	s.ops = append(s.ops, vrfOp{true, s.cidIndex(c)})
	if s.failWrites && vrf_nondet_bool("write_fails") {
		return errors.New("datastore: batch delete failed")
	}
	s.staged++
	return nil
}
func (s *vrfBatchState) Migrate(context.Context, io.Reader) error { return nil }
func (s *vrfBatchState) Marshal(io.Writer) error                  { return nil }
func (s *vrfBatchState) Unmarshal(io.Reader) error                { return nil }
func (s *vrfBatchState) Commit(context.Context) error {
	s.commits++
	if !s.neverFail && vrf_nondet_bool("commit_fails") {
		vrf_event("commit fails")
		return errors.New("datastore: commit failed")
	}
	vrf_event("commit ok")
	s.commitsOK++
	s.committedOps += s.staged
	s.staged = 0
	return nil
}

const vrfMaxAgeMS = 150

// VrfC02Worker: the real LogPin/LogUnpin enqueue path and the real
// batchWorker loop (run as a goroutine), under harness-chosen event sequences:
// submissions, bursts larger than the queue, time passing beyond the age
// limit, and commit failures at any commit.
func VrfC02Worker() {
	maxSize := 1 + vrf_choice("max_batch_size_minus_1", vrf_param("max_batch_size"))
	queue := vrf_param("queue")
	bs := &vrfBatchState{failWrites: vrf_param("write_failures") == 1}
	ctx, cancel := context.WithCancel(context.Background())
	cfg := &Config{}
	cfg.Batching = BatchingConfig{MaxBatchSize: maxSize, MaxBatchAge: vrfMaxAgeMS * time.Millisecond, MaxQueueSize: queue}
	// (state = the committed view of the same store: nothing of the open batch is in it)
	css := &Consensus{ctx: ctx, cancel: cancel, config: cfg, batchingState: bs, state: bs,
		batchItemCh: make(chan batchItem, queue)}
	go css.batchWorker()
	vrf_yield()

	var accepted []vrfOp
	seq := 0
	submit := func(choose bool) bool {
		seq++
		op := vrfOp{unpin: seq%2 == 0, cid: (seq / 2) % 2} // bursts use a fixed alternating pattern
		if choose {
			op = vrfOp{unpin: vrf_choice("unpin", 2) == 1, cid: vrf_choice("cid", 2)}
		}
		pin := api.PinCid(vrfCid(op.cid))
		// every submission comes with the context of the request that made it; the
		// request may be over (its context cancelled) as soon as it was answered,
		// long before the worker gets to the operation
		rctx, rcancel := context.WithCancel(context.Background())
		var err error
		if op.unpin {
			err = css.LogUnpin(rctx, pin)
		} else {
			err = css.LogPin(rctx, pin)
		}
		if choose && vrf_param("request_end_symbolic") == 1 {
			if vrf_choice("request_over_once_answered", 2) == 1 {
				rcancel()
			}
		} else if seq%2 == 1 {
			rcancel()
		}
		if err == nil {
			accepted = append(accepted, op)
			return true
		}
		vrf_assert(errors.Is(err, ErrMaxQueueSizeReached), "C02.enqueue.refusal-is-queue-full")
		return false
	}
	k := vrf_param("events")
	for e := 0; e < k; e++ {
		switch vrf_choice("event", 3) {
		case 0: // one submission, then the worker runs
			before := len(css.batchItemCh)
			ok := submit(true)
			vrf_assert(ok == (before < queue), "C02.enqueue.full-iff-refused")
			vrf_yield()
		case 1: // a burst of queue+1 submissions before the worker gets to run
			okN := 0
			before := len(css.batchItemCh)
			for i := 0; i <= queue; i++ {
				if submit(false) {
					okN++
				}
			}
			vrf_assert(okN == queue-before, "C02.enqueue.burst-accepts-what-fits")
			vrf_yield()
		case 2: // the age limit passes
			hadStaged := bs.staged > 0
			commitsBefore := bs.commits
			vrf_advance_time(2 * vrfMaxAgeMS)
			vrf_note_bool("staged_when_age_limit_passed", hadStaged)
			if hadStaged {
				vrf_assert(bs.commits > commitsBefore, "C02.worker.age-commit")
			}
		}
		// a batch that reached its size limit has been offered for commit
		vrf_assert(bs.staged < maxSize || bs.commits > bs.commitsOK, "C02.worker.size-commit")
	}
	// whatever was accepted reached the state, in submission order
	vrf_yield()
	vrf_assert(len(css.batchItemCh) == 0, "C02.worker.queue-drained")
	vrf_assert(len(bs.ops) == len(accepted), "C02.worker.no-loss")
	if len(bs.ops) == len(accepted) {
		for i := range accepted {
			vrf_assert(bs.ops[i] == accepted[i], "C02.worker.order-preserved")
		}
	}
	// and the worker is still alive: one more submission is taken from the queue
	if submit(false) {
		vrf_yield()
		vrf_assert(len(css.batchItemCh) == 0, "C02.worker.never-blocked")
	}
	// with no further failures everything staged is committed once the age limit passes
	vrf_advance_time(2 * vrfMaxAgeMS)
	vrf_advance_time(2 * vrfMaxAgeMS)
	vrf_note_int("staged_at_end", bs.staged)
	vrf_assert(bs.staged == 0 || bs.commits > bs.commitsOK, "C02.worker.eventually-committed")
	cancel()
	vrf_yield()
	vrf_reach("C02.worker.end")
}

// VrfC02Direct: with batching disabled a pin/unpin is exactly one state write
// whose error is returned.
func VrfC02Direct() {
	bs := &vrfBatchState{failWrites: true}
	cfg := &Config{}
	cfg.Batching = BatchingConfig{MaxBatchSize: vrf_choice("max_batch_size", 2), MaxBatchAge: time.Duration(vrf_choice("max_batch_age", 2)) * time.Second, MaxQueueSize: 1}
	vrf_assume(!cfg.batchingEnabled())
	css := &Consensus{ctx: context.Background(), config: cfg, state: bs, batchItemCh: make(chan batchItem, 1)}
	unpin := vrf_choice("unpin", 2) == 1
	pin := api.PinCid(vrfCid(vrf_choice("cid", 2)))
	var err error
	if unpin {
		err = css.LogUnpin(css.ctx, pin)
	} else {
		err = css.LogPin(css.ctx, pin)
	}
	vrf_assert(len(bs.ops) == 1, "C02.direct.one-write")
	if len(bs.ops) == 1 {
		vrf_assert(bs.ops[0].unpin == unpin && bs.ops[0].cid == bs.cidIndex(pin.Cid), "C02.direct.same-operation")
	}
	vrf_assert((err == nil) == (bs.staged == 1), "C02.direct.error-returned")
	vrf_assert(len(css.batchItemCh) == 0, "C02.direct.not-queued")
	vrf_reach("C02.direct.end")
}

// VrfC02Age: the age limit is measured from the OLDEST operation of the batch.
// Operations trickle in (arbitrary gaps of up to one age limit), the size
// limit is out of reach, commits succeed: at every instant every staged
// operation is younger than the age limit, and the worker committed exactly
// when the oldest one reached it.
func VrfC02Age() {
	age := int64(vrfMaxAgeMS * time.Millisecond)
	bs := &vrfBatchState{neverFail: true}
	ctx, cancel := context.WithCancel(context.Background())
	cfg := &Config{}
	cfg.Batching = BatchingConfig{MaxBatchSize: 100, MaxBatchAge: time.Duration(age), MaxQueueSize: 10}
	css := &Consensus{ctx: ctx, cancel: cancel, config: cfg, batchingState: bs, state: bs, batchItemCh: make(chan batchItem, 10)}
	go css.batchWorker()
	vrf_yield()
	var t int64
	var acceptedAt []int64
	k := vrf_param("events")
	for e := 0; e <= k; e++ {
		if e < k {
			err := css.LogPin(ctx, api.PinCid(vrfCid(e%2)))
			vrf_assert(err == nil, "C02.age.accepted")
			acceptedAt = append(acceptedAt, t)
			vrf_yield()
		}
		gap := vrf_nondet_int64("gap")
		vrf_assume(vrf_and(gap >= 0, gap <= age+age/2))
		vrf_elapse(gap)
		t += gap
		vrf_assert(len(bs.ops) == len(acceptedAt), "C02.age.taken-from-queue")
		if bs.staged > 0 && bs.staged <= len(acceptedAt) {
			oldest := acceptedAt[len(acceptedAt)-bs.staged]
			vrf_assert(t-oldest < age, "C02.age.measured-from-oldest")
		}
	}
	cancel()
	vrf_yield()
	vrf_reach("C02.age.end")
}
