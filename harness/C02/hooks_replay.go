package crdt

// the hooks are only reachable inside the symbolic executor (crdt.New is replaced there)
func VrfC02Hooks() {}
