package crdt

import (
	"context"
	"errors"

	"github.com/ipfs/ipfs-cluster/api"
	"github.com/ipfs/ipfs-cluster/state/dsstate"

	cid "github.com/ipfs/go-cid"
	ds "github.com/ipfs/go-datastore"
	query "github.com/ipfs/go-datastore/query"
	crdt "github.com/ipfs/go-ds-crdt"
	host "github.com/libp2p/go-libp2p-core/host"
	peer "github.com/libp2p/go-libp2p-core/peer"
	rpc "github.com/libp2p/go-libp2p-gorpc"
	pubsub "github.com/libp2p/go-libp2p-pubsub"
)

// what setup() hands to the replicated datastore
var vrfOpts *crdt.Options

// stands for crdt.NewPubSubBroadcaster (pubsub is outside the model)
func vrfNoBroadcaster(ctx context.Context, psub *pubsub.PubSub, topic string) (*crdt.PubSubBroadcaster, error) {
	return nil, nil
}

// stands for crdt.New: keeps the options (the hooks) and stops setup() there
func vrfCrdtNew(store ds.Datastore, namespace ds.Key, dagSyncer crdt.DAGSyncer, bcast crdt.Broadcaster, opts *crdt.Options) (*crdt.Datastore, error) {
	vrfOpts = opts
	return nil, errors.New("the replicated datastore is outside the model")
}

// a datastore that records what the pinset state writes: the (key, value) pairs
// the replicated datastore would hand to the hooks on every replica
type vrfKV struct {
	k ds.Key
	v []byte
}
type vrfRecDs struct {
	puts []vrfKV
	dels []ds.Key
}

func (d *vrfRecDs) Get(ds.Key) ([]byte, error)                { return nil, ds.ErrNotFound }
func (d *vrfRecDs) Has(ds.Key) (bool, error)                  { return false, nil }
func (d *vrfRecDs) GetSize(ds.Key) (int, error)               { return 0, ds.ErrNotFound }
func (d *vrfRecDs) Query(query.Query) (query.Results, error)  { return nil, errors.New("no queries") }
func (d *vrfRecDs) Put(k ds.Key, v []byte) error {
	d.puts = append(d.puts, vrfKV{k, append([]byte{}, v...)})
	return nil
}
func (d *vrfRecDs) Delete(k ds.Key) error { d.dels = append(d.dels, k); return nil }
func (d *vrfRecDs) Sync(ds.Key) error     { return nil }
func (d *vrfRecDs) Close() error          { return nil }

// the libp2p host: only its ID matters here
type vrfHookHost struct {
	host.Host
	id peer.ID
}

func (h *vrfHookHost) ID() peer.ID { return h.id }

func vrfHookPeer(i int) peer.ID {
	p, err := peer.Decode([]string{"QmZHKZDavkvNfA9gSAg7HALv8jF7BJaKjUc9U2LSuvUySB", "QmP63DkAFEnDYNjDYBpyNDfttu1fvUw99x1brscPzpqmmq"}[i])
	if err != nil {
		panic(err)
	}
	return p
}

type vrfHookTracker struct {
	tracked, untracked []*api.Pin
}

func (t *vrfHookTracker) Track(ctx context.Context, in *api.Pin, out *struct{}) error {
	t.tracked = append(t.tracked, in)
	return nil
}
func (t *vrfHookTracker) Untrack(ctx context.Context, in *api.Pin, out *struct{}) error {
	t.untracked = append(t.untracked, in)
	return nil
}

// a CIDv0, a CIDv1 (dag-pb, sha2-256) and a CIDv1 (raw, blake2b-256)
var vrfHookCids = []string{
	"QmUaFyXjZUNaUwYF8rBtbJc7fEJ46aJXvgV8z2HHs6jvmJ",
	"bafybeigdyrzt5sfp7udm7hu76uh7y26nf3efuylqabf3oclgtqy55fbzdi",
	"bafk2bzaceawsyhsnrwwy5mtit2emnjfalkxsyq2p2ptd6fuliolzwwjbs42fq",
}

// VrfC02Hooks: every change that lands in a replica's pinset - however it got
// there - is handed to the pin tracker: the hooks that setup() installs in the
// replicated datastore, fed with exactly what the pinset state writes for a pin
// or an unpin of any kind of CID, tell the tracker to track that pin (as it
// was stored) or to untrack that CID, once.
func VrfC02Hooks() {
	ctx, cancel := context.WithCancel(context.Background())
	css := &Consensus{ctx: ctx, cancel: cancel, config: &Config{ClusterName: "vrf"}, rpcReady: make(chan struct{}, 1),
		pubsub: &pubsub.PubSub{}, host: &vrfHookHost{id: vrfHookPeer(0)}}
	trk := &vrfHookTracker{}
	srv := rpc.NewServer(nil, "vrf")
	if err := srv.RegisterName("PinTracker", trk); err != nil {
		panic(err)
	}
	css.rpcClient = rpc.NewClientWithServer(nil, "vrf", srv)
	css.rpcReady <- struct{}{}
	vrfOpts = nil
	css.setup()
	vrf_assert(vrfOpts != nil && vrfOpts.PutHook != nil && vrfOpts.DeleteHook != nil, "C02.hooks.installed")
	if vrfOpts == nil || vrfOpts.PutHook == nil || vrfOpts.DeleteHook == nil {
		return
	}
	rec := &vrfRecDs{}
	st, err := dsstate.New(rec, "", dsstate.DefaultHandle())
	if err != nil {
		panic(err)
	}
	c, err := cid.Decode(vrfHookCids[vrf_choice("cid", len(vrfHookCids))])
	if err != nil {
		panic(err)
	}
	pin := api.PinCid(c)
	pin.Name = vrf_nondet_string("name")
	// allocated to this peer, to another one, or to nobody in particular: the
	// tracker hears about every entry (it is the tracker that decides what a pin
	// allocated elsewhere means - e.g. unpinning what it held before a re-allocation)
	switch vrf_choice("allocated_to", 3) {
	case 1:
		pin.Allocations = []peer.ID{vrfHookPeer(0)}
	case 2:
		pin.Allocations = []peer.ID{vrfHookPeer(1)}
	}
	pin.ReplicationFactorMin, pin.ReplicationFactorMax = vrf_nondet_int("rmin"), vrf_nondet_int("rmax")
	// documented: factors are stored as 32-bit integers
	vrf_assume(vrf_and(vrf_and(pin.ReplicationFactorMin >= -1<<31, pin.ReplicationFactorMin < 1<<31), vrf_and(pin.ReplicationFactorMax >= -1<<31, pin.ReplicationFactorMax < 1<<31)))
	if vrf_choice("unpin", 2) == 0 {
		vrf_assert(st.Add(ctx, pin) == nil && len(rec.puts) == 1, "C02.hooks.state-writes-one-entry")
		vrfOpts.PutHook(rec.puts[0].k, rec.puts[0].v)
		vrf_assert(len(trk.tracked) == 1 && len(trk.untracked) == 0, "C02.hooks.pin-reaches-tracker-once")
		if len(trk.tracked) == 1 {
			got := trk.tracked[0]
			vrf_assert(got.Cid.Equals(c), "C02.hooks.tracker-told-the-same-cid")
			vrf_assert(len(got.Allocations) == len(pin.Allocations) && (len(got.Allocations) == 0 || got.Allocations[0] == pin.Allocations[0]), "C02.hooks.tracker-told-the-stored-pin")
			vrf_assert(vrf_and(got.Name == pin.Name, vrf_and(got.ReplicationFactorMin == pin.ReplicationFactorMin, got.ReplicationFactorMax == pin.ReplicationFactorMax)), "C02.hooks.tracker-told-the-stored-pin")
		}
	} else {
		vrf_assert(st.Rm(ctx, c) == nil && len(rec.dels) == 1, "C02.hooks.state-writes-one-entry")
		vrfOpts.DeleteHook(rec.dels[0])
		vrf_assert(len(trk.untracked) == 1 && len(trk.tracked) == 0, "C02.hooks.unpin-reaches-tracker-once")
		if len(trk.untracked) == 1 {
			vrf_assert(trk.untracked[0].Cid.Equals(c), "C02.hooks.tracker-told-the-same-cid")
		}
	}
	vrf_reach("C02.hooks.end")
}
