package stateless

var vrfEntries = map[string]func(){"VrfC15Stateless": VrfC15Stateless}

func VrfC15Stateless() {
	d := &Config{}
	d.Default()
	vrf_assert(d.Validate() == nil, "C15.stateless.default-valid")
	cfg := &Config{MaxPinQueueSize: vrf_nondet_int("max_pin_queue_size"), ConcurrentPins: vrf_nondet_int("concurrent_pins")}
	valid := cfg.Validate() == nil
	raw, err := cfg.ToJSON()
	vrf_assert(err == nil, "C15.stateless.save-ok")
	back := &Config{}
	lerr := back.LoadJSON(raw)
	// a numeric zero conventionally means "use the default"
	want := &Config{MaxPinQueueSize: cfg.MaxPinQueueSize, ConcurrentPins: cfg.ConcurrentPins}
	if want.MaxPinQueueSize == 0 {
		want.MaxPinQueueSize = DefaultMaxPinQueueSize
	}
	if want.ConcurrentPins == 0 {
		want.ConcurrentPins = DefaultConcurrentPins
	}
	if valid {
		vrf_assert(lerr == nil, "C15.stateless.valid-loads")
	}
	if want.Validate() == nil {
		vrf_assert(lerr == nil, "C15.stateless.valid-loads")
		vrf_assert(back.MaxPinQueueSize == want.MaxPinQueueSize && back.ConcurrentPins == want.ConcurrentPins, "C15.stateless.roundtrip")
	} else {
		vrf_assert(lerr != nil, "C15.stateless.invalid-rejected")
	}
	if lerr == nil {
		vrf_assert(back.Validate() == nil, "C15.stateless.loaded-implies-valid")
	}
	vrf_reach("C15.stateless.end")
}
