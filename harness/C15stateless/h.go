package stateless

import "strconv"

var vrfEntries = map[string]func(){"VrfC15Stateless": VrfC15Stateless, "VrfC15StatelessEnv": VrfC15StatelessEnv}

// VrfC15StatelessEnv: both settings supplied (or not) through environment
// variables on top of an arbitrary valid configuration. A zero means "keep".
func VrfC15StatelessEnv() {
	cfg := &Config{MaxPinQueueSize: vrf_nondet_int("max_pin_queue_size"), ConcurrentPins: vrf_nondet_int("concurrent_pins")}
	vrf_assume(cfg.Validate() == nil)
	before := *cfg
	setQ, valQ := vrf_nondet_bool("env_set_MaxPinQueueSize"), vrf_nondet_int("env_MaxPinQueueSize")
	setC, valC := vrf_nondet_bool("env_set_ConcurrentPins"), vrf_nondet_int("env_ConcurrentPins")
	vrf_env(envConfigKey, "MaxPinQueueSize", setQ, strconv.Itoa(valQ))
	vrf_env(envConfigKey, "ConcurrentPins", setC, strconv.Itoa(valC))
	err := cfg.ApplyEnvVars()
	want := Config{
		MaxPinQueueSize: vrf_ite_int(vrf_and(setQ, valQ != 0), valQ, before.MaxPinQueueSize),
		ConcurrentPins:  vrf_ite_int(vrf_and(setC, valC != 0), valC, before.ConcurrentPins),
	}
	if err == nil {
		vrf_assert(vrf_and(cfg.MaxPinQueueSize == want.MaxPinQueueSize, cfg.ConcurrentPins == want.ConcurrentPins), "C15.stateless.env-in-effect")
		vrf_assert(cfg.Validate() == nil, "C15.stateless.env-accepted-implies-valid")
	} else {
		vrf_assert(want.Validate() != nil, "C15.stateless.env-valid-accepted")
	}
	vrf_reach("C15.stateless.env-end")
}

func VrfC15Stateless() {
	d := &Config{}
	d.Default()
	vrf_assert(d.Validate() == nil, "C15.stateless.default-valid")
	cfg := &Config{MaxPinQueueSize: vrf_nondet_int("max_pin_queue_size"), ConcurrentPins: vrf_nondet_int("concurrent_pins")}
	valid := cfg.Validate() == nil
	raw, err := cfg.ToJSON()
	vrf_assert(err == nil, "C15.stateless.save-ok")
	back := &Config{}
	lerr := back.LoadJSON(raw)
	// a numeric zero conventionally means "use the default"
	want := &Config{MaxPinQueueSize: cfg.MaxPinQueueSize, ConcurrentPins: cfg.ConcurrentPins}
	if want.MaxPinQueueSize == 0 {
		want.MaxPinQueueSize = DefaultMaxPinQueueSize
	}
	if want.ConcurrentPins == 0 {
		want.ConcurrentPins = DefaultConcurrentPins
	}
	if valid {
		vrf_assert(lerr == nil, "C15.stateless.valid-loads")
	}
	if want.Validate() == nil {
		vrf_assert(lerr == nil, "C15.stateless.valid-loads")
		vrf_assert(back.MaxPinQueueSize == want.MaxPinQueueSize && back.ConcurrentPins == want.ConcurrentPins, "C15.stateless.roundtrip")
	} else {
		vrf_assert(lerr != nil, "C15.stateless.invalid-rejected")
	}
	if lerr == nil {
		vrf_assert(back.Validate() == nil, "C15.stateless.loaded-implies-valid")
	}
	vrf_reach("C15.stateless.end")
}
