package ipfscluster

import (
	"strconv"
	"time"

	ma "github.com/multiformats/go-multiaddr"
)

var vrfEntries = map[string]func(){"VrfC15Cluster": VrfC15Cluster, "VrfC15ClusterEnv": VrfC15ClusterEnv, "VrfC15ClusterDisplay": VrfC15ClusterDisplay}

var vrfC15Addrs = []string{"/ip4/0.0.0.0/tcp/9096", "/ip4/0.0.0.0/udp/9096/quic", "/dns4/peer.example.org/tcp/9096/p2p/QmZHKZDavkvNfA9gSAg7HALv8jF7BJaKjUc9U2LSuvUySB"}

func vrfC15Addr(i int) ma.Multiaddr { a, _ := ma.NewMultiaddr(vrfC15Addrs[i]); return a }

// (engine only) stands for isRPCPolicyValid, which walks the RPC types by reflection
func vrfPolicyValid(p map[string]RPCEndpointType) error { return nil }

// vrfC15Choice: the structural alternatives are explored by the save/load entry
// only; the environment entry fixes them (they are independent of the variables)
var vrfC15Fixed bool

func vrfC15Choice(tag string) int {
	if vrfC15Fixed {
		return 0
	}
	return vrf_choice(tag, 2)
}

func vrfC15Config() *Config {
	cfg := &Config{}
	cfg.RPCPolicy = DefaultRPCPolicy
	cfg.Peername = vrf_nondet_string("peername")
	if vrfC15Choice("has_secret") == 1 {
		cfg.Secret = make([]byte, 32)
		for i := range cfg.Secret {
			cfg.Secret[i] = byte(i*7 + 1)
		}
	}
	cfg.ListenAddr = []ma.Multiaddr{vrfC15Addr(0)}
	if vrfC15Choice("second_listen_addr") == 1 {
		cfg.ListenAddr = append(cfg.ListenAddr, vrfC15Addr(1))
	}
	cfg.PeerAddresses = []ma.Multiaddr{}
	if vrfC15Choice("peer_address") == 1 {
		cfg.PeerAddresses = append(cfg.PeerAddresses, vrfC15Addr(2))
	}
	cfg.EnableRelayHop = vrf_nondet_bool("enable_relay_hop")
	cfg.LeaveOnShutdown = vrf_nondet_bool("leave_on_shutdown")
	cfg.DisableRepinning = vrf_nondet_bool("disable_repinning")
	cfg.FollowerMode = vrf_nondet_bool("follower_mode")
	cfg.ConnMgr.HighWater = vrf_nondet_int("high_water")
	cfg.ConnMgr.LowWater = vrf_nondet_int("low_water")
	cfg.ConnMgr.GracePeriod = time.Duration(vrf_nondet_int64("grace_period"))
	cfg.DialPeerTimeout = time.Duration(vrf_nondet_int64("dial_peer_timeout"))
	cfg.StateSyncInterval = time.Duration(vrf_nondet_int64("state_sync_interval"))
	cfg.PinRecoverInterval = time.Duration(vrf_nondet_int64("pin_recover_interval"))
	cfg.MonitorPingInterval = time.Duration(vrf_nondet_int64("monitor_ping_interval"))
	cfg.PeerWatchInterval = time.Duration(vrf_nondet_int64("peer_watch_interval"))
	cfg.MDNSInterval = time.Duration(vrf_nondet_int64("mdns_interval"))
	cfg.ReplicationFactorMin = vrf_nondet_int("replication_factor_min")
	cfg.ReplicationFactorMax = vrf_nondet_int("replication_factor_max")
	cfg.PeerstoreFile = vrf_nondet_string("peerstore_file")
	return cfg
}

func vrfC15AddrsEqual(a, b []ma.Multiaddr) bool {
	if len(a) != len(b) {
		return false
	}
	for i := range a {
		if a[i] == nil || b[i] == nil || !a[i].Equal(b[i]) {
			return false
		}
	}
	return true
}

func VrfC15Cluster() {
	d := &Config{}
	vrf_assert(d.Default() == nil && d.Validate() == nil, "C15.cluster.default-valid")
	cfg := vrfC15Config()
	valid := cfg.Validate() == nil
	raw, err := cfg.ToJSON()
	vrf_assert(err == nil, "C15.cluster.save-ok")
	back := &Config{}
	lerr := back.LoadJSON(raw)
	if valid {
		vrf_assert(lerr == nil, "C15.cluster.valid-loads")
		// an empty peer name means "use the host name"
		vrf_assert(vrf_or(back.Peername == cfg.Peername, cfg.Peername == ""), "C15.cluster.roundtrip")
		vrf_assert(back.PeerstoreFile == cfg.PeerstoreFile, "C15.cluster.roundtrip")
		vrf_assert(len(back.Secret) == len(cfg.Secret) && (len(cfg.Secret) == 0 || (back.Secret[0] == cfg.Secret[0] && back.Secret[31] == cfg.Secret[31])), "C15.cluster.roundtrip-secret")
		vrf_assert(vrfC15AddrsEqual(back.ListenAddr, cfg.ListenAddr) && vrfC15AddrsEqual(back.PeerAddresses, cfg.PeerAddresses), "C15.cluster.roundtrip-addresses")
		vrf_assert(vrf_and(vrf_and(back.EnableRelayHop == cfg.EnableRelayHop, back.LeaveOnShutdown == cfg.LeaveOnShutdown), vrf_and(back.DisableRepinning == cfg.DisableRepinning, back.FollowerMode == cfg.FollowerMode)), "C15.cluster.roundtrip-switches")
		vrf_assert(vrf_and(back.ConnMgr.HighWater == cfg.ConnMgr.HighWater, vrf_and(back.ConnMgr.LowWater == cfg.ConnMgr.LowWater, back.ConnMgr.GracePeriod == cfg.ConnMgr.GracePeriod)), "C15.cluster.roundtrip-connmgr")
		vrf_assert(vrf_and(vrf_and(back.DialPeerTimeout == cfg.DialPeerTimeout, back.StateSyncInterval == cfg.StateSyncInterval), vrf_and(back.PinRecoverInterval == cfg.PinRecoverInterval,
			vrf_and(back.MonitorPingInterval == cfg.MonitorPingInterval, vrf_and(back.PeerWatchInterval == cfg.PeerWatchInterval, back.MDNSInterval == cfg.MDNSInterval)))), "C15.cluster.roundtrip-durations")
		vrf_assert(vrf_and(back.ReplicationFactorMin == cfg.ReplicationFactorMin, back.ReplicationFactorMax == cfg.ReplicationFactorMax), "C15.cluster.roundtrip-factors")
	} else {
		// zero replication factors fall back to the default; anything else invalid must be refused
		zeroish := vrf_or(cfg.ReplicationFactorMin == 0, cfg.ReplicationFactorMax == 0)
		vrf_assert(vrf_or(zeroish, lerr != nil), "C15.cluster.invalid-rejected")
	}
	if lerr == nil {
		vrf_assert(back.Validate() == nil, "C15.cluster.loaded-implies-valid")
	}
	vrf_reach("C15.cluster.end")
}

// VrfC15ClusterEnv: settings supplied through environment variables (CLUSTER_*)
// on top of an arbitrary valid configuration.
func VrfC15ClusterEnv() {
	vrfC15Fixed = true
	cfg := vrfC15Config()
	vrf_assume(cfg.Validate() == nil)
	bN, bMin, bMax, bF, bD, bS, bH := cfg.Peername, cfg.ReplicationFactorMin, cfg.ReplicationFactorMax, cfg.FollowerMode, cfg.DisableRepinning, cfg.StateSyncInterval, cfg.ConnMgr.HighWater
	bAddrs := cfg.ListenAddr
	setN, valN := vrf_nondet_bool("env_set_Peername"), vrf_nondet_string("env_Peername")
	setMin, valMin := vrf_nondet_bool("env_set_ReplicationFactorMin"), vrf_nondet_int("env_ReplicationFactorMin")
	setMax, valMax := vrf_nondet_bool("env_set_ReplicationFactorMax"), vrf_nondet_int("env_ReplicationFactorMax")
	setF, valF := vrf_nondet_bool("env_set_FollowerMode"), vrf_nondet_bool("env_FollowerMode")
	setD, valD := vrf_nondet_bool("env_set_DisableRepinning"), vrf_nondet_bool("env_DisableRepinning")
	setS, valS := vrf_nondet_bool("env_set_StateSyncInterval"), time.Duration(vrf_nondet_int64("env_StateSyncInterval"))
	setH, valH := vrf_nondet_bool("env_set_HighWater"), vrf_nondet_int("env_HighWater")
	vrf_env(configKey, "Peername", setN, valN)
	vrf_env(configKey, "ReplicationFactorMin", setMin, strconv.Itoa(valMin))
	vrf_env(configKey, "ReplicationFactorMax", setMax, strconv.Itoa(valMax))
	vrf_env(configKey, "FollowerMode", setF, vrf_ite_str(valF, "true", "false"))
	vrf_env(configKey, "DisableRepinning", setD, vrf_ite_str(valD, "true", "false"))
	vrf_env(configKey, "StateSyncInterval", setS, valS.String())
	vrf_env(configKey, "ConnectionManager_HighWater", setH, strconv.Itoa(valH))
	err := cfg.ApplyEnvVars()
	wN := vrf_ite_str(vrf_and(setN, valN != ""), valN, bN)
	wMin := vrf_ite_int(vrf_and(setMin, valMin != 0), valMin, bMin)
	wMax := vrf_ite_int(vrf_and(setMax, valMax != 0), valMax, bMax)
	wF := vrf_or(vrf_and(setF, valF), vrf_and(!setF, bF))
	wD := vrf_or(vrf_and(setD, valD), vrf_and(!setD, bD))
	wS := time.Duration(vrf_ite_int(setS, int(valS), int(bS)))
	wH := vrf_ite_int(setH, valH, bH)
	if err == nil {
		vrf_assert(cfg.Peername == wN, "C15.cluster.env-in-effect")
		vrf_assert(vrf_and(cfg.ReplicationFactorMin == wMin, cfg.ReplicationFactorMax == wMax), "C15.cluster.env-in-effect")
		vrf_assert(vrf_and(cfg.FollowerMode == wF, cfg.DisableRepinning == wD), "C15.cluster.env-in-effect")
		vrf_assert(vrf_and(cfg.StateSyncInterval == wS, cfg.ConnMgr.HighWater == wH), "C15.cluster.env-in-effect")
		vrf_assert(vrfC15AddrsEqual(cfg.ListenAddr, bAddrs), "C15.cluster.env-others-unchanged")
		vrf_assert(cfg.Validate() == nil, "C15.cluster.env-accepted-implies-valid")
	} else {
		want := *cfg
		want.ReplicationFactorMin, want.ReplicationFactorMax, want.StateSyncInterval, want.ConnMgr.HighWater = wMin, wMax, wS, wH
		vrf_assert(want.Validate() != nil, "C15.cluster.env-valid-accepted")
	}
	vrf_reach("C15.cluster.env-end")
}

// VrfC15ClusterDisplay: the displayable form of the cluster section shows the
// settings but not the cluster secret.
func VrfC15ClusterDisplay() {
	cfg := &Config{}
	vrf_assert(cfg.Default() == nil, "C15.cluster.display-default")
	cfg.Peername = "peer-name-shown"
	secret := EncodeProtectorKey(cfg.Secret)
	vrf_assert(len(secret) == 64, "C15.cluster.display-has-secret")
	out, err := cfg.ToDisplayJSON()
	vrf_assert(err == nil, "C15.cluster.display-ok")
	text := string(out)
	vrf_assert(!vrf_strcontains(text, secret), "C15.cluster.display-hides-secret")
	vrf_assert(vrf_strcontains(text, "peer-name-shown"), "C15.cluster.display-shows-settings")
	vrf_reach("C15.cluster.display-end")
}
