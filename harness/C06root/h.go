package ipfscluster

import (
	"context"
	"errors"

	"github.com/ipfs/ipfs-cluster/api"

	peer "github.com/libp2p/go-libp2p-core/peer"
	rpc "github.com/libp2p/go-libp2p-gorpc"
)

var vrfEntries = map[string]func(){
	"VrfC06GlobalCid": VrfC06GlobalCid,
	"VrfC06GlobalAll": VrfC06GlobalAll,
}

// what a contacted peer answers
const (
	vrfAnsReport = iota
	vrfAnsUnreachable
	vrfAnsKinds
)

type vrfPeerAnswer struct {
	kind   int
	status [2]api.TrackerStatus // status reported per CID
	lists  [2]bool              // StatusAll: the peer lists this CID
}

var vrfAnswers = map[peer.ID]*vrfPeerAnswer{}
var vrfErrUnreachable = errors.New("dial backoff")

func vrfCidIndex(c interface{}) int {
	for i := 0; i < 2; i++ {
		if ci, ok := c.(interface{ String() string }); ok && ci.String() == vrfCid(i).String() {
			return i
		}
	}
	return 0
}

// engine hook of the gorpc model: the answer of each destination
func vrfRPCRemote(dest peer.ID, svc, method string, args, reply interface{}) (bool, error) {
	a := vrfAnswers[dest]
	if a == nil || a.kind == vrfAnsUnreachable {
		return true, vrfErrUnreachable
	}
	switch r := reply.(type) {
	case *api.PinInfo:
		i := 0
		if c, ok := args.(interface{ String() string }); ok && c.String() == vrfCid(1).String() {
			i = 1
		}
		*r = api.PinInfo{Cid: vrfCid(i), Peer: dest, PinInfoShort: api.PinInfoShort{PeerName: string(dest), Status: a.status[i]}}
	case *[]*api.PinInfo:
		for i := 0; i < 2; i++ {
			if a.lists[i] {
				*r = append(*r, &api.PinInfo{Cid: vrfCid(i), Peer: dest, PinInfoShort: api.PinInfoShort{PeerName: string(dest), Status: a.status[i]}})
			}
		}
	}
	return true, nil
}
func vrfIsAuthError(err error) bool { return false }
func vrfIsRPCError(err error) bool  { return err == vrfErrUnreachable }

func vrfGlobalCluster(members []peer.ID) (*Cluster, *vrfConsensus) {
	cons := &vrfConsensus{peers: members}
	srv := rpc.NewServer(nil, "vrf")
	c := &Cluster{ctx: context.Background(), id: members[0], config: &Config{}, consensus: cons,
		rpcClient: rpc.NewClientWithServer(nil, "vrf", srv)}
	return c, cons
}

func vrfAnswerFor(p peer.ID) *vrfPeerAnswer {
	a := &vrfPeerAnswer{kind: vrf_choice("answer", vrfAnsKinds)}
	for i := 0; i < 2; i++ {
		// any single status a tracker reports (symbolic: nothing forks on it)
		st := vrf_nondet_int("reported_status")
		vrf_assume(vrf_or(vrf_or(st == int(api.TrackerStatusPinned), st == int(api.TrackerStatusPinError)),
			vrf_or(vrf_or(st == int(api.TrackerStatusPinQueued), st == int(api.TrackerStatusUnexpectedlyUnpinned)),
				vrf_or(st == int(api.TrackerStatusPinning), st == int(api.TrackerStatusUnpinError)))))
		a.status[i] = api.TrackerStatus(st)
	}
	vrfAnswers[p] = a
	return a
}

// VrfC06GlobalCid: the cluster-wide view of one CID (Status / Recover of a CID).
func VrfC06GlobalCid() {
	n := vrf_param("members")
	members := vrfPeerNames[:n]
	c, cons := vrfGlobalCluster(members)
	inPinset := vrf_choice("in_pinset", 2) == 1
	everywhere := false
	var allocs []peer.ID
	if inPinset {
		pin := api.PinCid(vrfCid(0))
		pin.Name = "the-name"
		everywhere = vrf_choice("everywhere", 2) == 1
		if everywhere {
			pin.ReplicationFactorMin, pin.ReplicationFactorMax = -1, -1
		} else {
			// any non-empty subset of the members, possibly with a peer that left the cluster
			for i := 0; i <= n; i++ {
				if vrf_choice("allocated", 2) == 1 {
					allocs = append(allocs, vrfPeerNames[i])
				}
			}
			if len(allocs) == 0 {
				vrf_assume(false)
			}
			pin.ReplicationFactorMin, pin.ReplicationFactorMax = len(allocs), len(allocs)
			pin.Allocations = allocs
		}
		cons.pins = append(cons.pins, pin)
	}
	for i := 0; i <= n; i++ {
		vrfAnswerFor(vrfPeerNames[i])
	}

	gpi, err := c.globalPinInfoCid(c.ctx, "PinTracker", "Status", vrfCid(0))

	vrf_assert(err == nil && gpi != nil, "C06.global.cid.no-error")
	if gpi == nil {
		return
	}
	expected := 0
	for i := 0; i <= n; i++ {
		p := vrfPeerNames[i]
		member := i < n
		allocated := inPinset && (everywhere && member || vrfIndexOf(allocs, p) >= 0)
		e, ok := gpi.PeerMap[peer.Encode(p)]
		switch {
		case !inPinset:
			vrf_assert(ok == member, "C06.global.cid.unpinned-members-only")
			if ok {
				vrf_assert(e.Status == api.TrackerStatusUnpinned, "C06.global.cid.unpinned")
			}
		case allocated:
			vrf_assert(ok, "C06.global.cid.allocated-present")
			if ok {
				if vrfAnswers[p].kind == vrfAnsReport {
					vrf_assert(e.Status == vrfAnswers[p].status[0] && e.Error == "", "C06.global.cid.own-report")
				} else {
					vrf_assert(e.Status == api.TrackerStatusClusterError && e.Error != "", "C06.global.cid.unreachable-is-cluster-error")
				}
			}
		default:
			vrf_assert(ok == member, "C06.global.cid.others-members-only")
			if ok {
				vrf_assert(e.Status == api.TrackerStatusRemote, "C06.global.cid.others-remote")
			}
		}
		if ok {
			expected++
		}
	}
	// a peer appears at most once and nobody else appears
	vrf_assert(len(gpi.PeerMap) == expected, "C06.global.cid.each-peer-once")
	if inPinset {
		vrf_assert(gpi.Cid.Equals(vrfCid(0)) && gpi.Name == "the-name", "C06.global.cid.identity")
	}
	vrf_reach("C06.global.cid.end")
}

// VrfC06GlobalAll: the cluster-wide listing (StatusAll / RecoverAll): every
// member is asked for its list; the lists are merged per CID.
func VrfC06GlobalAll() {
	n := vrf_param("members")
	members := vrfPeerNames[:n]
	c, _ := vrfGlobalCluster(members)
	listed := [2]bool{}
	for i := 0; i < n; i++ {
		a := vrfAnswerFor(members[i])
		for k := 0; k < 2; k++ {
			a.lists[k] = vrf_choice("lists_cid", 2) == 1
			if a.kind == vrfAnsReport && a.lists[k] {
				listed[k] = true
			}
		}
	}

	infos, err := c.globalPinInfoSlice(c.ctx, "PinTracker", "StatusAll", api.TrackerStatusUndefined)

	vrf_assert(err == nil, "C06.global.all.no-error")
	seen := [2]int{}
	for _, gpi := range infos {
		k := -1
		for i := 0; i < 2; i++ {
			if gpi.Cid.Equals(vrfCid(i)) {
				k = i
			}
		}
		vrf_assert(k >= 0, "C06.global.all.only-listed-cids")
		if k < 0 {
			continue
		}
		seen[k]++
		count := 0
		for i := 0; i < n; i++ {
			a := vrfAnswers[members[i]]
			e, ok := gpi.PeerMap[peer.Encode(members[i])]
			switch {
			case a.kind == vrfAnsUnreachable:
				vrf_assert(ok && e.Status == api.TrackerStatusClusterError && e.Error != "", "C06.global.all.unreachable-is-cluster-error")
			case a.lists[k]:
				vrf_assert(ok && e.Status == a.status[k], "C06.global.all.own-report")
			default:
				vrf_assert(!ok, "C06.global.all.no-invented-entry")
			}
			if ok {
				count++
			}
		}
		vrf_assert(len(gpi.PeerMap) == count, "C06.global.all.each-peer-once")
	}
	for k := 0; k < 2; k++ {
		// one entry per CID that some reachable member lists, none otherwise
		want := 0
		if listed[k] {
			want = 1
		}
		vrf_assert(seen[k] == want, "C06.global.all.one-entry-per-cid")
	}
	vrf_reach("C06.global.all.end")
}
