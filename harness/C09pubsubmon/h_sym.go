package pubsubmon

import (
	"bytes"
	"context"
	"errors"

	"github.com/ipfs/ipfs-cluster/api"
	"github.com/ipfs/ipfs-cluster/monitor/metrics"

	peer "github.com/libp2p/go-libp2p-core/peer"
	pubsub "github.com/libp2p/go-libp2p-pubsub"
	pb "github.com/libp2p/go-libp2p-pubsub/pb"
	gocodec "github.com/ugorji/go/codec"
)

var vrfEntries = map[string]func(){"VrfC09Pubsub": VrfC09Pubsub}

var vrfPeers = []peer.ID{"pA", "pB", "pC"}

const vrfSecond = int64(1000000000)

// an expiry instant at least one second away from "now"
func vrfExpiry(now int64) int64 {
	delta := vrf_nondet_int64("expire_minus_now")
	vrf_assume(vrf_or(delta <= -vrfSecond, delta >= vrfSecond))
	vrf_assume(vrf_and(delta > -vrfSecond*1000000, delta < vrfSecond*1000000))
	return now + delta
}

var vrfInbox [][]byte     // what the topic delivers to this peer, in order
var vrfPublished [][]byte // what this peer published
var vrfMon *Monitor

// stands for (*pubsub.Subscription).Next: the next delivered message; when the
// history is over the monitor is shut down
func vrfNext(sub *pubsub.Subscription, ctx context.Context) (*pubsub.Message, error) {
	if len(vrfInbox) == 0 {
		vrfMon.cancel()
		return nil, errors.New("subscription cancelled")
	}
	d := vrfInbox[0]
	vrfInbox = vrfInbox[1:]
	return &pubsub.Message{Message: &pb.Message{Data: d}}, nil
}

// stands for (*pubsub.Topic).Publish
func vrfPublish(t *pubsub.Topic, ctx context.Context, data []byte, opts ...pubsub.PubOpt) error {
	vrfPublished = append(vrfPublished, append([]byte{}, data...))
	return nil
}

// what a peer running other code may put on the topic
func vrfEncode(m *api.Metric) []byte {
	var b bytes.Buffer
	if err := gocodec.NewEncoder(&b, msgpackHandle).Encode(m); err != nil {
		panic(err)
	}
	return b.Bytes()
}

type vrfSent struct {
	peer   int
	valid  bool
	expire int64
	value  string
}

// VrfC09Pubsub: the pubsub path of the monitor. An arbitrary history of
// metrics reaches this peer over the topic - some published by the real
// PublishMetric (which only publishes what is worth publishing), some put on
// the topic by others with any validity flag and expiry, possibly with an
// undecodable message in between. Afterwards LatestMetrics reports, per peer,
// exactly the metric received last, as it was sent, and only if that one is
// valid, unexpired and - when the peerset is known - from a member.
func VrfC09Pubsub() {
	now := vrf_now()
	ctx, cancel := context.WithCancel(context.Background())
	mon := &Monitor{ctx: ctx, cancel: cancel, metrics: metrics.NewStore(), config: &Config{}}
	vrfMon, vrfInbox, vrfPublished = mon, nil, nil
	// the peerset: unknown, {pA, pB} or {pB}
	ps := vrf_choice("peerset", 3)
	knowPeers := ps != 0
	member := [2]bool{ps == 1, true}
	var members []peer.ID
	for p := 0; p < 2; p++ {
		if member[p] {
			members = append(members, vrfPeers[p])
		}
	}
	if knowPeers {
		mon.peers = func(context.Context) ([]peer.ID, error) { return members, nil }
	}
	n := 1 + vrf_choice("arrivals", vrf_param("arrivals"))
	garbageAt := n // none
	if vrf_choice("undecodable_message", 2) == 1 {
		garbageAt = n - 1 // before the last arrival
	}
	var sent []vrfSent
	for i := 0; i < n; i++ {
		if i == garbageAt {
			vrfInbox = append(vrfInbox, []byte("not a metric"))
		}
		a := vrfSent{peer: vrf_choice("peer", 2), valid: vrf_nondet_bool("valid"), expire: vrfExpiry(now),
			value: vrf_nondet_string("value")}
		m := &api.Metric{Name: "ping", Peer: vrfPeers[a.peer], Value: a.value, Expire: a.expire, Valid: a.valid}
		if vrf_choice("sender_runs_this_code", 2) == 1 {
			before := len(vrfPublished)
			vrf_assert(mon.PublishMetric(ctx, m) == nil, "C09.pubsub.publish-ok")
			published := len(vrfPublished) == before+1
			vrf_assert(published == vrf_and(a.valid, a.expire > now), "C09.pubsub.publishes-iff-valid-and-unexpired")
			if !published {
				continue
			}
			vrfInbox = append(vrfInbox, vrfPublished[before])
		} else {
			vrfInbox = append(vrfInbox, vrfEncode(m))
		}
		sent = append(sent, a)
	}
	mon.logFromPubsub()
	got := mon.LatestMetrics(context.Background(), "ping")
	total := 0
	for p := 0; p < 2; p++ {
		last := -1
		for i, a := range sent {
			if a.peer == p {
				last = i
			}
		}
		cnt := 0
		var g *api.Metric
		for _, m := range got {
			if m != nil && m.Peer == vrfPeers[p] {
				cnt++
				g = m
			}
		}
		total += cnt
		if last < 0 {
			vrf_assert(cnt == 0, "C09.pubsub.nothing-invented")
			continue
		}
		want := vrf_and(vrf_and(sent[last].valid, sent[last].expire > now), vrf_or(!knowPeers, member[p]))
		vrf_assert(vrf_and(vrf_implies(want, cnt == 1), vrf_implies(!want, cnt == 0)), "C09.pubsub.latest-valid-unexpired-member")
		if g != nil {
			vrf_assert(vrf_and(vrf_and(g.Valid, g.Value == sent[last].value), vrf_and(g.Expire == sent[last].expire, g.Name == "ping")), "C09.pubsub.arrives-as-sent")
		}
	}
	vrf_assert(total == len(got), "C09.pubsub.one-per-peer")
	vrf_reach("C09.pubsub.end")
}
