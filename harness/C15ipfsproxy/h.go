package ipfsproxy

import (
	"strconv"
	"time"

	ma "github.com/multiformats/go-multiaddr"
)

var vrfEntries = map[string]func(){"VrfC15Ipfsproxy": VrfC15Ipfsproxy, "VrfC15IpfsproxyEnv": VrfC15IpfsproxyEnv}

var vrfAddrs = []string{"/ip4/127.0.0.1/tcp/9095", "/ip6/::1/tcp/9095", "/dns4/proxy.example.org/tcp/9095"}

func vrfAddr(i int) ma.Multiaddr { a, _ := ma.NewMultiaddr(vrfAddrs[i]); return a }

func vrfSymbolicConfig() *Config {
	cfg := &Config{}
	cfg.ListenAddr = []ma.Multiaddr{vrfAddr(0)}
	if vrf_choice("second_listen_addr", 2) == 1 {
		cfg.ListenAddr = append(cfg.ListenAddr, vrfAddr(1))
	}
	cfg.NodeAddr = vrfAddr(2)
	cfg.NodeHTTPS = vrf_nondet_bool("node_https")
	cfg.LogFile = vrf_nondet_string("log_file")
	cfg.ReadTimeout = time.Duration(vrf_nondet_int64("read_timeout"))
	cfg.ReadHeaderTimeout = time.Duration(vrf_nondet_int64("read_header_timeout"))
	cfg.WriteTimeout = time.Duration(vrf_nondet_int64("write_timeout"))
	cfg.IdleTimeout = time.Duration(vrf_nondet_int64("idle_timeout"))
	cfg.MaxHeaderBytes = vrf_nondet_int("max_header_bytes")
	if vrf_choice("extra_headers", 2) == 1 {
		cfg.ExtractHeadersExtra = []string{"X-Custom"}
	}
	cfg.ExtractHeadersPath = vrf_nondet_string("extract_headers_path")
	cfg.ExtractHeadersTTL = time.Duration(vrf_nondet_int64("extract_headers_ttl"))
	return cfg
}

func vrfAddrsEqual(a, b []ma.Multiaddr) bool {
	if len(a) != len(b) {
		return false
	}
	for i := range a {
		if a[i] == nil || b[i] == nil || !a[i].Equal(b[i]) {
			return false
		}
	}
	return true
}

func VrfC15Ipfsproxy() {
	d := &Config{}
	vrf_assert(d.Default() == nil && d.Validate() == nil, "C15.ipfsproxy.default-valid")
	cfg := vrfSymbolicConfig()
	valid := cfg.Validate() == nil
	raw, err := cfg.ToJSON()
	vrf_assert(err == nil, "C15.ipfsproxy.save-ok")
	back := &Config{}
	lerr := back.LoadJSON(raw)
	if valid {
		vrf_assert(lerr == nil, "C15.ipfsproxy.valid-loads")
		vrf_assert(vrfAddrsEqual(back.ListenAddr, cfg.ListenAddr) && back.NodeAddr != nil && back.NodeAddr.Equal(cfg.NodeAddr), "C15.ipfsproxy.roundtrip-addresses")
		vrf_assert(back.NodeHTTPS == cfg.NodeHTTPS, "C15.ipfsproxy.roundtrip")
		vrf_assert(back.LogFile == cfg.LogFile, "C15.ipfsproxy.roundtrip")
		vrf_assert(vrf_and(vrf_and(back.ReadTimeout == cfg.ReadTimeout, back.ReadHeaderTimeout == cfg.ReadHeaderTimeout),
			vrf_and(back.WriteTimeout == cfg.WriteTimeout, vrf_and(back.IdleTimeout == cfg.IdleTimeout, back.ExtractHeadersTTL == cfg.ExtractHeadersTTL))), "C15.ipfsproxy.roundtrip-durations")
		vrf_assert(back.MaxHeaderBytes == cfg.MaxHeaderBytes, "C15.ipfsproxy.roundtrip")
		vrf_assert(back.ExtractHeadersPath == cfg.ExtractHeadersPath, "C15.ipfsproxy.roundtrip")
		vrf_assert(len(back.ExtractHeadersExtra) == len(cfg.ExtractHeadersExtra) && (len(cfg.ExtractHeadersExtra) == 0 || back.ExtractHeadersExtra[0] == cfg.ExtractHeadersExtra[0]), "C15.ipfsproxy.roundtrip")
	} else {
		// zero / empty values fall back to defaults; anything else invalid must be refused
		zeroish := vrf_or(cfg.MaxHeaderBytes == 0, cfg.ExtractHeadersPath == "")
		vrf_assert(vrf_or(zeroish, lerr != nil), "C15.ipfsproxy.invalid-rejected")
	}
	if lerr == nil {
		vrf_assert(back.Validate() == nil, "C15.ipfsproxy.loaded-implies-valid")
	}
	vrf_reach("C15.ipfsproxy.end")
}

// VrfC15IpfsproxyEnv: settings supplied through environment variables on top of
// an arbitrary valid configuration.
func VrfC15IpfsproxyEnv() {
	cfg := vrfSymbolicConfig()
	vrf_assume(cfg.Validate() == nil)
	before := *cfg
	setH, valH := vrf_nondet_bool("env_set_NodeHTTPS"), vrf_nondet_bool("env_NodeHTTPS")
	setL, valL := vrf_nondet_bool("env_set_LogFile"), vrf_nondet_string("env_LogFile")
	setR, valR := vrf_nondet_bool("env_set_ReadTimeout"), time.Duration(vrf_nondet_int64("env_ReadTimeout"))
	setT, valT := vrf_nondet_bool("env_set_ExtractHeadersTTL"), time.Duration(vrf_nondet_int64("env_ExtractHeadersTTL"))
	setM, valM := vrf_nondet_bool("env_set_MaxHeaderBytes"), vrf_nondet_int("env_MaxHeaderBytes")
	setP, valP := vrf_nondet_bool("env_set_ExtractHeadersPath"), vrf_nondet_string("env_ExtractHeadersPath")
	vrf_env(envConfigKey, "NodeHTTPS", setH, vrf_ite_str(valH, "true", "false"))
	vrf_env(envConfigKey, "LogFile", setL, valL)
	vrf_env(envConfigKey, "ReadTimeout", setR, valR.String())
	vrf_env(envConfigKey, "ExtractHeadersTTL", setT, valT.String())
	vrf_env(envConfigKey, "MaxHeaderBytes", setM, strconv.Itoa(valM))
	vrf_env(envConfigKey, "ExtractHeadersPath", setP, valP)

	err := cfg.ApplyEnvVars()

	wH := vrf_or(vrf_and(setH, valH), vrf_and(!setH, before.NodeHTTPS))
	wL := vrf_ite_str(vrf_and(setL, valL != ""), valL, before.LogFile)
	wR := time.Duration(vrf_ite_int(setR, int(valR), int(before.ReadTimeout)))
	wT := time.Duration(vrf_ite_int(setT, int(valT), int(before.ExtractHeadersTTL)))
	wM := vrf_ite_int(setM, vrf_ite_int(valM == 0, DefaultMaxHeaderBytes, valM), before.MaxHeaderBytes)
	wP := vrf_ite_str(vrf_and(setP, valP != ""), valP, before.ExtractHeadersPath)
	wantValid := vrf_and(vrf_and(wR >= 0, wT >= 0), wM >= minMaxHeaderBytes)
	if err == nil {
		vrf_note_bool("https_env_false_over_true", vrf_and(vrf_and(setH, !valH), before.NodeHTTPS))
		vrf_assert(cfg.NodeHTTPS == wH, "C15.ipfsproxy.env-in-effect-https")
		vrf_assert(vrf_and(cfg.LogFile == wL, cfg.ExtractHeadersPath == wP), "C15.ipfsproxy.env-in-effect")
		vrf_assert(vrf_and(cfg.ReadTimeout == wR, vrf_and(cfg.ExtractHeadersTTL == wT, cfg.MaxHeaderBytes == wM)), "C15.ipfsproxy.env-in-effect")
		vrf_assert(vrfAddrsEqual(cfg.ListenAddr, before.ListenAddr) && cfg.NodeAddr.Equal(before.NodeAddr), "C15.ipfsproxy.env-others-unchanged")
		vrf_assert(vrf_and(cfg.WriteTimeout == before.WriteTimeout, vrf_and(cfg.IdleTimeout == before.IdleTimeout, cfg.ReadHeaderTimeout == before.ReadHeaderTimeout)), "C15.ipfsproxy.env-others-unchanged")
		vrf_assert(cfg.Validate() == nil, "C15.ipfsproxy.env-accepted-implies-valid")
	} else {
		vrf_assert(!wantValid, "C15.ipfsproxy.env-valid-accepted")
	}
	vrf_reach("C15.ipfsproxy.env-end")
}
