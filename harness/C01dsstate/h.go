package dsstate

import (
	"bytes"
	"context"
	"strings"

	"github.com/ipfs/ipfs-cluster/api"

	cid "github.com/ipfs/go-cid"
	ds "github.com/ipfs/go-datastore"
	query "github.com/ipfs/go-datastore/query"
	goprocess "github.com/jbenet/goprocess"
	peer "github.com/libp2p/go-libp2p-core/peer"
)

var vrfEntries = map[string]func(){"VrfC01Snapshot": VrfC01Snapshot, "VrfC01StateOps": VrfC01StateOps, "VrfC14StateRoundtrip": VrfC14StateRoundtrip}

func vrfCid(i int) cid.Cid {
	c, _ := cid.Decode([]string{
		"QmUaFyXjZUNaUwYF8rBtbJc7fEJ46aJXvgV8z2HHs6jvmJ",
		// a CIDv1 over the SAME multihash as entry 0: the two are different
		// pins and must never share a datastore key or come back as each other
		"bafybeic4ukgcd3xmn24mw425u235sywkypky6eku3wc7hgoi2parclxktu",
		"QmZHKZDavkvNfA9gSAg7HALv8jF7BJaKjUc9U2LSuvUySB"}[i])
	return c
}

// ---- a plain key/value datastore

type vrfKV struct {
	k string
	v []byte
}
type vrfDS struct{ kvs []vrfKV }

func (d *vrfDS) idx(k ds.Key) int {
	for i, e := range d.kvs {
		if e.k == k.String() {
			return i
		}
	}
	return -1
}
func (d *vrfDS) Get(k ds.Key) ([]byte, error) {
	if i := d.idx(k); i >= 0 {
		return d.kvs[i].v, nil
	}
	return nil, ds.ErrNotFound
}
func (d *vrfDS) Has(k ds.Key) (bool, error) { return d.idx(k) >= 0, nil }
func (d *vrfDS) GetSize(k ds.Key) (int, error) {
	if i := d.idx(k); i >= 0 {
		return len(d.kvs[i].v), nil
	}
	return -1, ds.ErrNotFound
}
func (d *vrfDS) Put(k ds.Key, v []byte) error {
	if i := d.idx(k); i >= 0 {
		d.kvs[i].v = v
		return nil
	}
	d.kvs = append(d.kvs, vrfKV{k.String(), v})
	return nil
}
func (d *vrfDS) Delete(k ds.Key) error {
	if i := d.idx(k); i >= 0 {
		d.kvs = append(d.kvs[:i:i], d.kvs[i+1:]...)
	}
	return nil
}
func (d *vrfDS) Sync(ds.Key) error { return nil }
func (d *vrfDS) Close() error      { return nil }
func (d *vrfDS) Query(q query.Query) (query.Results, error) {
	r := &vrfResults{q: q}
	for _, e := range d.kvs {
		if strings.HasPrefix(e.k, q.Prefix) {
			r.entries = append(r.entries, query.Entry{Key: e.k, Value: e.v})
		}
	}
	return r, nil
}

type vrfResults struct {
	q       query.Query
	entries []query.Entry
}

func (r *vrfResults) Query() query.Query { return r.q }
func (r *vrfResults) Next() <-chan query.Result {
	ch := make(chan query.Result, len(r.entries))
	for _, e := range r.entries {
		ch <- query.Result{Entry: e}
	}
	close(ch)
	return ch
}
func (r *vrfResults) NextSync() (query.Result, bool) { return query.Result{}, false }
func (r *vrfResults) Rest() ([]query.Entry, error)   { return r.entries, nil }
func (r *vrfResults) Close() error                   { return nil }
func (r *vrfResults) Process() goprocess.Process     { return nil }

func vrfPin(i int, tag string) *api.Pin {
	p := api.PinCid(vrfCid(i))
	p.Name = vrf_nondet_string(tag + "_name")
	p.ReplicationFactorMin = int(vrf_nondet_int32(tag + "_rmin"))
	p.ReplicationFactorMax = int(vrf_nondet_int32(tag + "_rmax"))
	return p
}

// VrfC01Snapshot: serialising a replica's pinset and loading it into another
// replica (a Raft snapshot install, an import) yields exactly that pinset.
func VrfC01Snapshot() {
	ctx := context.Background()
	src, _ := New(&vrfDS{}, "", nil)
	var want [3]*api.Pin
	for i := 0; i < 3; i++ {
		if vrf_choice("in_snapshot", 2) == 1 {
			want[i] = vrfPin(i, "snap")
			vrf_assert(src.Add(ctx, want[i]) == nil, "C01.snapshot.add-ok")
		}
	}
	var buf bytes.Buffer
	vrf_assert(src.Marshal(&buf) == nil, "C01.snapshot.marshal-ok")

	dst, _ := New(&vrfDS{}, "", nil)
	extra := false
	if vrf_param("nonempty_target") == 1 {
		for i := 0; i < 3; i++ {
			if vrf_choice("in_target_before", 2) == 1 {
				vrf_assert(dst.Add(ctx, vrfPin(i, "stale")) == nil, "C01.snapshot.add-ok")
				if want[i] == nil {
					extra = true
				}
			}
		}
	}
	vrf_note_bool("target_had_entries_not_in_snapshot", extra)
	vrf_assert(dst.Unmarshal(&buf) == nil, "C01.snapshot.unmarshal-ok")

	got, err := dst.List(ctx)
	vrf_assert(err == nil, "C01.snapshot.list-ok")
	for i := 0; i < 3; i++ {
		n := 0
		var found *api.Pin
		for _, p := range got {
			if p.Cid.Equals(vrfCid(i)) {
				n++
				found = p
			}
		}
		if want[i] == nil {
			vrf_assert(n == 0, "C01.snapshot.install-exact")
			continue
		}
		vrf_assert(n == 1, "C01.snapshot.roundtrip")
		if found != nil {
			vrf_assert(vrf_and(found.Name == want[i].Name, vrf_and(found.ReplicationFactorMin == want[i].ReplicationFactorMin, found.ReplicationFactorMax == want[i].ReplicationFactorMax)), "C01.snapshot.roundtrip")
		}
	}
	vrf_reach("C01.snapshot.end")
}

func vrfPeer(i int) peer.ID {
	p, _ := peer.Decode([]string{"QmZHKZDavkvNfA9gSAg7HALv8jF7BJaKjUc9U2LSuvUySB", "QmP63DkAFEnDYNjDYBpyNDfttu1fvUw99x1brscPzpqmmq"}[i])
	return p
}

// vrfFullPin: a pin whose stored fields all vary (also those that api.Pin.Equals
// treats as irrelevant: the order of the allocations, the update source).
func vrfFullPin(i int) *api.Pin {
	p := vrfPin(i, "op")
	switch vrf_choice("allocations", 3) {
	case 1:
		p.Allocations = append(p.Allocations, vrfPeer(0), vrfPeer(1))
	case 2:
		p.Allocations = append(p.Allocations, vrfPeer(1), vrfPeer(0))
	}
	if vrf_choice("has_update_source", 2) == 1 {
		p.PinUpdate = vrfCid(2)
	}
	if vrf_choice("direct", 2) == 1 {
		p.Mode, p.MaxDepth = api.PinModeDirect, 0
	}
	return p
}

func vrfSamePin(a, b *api.Pin) bool {
	if a == nil || b == nil {
		return a == b
	}
	if !a.Cid.Equals(b.Cid) || !a.PinUpdate.Equals(b.PinUpdate) || len(a.Allocations) != len(b.Allocations) || a.Mode != b.Mode || a.MaxDepth != b.MaxDepth {
		return false
	}
	for i := range a.Allocations {
		if a.Allocations[i] != b.Allocations[i] {
			return false
		}
	}
	return vrf_and(a.Name == b.Name, vrf_and(a.ReplicationFactorMin == b.ReplicationFactorMin, a.ReplicationFactorMax == b.ReplicationFactorMax))
}

// VrfC01StateOps: the replicated state machine's store. After any sequence of
// Add / Rm over two CIDs the real dsstate.State holds, for each CID, exactly the
// pin of the last Add (every stored field, not an "equivalent" pin), or nothing
// after an Rm: "pin inserts or replaces the entry for its CID, unpin deletes it".
func VrfC01StateOps() {
	ctx := context.Background()
	st, _ := New(&vrfDS{}, "", nil)
	var want [2]*api.Pin
	k := vrf_param("ops")
	for e := 0; e < k; e++ {
		i := vrf_choice("cid", 2)
		if vrf_choice("unpin", 2) == 1 {
			vrf_assert(st.Rm(ctx, vrfCid(i)) == nil, "C01.state.rm-ok")
			want[i] = nil
		} else {
			p := vrfFullPin(i)
			vrf_assert(st.Add(ctx, p) == nil, "C01.state.add-ok")
			want[i] = p
		}
	}
	list, err := st.List(ctx)
	vrf_assert(err == nil, "C01.state.list-ok")
	for i := 0; i < 2; i++ {
		got, gerr := st.Get(ctx, vrfCid(i))
		has, herr := st.Has(ctx, vrfCid(i))
		vrf_assert(herr == nil && has == (want[i] != nil), "C01.state.has")
		n := 0
		for _, p := range list {
			if p.Cid.Equals(vrfCid(i)) {
				n++
				vrf_assert(vrfSamePin(p, want[i]), "C01.state.list-is-last-write")
			}
		}
		if want[i] == nil {
			vrf_assert(gerr != nil && n == 0, "C01.state.deleted")
			continue
		}
		vrf_assert(gerr == nil && n == 1, "C01.state.present-once")
		if gerr == nil {
			vrf_assert(vrfSamePin(got, want[i]), "C01.state.get-is-last-write")
		}
	}
	vrf_reach("C01.state.end")
}

// VrfC14StateRoundtrip: serialising a state and deserialising it into an empty
// one reproduces every pin, field by field - for pinsets whose entries have the
// SAME serialized length but different contents (the case in which a decoder
// that reuses its buffers, or a store that keeps what it is handed by reference,
// would mix entries up).
func VrfC14StateRoundtrip() {
	ctx := context.Background()
	src, _ := New(&vrfDS{}, "", nil)
	names := []string{"alpha", "gamma", "delta"}
	var want [3]*api.Pin
	for i := 0; i < 3; i++ {
		if vrf_choice("in_pinset", 2) == 1 {
			p := api.PinCid(vrfCid(i))
			p.Name = names[i]
			p.ReplicationFactorMin, p.ReplicationFactorMax = 1, 2+i
			p.Allocations = append(p.Allocations, vrfPeer(i%2))
			want[i] = p
			vrf_assert(src.Add(ctx, p) == nil, "C14.state.add-ok")
		}
	}
	var buf bytes.Buffer
	vrf_assert(src.Marshal(&buf) == nil, "C14.state.marshal-ok")
	dst, _ := New(&vrfDS{}, "", nil)
	vrf_assert(dst.Unmarshal(&buf) == nil, "C14.state.unmarshal-ok")
	for i := 0; i < 3; i++ {
		got, err := dst.Get(ctx, vrfCid(i))
		if want[i] == nil {
			vrf_assert(err != nil, "C14.state.nothing-invented")
			continue
		}
		vrf_assert(err == nil, "C14.state.every-pin-back")
		if err == nil {
			vrf_assert(got.Name == want[i].Name && got.ReplicationFactorMax == want[i].ReplicationFactorMax && got.ReplicationFactorMin == 1, "C14.state.same-fields")
			vrf_assert(len(got.Allocations) == 1 && got.Allocations[0] == want[i].Allocations[0], "C14.state.same-fields")
		}
	}
	vrf_reach("C14.state.end")
}
