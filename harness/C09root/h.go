package ipfscluster

import (
	"context"
	"errors"
	"time"

	"github.com/ipfs/ipfs-cluster/api"

	peer "github.com/libp2p/go-libp2p-core/peer"
	rpc "github.com/libp2p/go-libp2p-gorpc"
)

var vrfEntries = map[string]func(){
	"VrfC09InformerCadence": VrfC09InformerCadence,
	"VrfC09PingCadence":     VrfC09PingCadence,
}

// vrfPubMonitor records what the peer publishes; each publication may fail
// (the failure budget is a parameter so that the no-two-failures-in-a-row case,
// for which the statement promises liveness, is explored exhaustively).
type vrfPubMonitor struct {
	budget      int
	lastOK      *api.Metric // the latest metric that reached the other peers
	consecutive int         // publication failures in a row right now
	maxConsec   int
	attempts    int
}

func (m *vrfPubMonitor) SetClient(*rpc.Client)                        {}
func (m *vrfPubMonitor) Shutdown(context.Context) error               { return nil }
func (m *vrfPubMonitor) LogMetric(context.Context, *api.Metric) error { return nil }
func (m *vrfPubMonitor) MetricNames(context.Context) []string         { return nil }
func (m *vrfPubMonitor) Alerts() <-chan *api.Alert                    { return nil }
func (m *vrfPubMonitor) LatestMetrics(context.Context, string) []*api.Metric {
	return nil
}
func (m *vrfPubMonitor) PublishMetric(ctx context.Context, mt *api.Metric) error {
	m.attempts++
	if m.budget > 0 && vrf_choice("publish_fails", 2) == 1 {
		m.budget--
		m.consecutive++
		if m.consecutive > m.maxConsec {
			m.maxConsec = m.consecutive
		}
		return errors.New("pubsub: publish failed")
	}
	m.consecutive = 0
	c := *mt
	m.lastOK = &c
	return nil
}

// vrfTTLInformer produces a fresh metric with the configured TTL on every call.
type vrfTTLInformer struct{ ttl time.Duration }

func (i *vrfTTLInformer) SetClient(*rpc.Client)          {}
func (i *vrfTTLInformer) Shutdown(context.Context) error { return nil }
func (i *vrfTTLInformer) Name() string                   { return "freespace" }
func (i *vrfTTLInformer) GetMetric(context.Context) *api.Metric {
	m := &api.Metric{Name: "freespace", Value: "1", Valid: true}
	m.SetTTL(i.ttl)
	return m
}

// vrfObserve lets "steps" arbitrary stretches of time (each at most "limit")
// pass and checks, at every instant it stops at, that the other peers hold an
// unexpired metric of this peer - as long as no two publications in a row failed.
// (If the very first publication fails the peer is not known yet: it must be by
// the time of the retry, "retry" after the start.)
func vrfObserve(mon *vrfPubMonitor, limit, retry int64, label string) {
	steps := vrf_param("steps")
	var t int64
	for k := 0; k < steps; k++ {
		d := vrf_nondet_int64("elapse")
		vrf_assume(vrf_and(d >= 0, d <= limit))
		vrf_elapse(d)
		t += d
		if mon.maxConsec <= 1 {
			if mon.lastOK != nil {
				vrf_assert(!mon.lastOK.Expired(), label+".never-looks-failed")
			} else {
				vrf_assert(t < retry, label+".published-by-first-retry")
			}
		}
	}
}

// VrfC09InformerCadence: the real pushInformerMetrics loop (as a coroutine, with
// the engine's timed timers) republishes the informer's metric before the
// previous one expires, for every TTL, also across one failed publication.
func VrfC09InformerCadence() {
	ttl := vrf_nondet_int64("metric_ttl")
	vrf_assume(vrf_and(ttl >= 8, ttl <= int64(24*time.Hour)))
	mon := &vrfPubMonitor{budget: vrf_param("failures")}
	inf := &vrfTTLInformer{ttl: time.Duration(ttl)}
	ctx, cancel := context.WithCancel(context.Background())
	c := &Cluster{ctx: ctx, cancel: cancel, id: peer.ID("self"), monitor: mon, informers: []Informer{inf}, config: &Config{}}
	go c.pushInformerMetrics(ctx, inf)
	vrf_elapse(0) // the first publication happens at once
	vrf_assert(mon.attempts >= 1, "C09.cadence.informer.first-at-once")
	vrfObserve(mon, ttl, ttl/4, "C09.cadence.informer")
	cancel()
	vrf_yield()
	vrf_assert(vrf_blocked_goroutines() == 0, "C09.cadence.informer.loop-ends")
	vrf_reach("C09.cadence.informer.end")
}

// VrfC09PingCadence: the real pushPingMetrics loop publishes a ping valid for
// two intervals every interval.
func VrfC09PingCadence() {
	iv := vrf_nondet_int64("monitor_ping_interval")
	vrf_assume(vrf_and(iv >= 4, iv <= int64(24*time.Hour)))
	mon := &vrfPubMonitor{budget: vrf_param("failures")}
	ctx, cancel := context.WithCancel(context.Background())
	c := &Cluster{ctx: ctx, cancel: cancel, id: peer.ID("self"), monitor: mon, config: &Config{MonitorPingInterval: time.Duration(iv)}}
	go c.pushPingMetrics(ctx)
	vrf_elapse(0)
	vrf_assert(mon.attempts >= 1, "C09.cadence.ping.first-at-once")
	vrfObserve(mon, 2*iv, iv, "C09.cadence.ping")
	cancel()
	vrf_yield()
	vrf_assert(vrf_blocked_goroutines() == 0, "C09.cadence.ping.loop-ends")
	vrf_reach("C09.cadence.ping.end")
}
