package disk

import "time"

var vrfEntries = map[string]func(){"VrfC15Disk": VrfC15Disk}

func VrfC15Disk() {
	d := &Config{}
	d.Default()
	vrf_assert(d.Validate() == nil, "C15.disk.default-valid")
	cfg := &Config{MetricTTL: time.Duration(vrf_nondet_int64("metric_ttl")), MetricType: MetricType(vrf_nondet_int("metric_type"))}
	valid := cfg.Validate() == nil
	raw, err := cfg.ToJSON()
	vrf_assert(err == nil, "C15.disk.save-ok")
	back := &Config{}
	lerr := back.LoadJSON(raw)
	if valid {
		vrf_assert(lerr == nil, "C15.disk.valid-loads")
		vrf_assert(back.MetricTTL == cfg.MetricTTL && back.MetricType == cfg.MetricType, "C15.disk.roundtrip")
	} else {
		vrf_assert(lerr != nil, "C15.disk.invalid-rejected")
	}
	if lerr == nil {
		vrf_assert(back.Validate() == nil, "C15.disk.loaded-implies-valid")
	}
	vrf_reach("C15.disk.end")
}
