package disk

import "time"

var vrfEntries = map[string]func(){"VrfC15Disk": VrfC15Disk, "VrfC15DiskEnv": VrfC15DiskEnv}

// VrfC15DiskEnv: metric TTL and metric type supplied through the environment.
func VrfC15DiskEnv() {
	cfg := &Config{MetricTTL: time.Duration(vrf_nondet_int64("metric_ttl")), MetricType: MetricType(vrf_nondet_int("metric_type"))}
	vrf_assume(cfg.Validate() == nil)
	before := *cfg
	setT, valT := vrf_nondet_bool("env_set_MetricTTL"), time.Duration(vrf_nondet_int64("env_MetricTTL"))
	setY, valY := vrf_nondet_bool("env_set_MetricType"), vrf_nondet_string("env_MetricType")
	vrf_env(envConfigKey, "MetricTTL", setT, valT.String())
	vrf_env(envConfigKey, "MetricType", setY, valY)
	err := cfg.ApplyEnvVars()
	wantTTL := time.Duration(vrf_ite_int(setT, int(valT), int(before.MetricTTL)))
	known := vrf_or(valY == "reposize", valY == "freespace")
	wantType := MetricType(vrf_ite_int(setY, vrf_ite_int(valY == "reposize", int(MetricRepoSize), int(MetricFreeSpace)), int(before.MetricType)))
	acceptable := vrf_and(vrf_or(!setY, known), wantTTL > 0)
	if err == nil {
		vrf_assert(acceptable, "C15.disk.env-invalid-refused")
		vrf_assert(vrf_and(cfg.MetricTTL == wantTTL, cfg.MetricType == wantType), "C15.disk.env-in-effect")
		vrf_assert(cfg.Validate() == nil, "C15.disk.env-accepted-implies-valid")
	} else {
		vrf_assert(!acceptable, "C15.disk.env-valid-accepted")
	}
	vrf_reach("C15.disk.env-end")
}

func VrfC15Disk() {
	d := &Config{}
	d.Default()
	vrf_assert(d.Validate() == nil, "C15.disk.default-valid")
	cfg := &Config{MetricTTL: time.Duration(vrf_nondet_int64("metric_ttl")), MetricType: MetricType(vrf_nondet_int("metric_type"))}
	valid := cfg.Validate() == nil
	raw, err := cfg.ToJSON()
	vrf_assert(err == nil, "C15.disk.save-ok")
	back := &Config{}
	lerr := back.LoadJSON(raw)
	if valid {
		vrf_assert(lerr == nil, "C15.disk.valid-loads")
		vrf_assert(back.MetricTTL == cfg.MetricTTL && back.MetricType == cfg.MetricType, "C15.disk.roundtrip")
	} else {
		vrf_assert(lerr != nil, "C15.disk.invalid-rejected")
	}
	if lerr == nil {
		vrf_assert(back.Validate() == nil, "C15.disk.loaded-implies-valid")
	}
	vrf_reach("C15.disk.end")
}
