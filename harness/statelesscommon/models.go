package stateless

import (
	"context"
	"errors"

	"github.com/ipfs/ipfs-cluster/api"
	"github.com/ipfs/ipfs-cluster/pintracker/optracker"
	"github.com/ipfs/ipfs-cluster/state"

	cid "github.com/ipfs/go-cid"
	peer "github.com/libp2p/go-libp2p-core/peer"
	rpc "github.com/libp2p/go-libp2p-gorpc"
)

const vrfSelf = peer.ID("self-peer")
const vrfOther = peer.ID("other-peer")

func vrfCid(i int) cid.Cid {
	cids := []string{
		"QmUaFyXjZUNaUwYF8rBtbJc7fEJ46aJXvgV8z2HHs6jvmJ",
		"QmbrCtydGyPeHiLURSPMqrvE5mCgMCwFYq3UD4XLCeAYw6",
		"QmZHKZDavkvNfA9gSAg7HALv8jF7BJaKjUc9U2LSuvUySB",
	}
	c, _ := cid.Decode(cids[i])
	return c
}

// ---- the shared pinset as seen by the tracker

type vrfPinset struct {
	pins    []*api.Pin
	failing bool
}

func (s *vrfPinset) find(c cid.Cid) int {
	for i, p := range s.pins {
		if p.Cid.Equals(c) {
			return i
		}
	}
	return -1
}
func (s *vrfPinset) set(p *api.Pin) {
	if i := s.find(p.Cid); i >= 0 {
		s.pins[i] = p
		return
	}
	s.pins = append(s.pins, p)
}
func (s *vrfPinset) remove(c cid.Cid) {
	if i := s.find(c); i >= 0 {
		s.pins = append(s.pins[:i:i], s.pins[i+1:]...)
	}
}
func (s *vrfPinset) List(context.Context) ([]*api.Pin, error) {
	out := make([]*api.Pin, len(s.pins))
	for i, p := range s.pins {
		cp := *p
		out[i] = &cp
	}
	return out, nil
}
func (s *vrfPinset) Has(ctx context.Context, c cid.Cid) (bool, error) { return s.find(c) >= 0, nil }
func (s *vrfPinset) Get(ctx context.Context, c cid.Cid) (*api.Pin, error) {
	i := s.find(c)
	if i < 0 {
		return nil, state.ErrNotFound
	}
	cp := *s.pins[i]
	return &cp, nil
}

// ---- IPFS daemon behind the "IPFSConnector" RPC service

const (
	vrfNotHeld   = 0
	vrfRecursive = 1
	vrfDirect    = 2
)

type vrfDaemon struct {
	cids  []cid.Cid
	held  []int // per CID: not held / recursive / direct
	calls []string
	// scripted behaviour of mutating calls
	onCall func(d *vrfDaemon, kind string, ctx context.Context, pin *api.Pin) error
}

func (d *vrfDaemon) idx(c cid.Cid) int {
	for i, x := range d.cids {
		if x.Equals(c) {
			return i
		}
	}
	return -1
}

type vrfIPFSService struct{ d *vrfDaemon }

func (s *vrfIPFSService) Pin(ctx context.Context, in *api.Pin, out *struct{}) error {
	s.d.calls = append(s.d.calls, "pin")
	if s.d.onCall != nil {
		return s.d.onCall(s.d, "pin", ctx, in)
	}
	s.d.applyPin(in)
	return nil
}
func (s *vrfIPFSService) Unpin(ctx context.Context, in *api.Pin, out *struct{}) error {
	s.d.calls = append(s.d.calls, "unpin")
	if s.d.onCall != nil {
		return s.d.onCall(s.d, "unpin", ctx, in)
	}
	s.d.applyUnpin(in)
	return nil
}
func (d *vrfDaemon) applyPin(in *api.Pin) {
	if i := d.idx(in.Cid); i >= 0 {
		if in.MaxDepth == 0 {
			// go-ipfs refuses a direct pin of something pinned recursively
			if d.held[i] != vrfRecursive {
				d.held[i] = vrfDirect
			}
		} else {
			d.held[i] = vrfRecursive
		}
	}
}
func (d *vrfDaemon) applyUnpin(in *api.Pin) {
	if i := d.idx(in.Cid); i >= 0 {
		d.held[i] = vrfNotHeld
	}
}

// PinLsCid answers like `pin ls --type=<mode of the given pin> <cid>`.
func (s *vrfIPFSService) PinLsCid(ctx context.Context, in *api.Pin, out *api.IPFSPinStatus) error {
	i := s.d.idx(in.Cid)
	*out = api.IPFSPinStatusUnpinned
	if i < 0 {
		return nil
	}
	if in.MaxDepth == 0 {
		if s.d.held[i] == vrfDirect {
			*out = api.IPFSPinStatusDirect
		}
	} else if s.d.held[i] == vrfRecursive {
		*out = api.IPFSPinStatusRecursive
	}
	return nil
}

// PinLs answers like `pin ls --type=<filter>`.
func (s *vrfIPFSService) PinLs(ctx context.Context, in string, out *map[string]api.IPFSPinStatus) error {
	m := map[string]api.IPFSPinStatus{}
	for i, c := range s.d.cids {
		switch {
		case s.d.held[i] == vrfRecursive && (in == "recursive" || in == "all" || in == ""):
			m[c.String()] = api.IPFSPinStatusRecursive
		case s.d.held[i] == vrfDirect && (in == "direct" || in == "all" || in == ""):
			m[c.String()] = api.IPFSPinStatusDirect
		}
	}
	*out = m
	return nil
}

var vrfErrDaemon = errors.New("ipfs daemon: request failed")

// vrfNewTracker builds a Tracker exactly as New() does, minus the worker
// goroutines (the harness drives their body, opWorker's select case, itself).
func vrfNewTracker(ps *vrfPinset, d *vrfDaemon, queue int) *Tracker {
	ctx, cancel := context.WithCancel(context.Background())
	cfg := &Config{MaxPinQueueSize: queue, ConcurrentPins: 1}
	spt := &Tracker{
		config:    cfg,
		peerID:    vrfSelf,
		peerName:  "self",
		ctx:       ctx,
		cancel:    cancel,
		getState:  func(ctx context.Context) (state.ReadOnly, error) { return ps, nil },
		optracker: optracker.NewOperationTracker(ctx, vrfSelf, "self"),
		rpcReady:  make(chan struct{}, 1),
		pinCh:     make(chan *optracker.Operation, cfg.MaxPinQueueSize),
		unpinCh:   make(chan *optracker.Operation, cfg.MaxPinQueueSize),
	}
	srv := rpc.NewServer(nil, "vrf")
	if err := srv.RegisterName("IPFSConnector", &vrfIPFSService{d}); err != nil {
		panic(err)
	}
	spt.rpcClient = rpc.NewClientWithServer(nil, "vrf", srv)
	return spt
}

// vrfWorkerStep is the body of opWorker for one dequeued operation.
func vrfWorkerStep(spt *Tracker, unpin bool) bool {
	var op *optracker.Operation
	if unpin {
		select {
		case op = <-spt.unpinCh:
		default:
			return false
		}
		if cont := applyPinF(spt.unpin, op); cont {
			return true
		}
	} else {
		select {
		case op = <-spt.pinCh:
		default:
			return false
		}
		if cont := applyPinF(spt.pin, op); cont {
			return true
		}
	}
	spt.optracker.Clean(op.Context(), op)
	return true
}

// status classes of the statement
const (
	vrfClassPinned = iota
	vrfClassRemote
	vrfClassSharded
	vrfClassUnpinned
	vrfClassError
	vrfClassPending
	vrfClassOther
)

func vrfClass(st api.TrackerStatus) int {
	switch st {
	case api.TrackerStatusPinned:
		return vrfClassPinned
	case api.TrackerStatusRemote:
		return vrfClassRemote
	case api.TrackerStatusSharded:
		return vrfClassSharded
	case api.TrackerStatusUnpinned:
		return vrfClassUnpinned
	case api.TrackerStatusPinError, api.TrackerStatusUnpinError, api.TrackerStatusClusterError, api.TrackerStatusUnexpectedlyUnpinned:
		return vrfClassError
	case api.TrackerStatusPinQueued, api.TrackerStatusUnpinQueued, api.TrackerStatusPinning, api.TrackerStatusUnpinning:
		return vrfClassPending
	}
	return vrfClassOther
}
