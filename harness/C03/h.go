package ipfscluster

import (
	"context"

	"github.com/ipfs/ipfs-cluster/allocator/ascendalloc"
	"github.com/ipfs/ipfs-cluster/allocator/descendalloc"
	"github.com/ipfs/ipfs-cluster/api"

	peer "github.com/libp2p/go-libp2p-core/peer"
)

var vrfEntries = map[string]func(){
	"VrfC03Allocate": VrfC03Allocate,
}

// ---- C03: allocate()

func VrfC03Allocate() {
	n := vrf_param("peers")
	// allocator: 0 ascending, 1 descending (the default for free space), 2 both
	descend := vrf_param("descend") == 1
	if vrf_param("descend") == 2 {
		descend = vrf_choice("descending_allocator", 2) == 1
	}
	rmin := vrf_nondet_int("rplmin")
	rmax := vrf_nondet_int("rplmax")
	vrf_assume(isReplicationFactorValid(rmin, rmax) == nil) // documented precondition of allocate()
	vrf_note_int("rplmin", rmin)
	vrf_note_int("rplmax", rmax)
	mon := vrfSymbolicMonitor(n, "freespace")

	// role of each peer in the three input lists
	var cur, excl, prio []peer.ID
	for i := 0; i < n; i++ {
		// (the first peer may take every role; the others the first "roles" ones)
		nr := vrf_param("roles")
		if i == 0 {
			nr = 7
		}
		switch vrf_choice("role", nr) {
		case 0:
		case 1:
			cur = append(cur, vrfPeerNames[i])
		case 2:
			prio = append(prio, vrfPeerNames[i])
		case 3:
			excl = append(excl, vrfPeerNames[i])
		case 4:
			cur = append(cur, vrfPeerNames[i])
			excl = append(excl, vrfPeerNames[i])
		case 5:
			cur = append(cur, vrfPeerNames[i])
			prio = append(prio, vrfPeerNames[i])
		case 6:
			prio = append(prio, vrfPeerNames[i])
			excl = append(excl, vrfPeerNames[i])
		}
	}
	c := &Cluster{ctx: context.Background(), config: &Config{}, monitor: mon,
		informers: []Informer{&vrfInformer{"freespace"}}}
	if descend {
		c.allocator = descendalloc.NewAllocator()
	} else {
		c.allocator = ascendalloc.NewAllocator()
	}
	var current *api.Pin
	if len(cur) > 0 || vrf_nondet_bool("have_current_pin") {
		current = api.PinCid(vrfCid(0))
		current.Allocations = cur
	}

	res, err := c.allocate(c.ctx, vrfCid(0), current, rmin, rmax, excl, prio)

	if rmin < 0 {
		vrf_assert(err == nil, "C03.everywhere-ok")
		vrf_assert(res != nil, "C03.everywhere-nonnil")
		vrf_assert(len(res) == 0, "C03.everywhere-empty")
		vrf_reach("C03.end-everywhere")
		return
	}

	// facts per peer, written from the statement
	healthy := make([]bool, n)   // valid unexpired metric
	excluded := make([]bool, n)
	isCur := make([]bool, n)
	isPrio := make([]bool, n)
	inRes := make([]bool, n)
	nHealthyCur := 0  // healthy current holders that are not excluded
	nUsable := 0      // healthy, numeric, not excluded, not current
	for i := 0; i < n; i++ {
		p := vrfPeerNames[i]
		healthy[i] = mon.states[i].healthy
		excluded[i] = vrfIndexOf(excl, p) >= 0
		isCur[i] = vrfIndexOf(cur, p) >= 0
		isPrio[i] = vrfIndexOf(prio, p) >= 0
		inRes[i] = vrfIndexOf(res, p) >= 0
		if isCur[i] && !excluded[i] {
			nHealthyCur = vrf_ite_int(healthy[i], nHealthyCur+1, nHealthyCur)
		}
		if !isCur[i] && !excluded[i] {
			nUsable = vrf_ite_int(vrf_and(healthy[i], mon.states[i].numeric), nUsable+1, nUsable)
		}
	}

	// failure iff not enough healthy holders can be reached; nothing is produced then
	shouldFail := nHealthyCur+nUsable < rmin
	vrf_assert((err != nil) == shouldFail, "C03.fail-iff-unreachable")
	if err != nil {
		vrf_assert(res == nil, "C03.fail-no-result")
		vrf_reach("C03.end-error")
		return
	}

	// no peer twice
	for i := 0; i < len(res); i++ {
		for j := i + 1; j < len(res); j++ {
			vrf_assert(res[i] != res[j], "C03.nodup")
		}
		vrf_assert(vrfIndexOf(vrfPeerNames[:n], res[i]) >= 0, "C03.only-known-peers")
	}
	nHealthyInRes := 0
	nAdded := 0
	for i := 0; i < n; i++ {
		if inRes[i] && !isCur[i] {
			nAdded++
			vrf_assert(healthy[i], "C03.added-healthy")
			vrf_assert(mon.states[i].numeric, "C03.added-numeric")
			vrf_assert(!excluded[i], "C03.not-excluded")
		}
		if inRes[i] {
			nHealthyInRes = vrf_ite_int(vrf_and(healthy[i], !excluded[i]), nHealthyInRes+1, nHealthyInRes)
		}
		if isCur[i] && !excluded[i] {
			// healthy current holders are kept unless there are more than max
			vrf_assert(vrf_implies(vrf_and(healthy[i], nHealthyCur <= rmax), inRes[i]), "C03.keep-healthy-current")
		}
	}
	vrf_assert(vrf_and(nHealthyInRes >= rmin, nHealthyInRes <= rmax), "C03.count-in-range")
	vrf_assert(vrf_implies(nHealthyCur > rmax, nAdded == 0), "C03.overfull-adds-nothing")
	// preference: user-requested peers first, then by rank
	for i := 0; i < n; i++ {
		usableI := vrf_and(vrf_and(healthy[i], mon.states[i].numeric), !excluded[i] && !isCur[i])
		if excluded[i] || isCur[i] {
			continue
		}
		for j := 0; j < n; j++ {
			if i == j || !inRes[j] || isCur[j] || inRes[i] {
				continue
			}
			// j was added, i was not although usable
			if isPrio[i] && !isPrio[j] {
				vrf_assert(!usableI, "C03.priority-first")
			}
			if isPrio[i] == isPrio[j] {
				better := mon.states[i].value < mon.states[j].value
				if descend {
					better = mon.states[i].value > mon.states[j].value
				}
				vrf_assert(!vrf_and(usableI, better), "C03.rank-respected")
			}
		}
	}
	vrf_reach("C03.end-ok")
}
