package ipfscluster

import (
	"context"
	"strconv"

	"github.com/ipfs/ipfs-cluster/allocator/ascendalloc"
	"github.com/ipfs/ipfs-cluster/allocator/descendalloc"
	"github.com/ipfs/ipfs-cluster/api"

	cid "github.com/ipfs/go-cid"
	peer "github.com/libp2p/go-libp2p-core/peer"
	rpc "github.com/libp2p/go-libp2p-gorpc"
)

var vrfEntries = map[string]func(){
	"VrfC03Allocate": VrfC03Allocate,
}

// ---- environment models (shared by the root-package harnesses)

var vrfPeerNames = []peer.ID{"pA", "pB", "pC", "pD", "pE", "pF"}

type vrfMetricState struct {
	present bool   // the monitor holds a metric of this peer
	healthy bool   // present, valid and unexpired at the (frozen) instant of the call
	numeric bool   // value parses as an unsigned number
	value   uint64 // the parsed value (meaningful iff numeric)
	metric  *api.Metric
}

// vrfMonitor implements PeerMonitor. Contract modelled (checked for the real
// monitor by C09): LatestMetrics returns the metrics that are valid and
// unexpired at the time of the call, at most one per peer.
type vrfMonitor struct {
	states []vrfMetricState
	name   string
}

func (m *vrfMonitor) SetClient(*rpc.Client)                            {}
func (m *vrfMonitor) Shutdown(context.Context) error                   { return nil }
func (m *vrfMonitor) LogMetric(context.Context, *api.Metric) error     { return nil }
func (m *vrfMonitor) PublishMetric(context.Context, *api.Metric) error { return nil }
func (m *vrfMonitor) MetricNames(context.Context) []string             { return []string{m.name} }
func (m *vrfMonitor) Alerts() <-chan *api.Alert                        { return nil }
func (m *vrfMonitor) LatestMetrics(ctx context.Context, name string) []*api.Metric {
	var out []*api.Metric
	for i := range m.states {
		s := &m.states[i]
		if s.present && !s.metric.Discard() {
			out = append(out, s.metric)
		}
	}
	return out
}

type vrfInformer struct{ name string }

func (i *vrfInformer) SetClient(*rpc.Client)                 {}
func (i *vrfInformer) Shutdown(context.Context) error        { return nil }
func (i *vrfInformer) Name() string                          { return i.name }
func (i *vrfInformer) GetMetric(context.Context) *api.Metric { return nil }

const vrfSecond = int64(1000000000)

// vrfSymbolicMonitor builds a monitor with one symbolic metric state per peer.
// Nothing forks here: the code under test decides where the state matters.
func vrfSymbolicMonitor(n int, name string) *vrfMonitor {
	mon := &vrfMonitor{name: name}
	now := vrf_now()
	for i := 0; i < n; i++ {
		st := vrfMetricState{}
		st.present = vrf_nondet_bool("present")
		valid := vrf_nondet_bool("valid")
		delta := vrf_nondet_int64("expire_minus_now")
		// expiry instants closer than one second to "now" are outside the
		// claim (the wall clock moves between harness and code under test)
		vrf_assume(vrf_or(delta <= -vrfSecond, delta >= vrfSecond))
		vrf_assume(vrf_and(delta > -vrfSecond*1000000, delta < vrfSecond*1000000))
		st.numeric = vrf_nondet_bool("numeric")
		st.value = vrf_nondet_uint64("value")
		val := vrf_ite_str(st.numeric, strconv.FormatUint(st.value, 10), "not-a-number")
		exp := now + delta
		st.metric = &api.Metric{Name: name, Peer: vrfPeerNames[i], Value: val, Valid: valid, Expire: exp}
		// unexpired = the expiry instant is not before "now"
		st.healthy = vrf_and(st.present, vrf_and(valid, !(now > exp)))
		mon.states = append(mon.states, st)
	}
	return mon
}

func vrfCid(i int) cid.Cid {
	cids := []string{
		"QmUaFyXjZUNaUwYF8rBtbJc7fEJ46aJXvgV8z2HHs6jvmJ",
		"QmbrCtydGyPeHiLURSPMqrvE5mCgMCwFYq3UD4XLCeAYw6",
		"QmZHKZDavkvNfA9gSAg7HALv8jF7BJaKjUc9U2LSuvUySB",
	}
	c, _ := cid.Decode(cids[i])
	return c
}

func vrfIndexOf(list []peer.ID, p peer.ID) int {
	for i, x := range list {
		if x == p {
			return i
		}
	}
	return -1
}

// ---- C03: allocate()

func VrfC03Allocate() {
	n := vrf_param("peers")
	descend := vrf_param("descend") == 1
	rmin := vrf_nondet_int("rplmin")
	rmax := vrf_nondet_int("rplmax")
	vrf_assume(isReplicationFactorValid(rmin, rmax) == nil) // documented precondition of allocate()
	vrf_note_int("rplmin", rmin)
	vrf_note_int("rplmax", rmax)
	mon := vrfSymbolicMonitor(n, "freespace")

	// role of each peer in the three input lists
	var cur, excl, prio []peer.ID
	for i := 0; i < n; i++ {
		switch vrf_choice("role", vrf_param("roles")) {
		case 0:
		case 1:
			cur = append(cur, vrfPeerNames[i])
		case 2:
			prio = append(prio, vrfPeerNames[i])
		case 3:
			excl = append(excl, vrfPeerNames[i])
		case 4:
			cur = append(cur, vrfPeerNames[i])
			excl = append(excl, vrfPeerNames[i])
		case 5:
			cur = append(cur, vrfPeerNames[i])
			prio = append(prio, vrfPeerNames[i])
		case 6:
			prio = append(prio, vrfPeerNames[i])
			excl = append(excl, vrfPeerNames[i])
		}
	}
	c := &Cluster{ctx: context.Background(), config: &Config{}, monitor: mon,
		informers: []Informer{&vrfInformer{"freespace"}}}
	if descend {
		c.allocator = descendalloc.NewAllocator()
	} else {
		c.allocator = ascendalloc.NewAllocator()
	}
	var current *api.Pin
	if len(cur) > 0 || vrf_nondet_bool("have_current_pin") {
		current = api.PinCid(vrfCid(0))
		current.Allocations = cur
	}

	res, err := c.allocate(c.ctx, vrfCid(0), current, rmin, rmax, excl, prio)

	if rmin < 0 {
		vrf_assert(err == nil, "C03.everywhere-ok")
		vrf_assert(res != nil, "C03.everywhere-nonnil")
		vrf_assert(len(res) == 0, "C03.everywhere-empty")
		vrf_reach("C03.end-everywhere")
		return
	}

	// facts per peer, written from the statement
	healthy := make([]bool, n)   // valid unexpired metric
	excluded := make([]bool, n)
	isCur := make([]bool, n)
	isPrio := make([]bool, n)
	inRes := make([]bool, n)
	nHealthyCur := 0  // healthy current holders that are not excluded
	nUsable := 0      // healthy, numeric, not excluded, not current
	for i := 0; i < n; i++ {
		p := vrfPeerNames[i]
		healthy[i] = mon.states[i].healthy
		excluded[i] = vrfIndexOf(excl, p) >= 0
		isCur[i] = vrfIndexOf(cur, p) >= 0
		isPrio[i] = vrfIndexOf(prio, p) >= 0
		inRes[i] = vrfIndexOf(res, p) >= 0
		if isCur[i] && !excluded[i] {
			nHealthyCur = vrf_ite_int(healthy[i], nHealthyCur+1, nHealthyCur)
		}
		if !isCur[i] && !excluded[i] {
			nUsable = vrf_ite_int(vrf_and(healthy[i], mon.states[i].numeric), nUsable+1, nUsable)
		}
	}

	// failure iff not enough healthy holders can be reached; nothing is produced then
	shouldFail := nHealthyCur+nUsable < rmin
	vrf_assert((err != nil) == shouldFail, "C03.fail-iff-unreachable")
	if err != nil {
		vrf_assert(res == nil, "C03.fail-no-result")
		vrf_reach("C03.end-error")
		return
	}

	// no peer twice
	for i := 0; i < len(res); i++ {
		for j := i + 1; j < len(res); j++ {
			vrf_assert(res[i] != res[j], "C03.nodup")
		}
		vrf_assert(vrfIndexOf(vrfPeerNames[:n], res[i]) >= 0, "C03.only-known-peers")
	}
	nHealthyInRes := 0
	nAdded := 0
	for i := 0; i < n; i++ {
		if inRes[i] && !isCur[i] {
			nAdded++
			vrf_assert(healthy[i], "C03.added-healthy")
			vrf_assert(mon.states[i].numeric, "C03.added-numeric")
			vrf_assert(!excluded[i], "C03.not-excluded")
		}
		if inRes[i] {
			nHealthyInRes = vrf_ite_int(vrf_and(healthy[i], !excluded[i]), nHealthyInRes+1, nHealthyInRes)
		}
		if isCur[i] && !excluded[i] {
			// healthy current holders are kept unless there are more than max
			vrf_assert(vrf_implies(vrf_and(healthy[i], nHealthyCur <= rmax), inRes[i]), "C03.keep-healthy-current")
		}
	}
	vrf_assert(vrf_and(nHealthyInRes >= rmin, nHealthyInRes <= rmax), "C03.count-in-range")
	vrf_assert(vrf_implies(nHealthyCur > rmax, nAdded == 0), "C03.overfull-adds-nothing")
	// preference: user-requested peers first, then by rank
	for i := 0; i < n; i++ {
		usableI := vrf_and(vrf_and(healthy[i], mon.states[i].numeric), !excluded[i] && !isCur[i])
		if excluded[i] || isCur[i] {
			continue
		}
		for j := 0; j < n; j++ {
			if i == j || !inRes[j] || isCur[j] || inRes[i] {
				continue
			}
			// j was added, i was not although usable
			if isPrio[i] && !isPrio[j] {
				vrf_assert(!usableI, "C03.priority-first")
			}
			if isPrio[i] == isPrio[j] {
				better := mon.states[i].value < mon.states[j].value
				if descend {
					better = mon.states[i].value > mon.states[j].value
				}
				vrf_assert(!vrf_and(usableI, better), "C03.rank-respected")
			}
		}
	}
	vrf_reach("C03.end-ok")
}
