package stateless

import (
	"context"

	"github.com/ipfs/ipfs-cluster/state"
)

var vrfEntries = map[string]func(){"VrfC18Tracker": VrfC18Tracker}

// VrfC18Tracker: shutting the stateless tracker down - once, twice, or while
// another goroutine is doing the same - touches the shutdown flag only under its
// mutex, never closes a channel twice, never panics and releases its lock.
func VrfC18Tracker() {
	cfg := &Config{MaxPinQueueSize: 2, ConcurrentPins: 1}
	spt := New(cfg, "self", "self", func(context.Context) (state.ReadOnly, error) { return nil, state.ErrNotFound })
	vrf_protect(&spt.shutdown, &spt.shutdownMu, "C18.tracker.shutdown-flag")
	// another goroutine may have completed a Shutdown in the meantime
	vrf_interference(&spt.shutdownMu, func() {
		if vrf_choice("shut_down_by_another_goroutine", 2) == 1 && !spt.shutdown {
			spt.cancel()
			close(spt.rpcReady)
			spt.shutdown = true
		}
	})
	n := 1 + vrf_choice("extra_shutdown_calls", 2)
	for i := 0; i < n; i++ {
		vrf_assert(spt.Shutdown(context.Background()) == nil, "C18.tracker.shutdown-ok")
	}
	vrf_assert(spt.shutdown, "C18.tracker.is-shut-down")
	vrf_assert(spt.ctx.Err() != nil, "C18.tracker.workers-told-to-stop")
	vrf_assert(vrf_locks_held() == 0, "C18.tracker.locks-released")
	vrf_reach("C18.tracker.end")
}
