package api

import (
	"net/url"
	"time"

	pb "github.com/ipfs/ipfs-cluster/api/pb"
	proto "google.golang.org/protobuf/proto"

	cid "github.com/ipfs/go-cid"
	peer "github.com/libp2p/go-libp2p-core/peer"
	multiaddr "github.com/multiformats/go-multiaddr"
)

var vrfEntries = map[string]func(){
	"VrfC08Proto": VrfC08Proto,
	"VrfC08Query": VrfC08Query,
	"VrfC08Enums": VrfC08Enums,
	"VrfC08ProtoForeign": VrfC08ProtoForeign,
}

var vrfCidStrs = []string{
	"QmUaFyXjZUNaUwYF8rBtbJc7fEJ46aJXvgV8z2HHs6jvmJ",                // CIDv0
	"bafybeigdyrzt5sfp7udm7hu76uh7y26nf3efuylqabf3oclgtqy55fbzdi", // CIDv1
	"QmbrCtydGyPeHiLURSPMqrvE5mCgMCwFYq3UD4XLCeAYw6",
}
var vrfPeerStrs = []string{
	"QmZHKZDavkvNfA9gSAg7HALv8jF7BJaKjUc9U2LSuvUySB",
	"QmP63DkAFEnDYNjDYBpyNDfttu1fvUw99x1brscPzpqmmq",
}

func vrfC(i int) cid.Cid   { c, _ := cid.Decode(vrfCidStrs[i]); return c }
func vrfP(i int) peer.ID   { p, _ := peer.Decode(vrfPeerStrs[i]); return p }
func vrfMA(i int) multiaddr.Multiaddr {
	a, _ := multiaddr.NewMultiaddr([]string{
		"/ip4/1.2.3.4/tcp/4001/p2p/" + vrfPeerStrs[0],
		"/dns4/example.org/tcp/4001/p2p/" + vrfPeerStrs[1]}[i])
	return a
}

// metadata keys: one made only of characters of the "meta-" prefix, the empty
// key (documented as not transported), one that repeats the prefix
var vrfMetaKeys = []string{"team", "", "meta-a"}

func vrfMapEq(a, b map[string]string, keys []string) bool {
	r := true
	for _, k := range keys {
		va, oka := a[k]
		vb, okb := b[k]
		if oka != okb {
			return false
		}
		if oka {
			r = vrf_and(r, va == vb)
		}
	}
	return r
}

func vrfSymbolicPin(withExpiry bool) *Pin {
	p := PinCid(vrfC(vrf_choice("cid", 2)))
	t := vrf_nondet_uint64("type")
	vrf_assume(vrf_or(vrf_or(t == uint64(DataType), t == uint64(MetaType)), vrf_or(t == uint64(ShardType), t == uint64(ClusterDAGType))))
	p.Type = PinType(t)
	depth := vrf_nondet_int("max_depth")
	vrf_assume(vrf_and(depth >= -1, depth <= 1<<30))
	p.MaxDepth = PinDepth(depth)
	p.Mode = p.MaxDepth.ToPinMode() // the mode is derived from the depth (PinWithOpts keeps them in step)
	p.ReplicationFactorMin = vrf_nondet_int("rmin")
	p.ReplicationFactorMax = vrf_nondet_int("rmax")
	// documented: factors are stored as 32-bit integers
	vrf_assume(vrf_and(vrf_and(p.ReplicationFactorMin >= -1<<31, p.ReplicationFactorMin < 1<<31), vrf_and(p.ReplicationFactorMax >= -1<<31, p.ReplicationFactorMax < 1<<31)))
	p.Name = vrf_nondet_string("name")
	p.ShardSize = vrf_nondet_uint64("shard_size")
	for i := 0; i < 2; i++ {
		if vrf_choice("allocated", 2) == 1 {
			p.Allocations = append(p.Allocations, vrfP(i))
		}
	}
	for i := 0; i < vrf_param("origins"); i++ {
		if vrf_choice("origin", 2) == 1 {
			p.Origins = append(p.Origins, vrfMA(i))
		}
	}
	for _, k := range vrfMetaKeys[:vrf_param("meta_keys")] {
		if vrf_choice("has_meta", 2) == 1 {
			if p.Metadata == nil {
				p.Metadata = map[string]string{}
			}
			p.Metadata[k] = vrf_nondet_string("meta_value")
		}
	}
	if vrf_choice("has_reference", 2) == 1 {
		r := vrfC(2)
		p.Reference = &r
	}
	if vrf_choice("has_update", 2) == 1 {
		p.PinUpdate = vrfC(1)
	}
	if withExpiry && vrf_choice("has_expiry", 2) == 1 {
		// whole seconds (sub-second precision is documented as lost)
		sec := vrf_nondet_int64("expire_unix_seconds")
		// the Unix epoch itself is deliberately treated as "no expiry" by the code
		vrf_assume(sec != 0)
		p.ExpireAt = time.Unix(sec, 0)
	}
	return p
}

// VrfC08Proto: the stored (protobuf) form of a pin.
func VrfC08Proto() {
	p := vrfSymbolicPin(true)
	data, err := p.ProtoMarshal()
	vrf_assert(err == nil, "C08.proto.marshal-ok")
	q := &Pin{}
	err = q.ProtoUnmarshal(data)
	vrf_assert(err == nil, "C08.proto.unmarshal-ok")
	if err != nil {
		return
	}
	vrf_assert(q.Cid.Equals(p.Cid), "C08.proto.cid")
	vrf_assert(q.Type == p.Type, "C08.proto.type")
	vrf_assert(q.MaxDepth == p.MaxDepth, "C08.proto.max-depth")
	vrf_assert(q.Mode == p.Mode, "C08.proto.mode")
	vrf_assert(q.ReplicationFactorMin == p.ReplicationFactorMin, "C08.proto.rmin")
	vrf_assert(q.ReplicationFactorMax == p.ReplicationFactorMax, "C08.proto.rmax")
	vrf_assert(q.Name == p.Name, "C08.proto.name")
	vrf_assert(q.ShardSize == p.ShardSize, "C08.proto.shard-size")
	vrf_assert(len(q.Allocations) == len(p.Allocations), "C08.proto.allocations")
	for i := range p.Allocations {
		if i < len(q.Allocations) {
			vrf_assert(q.Allocations[i] == p.Allocations[i], "C08.proto.allocations")
		}
	}
	vrf_assert(len(q.Origins) == len(p.Origins), "C08.proto.origins")
	for i := range p.Origins {
		if i < len(q.Origins) {
			vrf_assert(q.Origins[i].Equal(p.Origins[i]), "C08.proto.origins")
		}
	}
	vrf_assert(vrfMapEq(q.Metadata, p.Metadata, vrfMetaKeys), "C08.proto.metadata")
	vrf_assert((q.Reference == nil) == (p.Reference == nil), "C08.proto.reference")
	if q.Reference != nil && p.Reference != nil {
		vrf_assert(q.Reference.Equals(*p.Reference), "C08.proto.reference")
	}
	vrf_assert(q.PinUpdate.Equals(p.PinUpdate), "C08.proto.pin-update")
	vrf_note_bool("expiry_is_unix_zero", vrf_and(!p.ExpireAt.IsZero(), p.ExpireAt.Equal(time.Unix(0, 0))))
	vrf_assert(q.ExpireAt.Equal(p.ExpireAt), "C08.proto.expire-at")
	// the decoded value can be re-encoded
	_, err = q.ProtoMarshal()
	vrf_assert(err == nil, "C08.proto.re-encodable")
	vrf_reach("C08.proto.end")
}

// VrfC08Query: the query-string form of pin options.
func VrfC08Query() {
	p := vrfSymbolicPin(false)
	po := p.PinOptions
	vrf_assume(vrf_or(po.Mode == PinModeRecursive, po.Mode == PinModeDirect))
	for i := 0; i < 2; i++ {
		if vrf_choice("user_allocation", 2) == 1 {
			po.UserAllocations = append(po.UserAllocations, vrfP(i))
		}
	}
	// one more entry under an arbitrary key
	symKey := ""
	if vrf_param("symbolic_meta_key") == 1 {
		symKey = vrf_nondet_string("meta_key")
		vrf_assume(vrf_and(symKey != "", vrf_and(symKey != "team", symKey != "meta-a")))
		if po.Metadata == nil {
			po.Metadata = map[string]string{}
		}
		po.Metadata[symKey] = vrf_nondet_string("meta_value_of_arbitrary_key")
	}
	// an expiry date: the same kind of instant in UTC, east and west of it, with
	// and without a sub-second part (concrete: the text form is the real one)
	if vrf_param("query_expiry") == 1 {
		switch vrf_choice("expire_at", 4) {
		case 1:
			po.ExpireAt = time.Unix(1893456000, 0).UTC()
		case 2:
			po.ExpireAt = time.Unix(1893456000, 0).In(time.FixedZone("east", 2*3600))
		case 3:
			po.ExpireAt = time.Unix(1893456015, 123456789).In(time.FixedZone("west", -(5*3600 + 1800)))
		}
	}
	qs, err := po.ToQuery()
	vrf_assert(err == nil, "C08.query.encode-ok")
	vals, err := url.ParseQuery(qs)
	vrf_assert(err == nil, "C08.query.parse-ok")
	var back PinOptions
	err = back.FromQuery(vals)
	vrf_assert(err == nil, "C08.query.decode-ok")
	if err != nil {
		return
	}
	vrf_assert(back.ExpireAt.Equal(po.ExpireAt) && back.ExpireAt.IsZero() == po.ExpireAt.IsZero(), "C08.query.expire-at")
	vrf_assert(back.Name == po.Name, "C08.query.name")
	vrf_assert(back.Mode == po.Mode, "C08.query.mode")
	vrf_assert(back.ReplicationFactorMin == po.ReplicationFactorMin, "C08.query.rmin")
	vrf_assert(back.ReplicationFactorMax == po.ReplicationFactorMax, "C08.query.rmax")
	vrf_assert(back.ShardSize == po.ShardSize, "C08.query.shard-size")
	vrf_assert(len(back.UserAllocations) == len(po.UserAllocations), "C08.query.user-allocations")
	for i := range po.UserAllocations {
		if i < len(back.UserAllocations) {
			vrf_assert(back.UserAllocations[i] == po.UserAllocations[i], "C08.query.user-allocations")
		}
	}
	// the empty metadata key is documented as not transported
	want := map[string]string{}
	for k, v := range po.Metadata {
		if k != "" {
			want[k] = v
		}
	}
	vrf_assert(vrfMapEq(back.Metadata, want, vrfMetaKeys), "C08.query.metadata")
	if symKey != "" {
		v, ok := back.Metadata[symKey]
		vrf_assert(ok && v == po.Metadata[symKey], "C08.query.metadata-arbitrary-key")
	}
	vrf_assert(back.PinUpdate.Equals(po.PinUpdate), "C08.query.pin-update")
	vrf_assert(len(back.Origins) == len(po.Origins), "C08.query.origins")
	for i := range po.Origins {
		if i < len(back.Origins) {
			vrf_assert(back.Origins[i].Equal(po.Origins[i]), "C08.query.origins")
		}
	}
	vrf_reach("C08.query.end")
}

// VrfC08Enums: string forms of the enumerations.
func VrfC08Enums() {
	t := PinType(vrf_nondet_uint64("type"))
	known := vrf_or(vrf_or(t == DataType, t == MetaType), vrf_or(vrf_or(t == ShardType, t == ClusterDAGType), t == AllType))
	back := PinTypeFromString(t.String())
	vrf_assert(vrf_implies(known, back == t), "C08.enums.pin-type")
	vrf_assert(vrf_implies(!known, back == BadType), "C08.enums.pin-type-unknown-is-bad")
	m := PinMode(vrf_nondet_int("mode"))
	vrf_assert(vrf_implies(vrf_or(m == PinModeRecursive, m == PinModeDirect), PinModeFromString(m.String()) == m), "C08.enums.pin-mode")
	d := PinDepth(vrf_nondet_int("depth"))
	vrf_assert(d.ToPinMode().ToPinDepth() == d || (d != -1 && d != 0), "C08.enums.depth-mode")
	s := vrf_nondet_string("ipfs_status")
	st := IPFSPinStatusFromString(s)
	vrf_assert(vrf_implies(s == "direct", st == IPFSPinStatusDirect), "C08.enums.ipfs-direct")
	vrf_assert(vrf_implies(s == "recursive", st == IPFSPinStatusRecursive), "C08.enums.ipfs-recursive")
	vrf_assert(vrf_implies(vrf_strprefix(s, "indirect"), st == IPFSPinStatusIndirect), "C08.enums.ipfs-indirect")
	vrf_assert(st.IsPinned(-1) == (st == IPFSPinStatusRecursive), "C08.enums.is-pinned-recursive")
	vrf_assert(st.IsPinned(0) == (st == IPFSPinStatusDirect), "C08.enums.is-pinned-direct")
	// text without separators or blanks never crashes the status parser and,
	// unless it is a status name, means "no filter"
	txt := vrf_nondet_string("status_text")
	vrf_assume(vrf_and(!vrf_strcontains(txt, " "), !vrf_strcontains(txt, ",")))
	ts := TrackerStatusFromString(txt)
	vrf_assert(vrf_implies(txt == "pinned", ts == TrackerStatusPinned), "C08.enums.status-name")
	vrf_assert(vrf_implies(txt == "bogus", ts == TrackerStatusUndefined), "C08.enums.status-unknown")
	vrf_reach("C08.enums.end")
}

// VrfC08ProtoForeign: the stored form written by somebody else (or damaged): a
// protobuf pin message whose byte fields are each well-formed or garbage.
// Decoding it either fails or yields a pin that can be used and re-encoded:
// no nil origin, no crash in ProtoMarshal / ToQuery / Equals.
func VrfC08ProtoForeign() {
	garbage := []byte{0xff, 0x00, 0x01}
	bytesOf := func(kind int, good []byte) []byte {
		switch kind {
		case 0:
			return good
		case 1:
			return garbage
		}
		return nil
	}
	m := &pb.Pin{}
	m.Cid = bytesOf(vrf_choice("cid_bytes", 2), vrfC(0).Bytes())
	m.Type = pb.Pin_PinType([]int32{0, 1, 4, 100}[vrf_choice("type", 4)])
	m.MaxDepth = []int32{-1, 0, 1}[vrf_choice("max_depth", 3)]
	m.Reference = bytesOf(1+vrf_choice("reference_bytes", 2), vrfC(2).Bytes())
	for i := 0; i < 1; i++ {
		if k := vrf_choice("allocation_bytes", 3); k < 2 {
			m.Allocations = append(m.Allocations, bytesOf(k, []byte(vrfP(i))))
		}
	}
	if vrf_choice("has_options", 2) == 1 {
		o := &pb.PinOptions{}
		// (the numeric and text fields are covered symbolically by VrfC08Proto; here
		// they are fixed so that the byte fields can be varied exhaustively)
		o.ReplicationFactorMin, o.ReplicationFactorMax = 1, 2
		o.Name = "n"
		o.ShardSize = 7
		o.ExpireAt = 0 // (the RFC3339 text of an expiry in the query form is outside the model)
		o.PinUpdate = bytesOf(vrf_choice("update_bytes", 2), vrfC(1).Bytes())
		for i := 0; i < 2; i++ {
			switch vrf_choice("origin_bytes", 4) {
			case 0:
				o.Origins = append(o.Origins, vrfMA(i).Bytes())
			case 1:
				o.Origins = append(o.Origins, garbage)
			case 2:
				o.Origins = append(o.Origins, []byte{})
			}
		}
		m.Options = o
	}
	data, err := proto.Marshal(m)
	vrf_assert(err == nil, "C08.foreign.message-built")
	var pin Pin
	derr := pin.ProtoUnmarshal(data)
	if derr != nil {
		vrf_reach("C08.foreign.end-refused")
		return
	}
	for _, o := range pin.Origins {
		vrf_assert(o != nil, "C08.foreign.no-nil-origin")
	}
	for _, a := range pin.Allocations {
		vrf_assert(a != "", "C08.foreign.no-empty-allocation")
	}
	// the decoded pin can be used: re-encoded, turned into a query, compared
	_, merr := pin.ProtoMarshal()
	vrf_assert(merr == nil, "C08.foreign.re-encodes")
	_, qerr := pin.PinOptions.ToQuery()
	vrf_assert(qerr == nil, "C08.foreign.to-query")
	cp := pin
	vrf_assert(pin.PinOptions.Equals(&cp.PinOptions), "C08.foreign.equals-itself")
	vrf_reach("C08.foreign.end-decoded")
}
