package numpin

import (
	"context"
	"fmt"
	"sync"

	"github.com/ipfs/ipfs-cluster/api"

	rpc "github.com/libp2p/go-libp2p-gorpc"
)

type vrfIPFSSvc struct{}

func (vrfIPFSSvc) PinLs(ctx context.Context, in string, out *map[string]api.IPFSPinStatus) error {
	*out = map[string]api.IPFSPinStatus{}
	return nil
}

func VrfC18Informer() {
	for k := 0; k < 3000 && len(vrfState.failed) == 0; k++ {
		cfg := &Config{}
		cfg.Default()
		inf, _ := NewInformer(cfg)
		srv := rpc.NewServer(nil, "vrf")
		srv.RegisterName("IPFSConnector", vrfIPFSSvc{})
		inf.SetClient(rpc.NewClientWithServer(nil, "vrf", srv))
		var wg sync.WaitGroup
		wg.Add(2)
		go func() { defer wg.Done(); inf.Shutdown(context.Background()) }()
		go func() {
			defer wg.Done()
			defer func() {
				if r := recover(); r != nil {
					fmt.Printf("VRF-PANIC %v\n", r)
					vrfState.failed["VrfC18Informer.no-panic"]++
				}
			}()
			inf.GetMetric(context.Background())
		}()
		wg.Wait()
	}
}
