package config

import (
	"encoding/json"
	"errors"
	"strings"
)

// (the entries of this file are listed in harness/C15identity: both directories
// are overlaid into package config together)

// a component configuration with one setting and one secret
type vrfComp struct {
	key     string
	value   int
	secret  string
	baseDir string

	defaults, envs, validates, loads, saves, displays int

	envSet   bool
	envValue int
	saveCh   chan struct{}
}

type vrfCompJSON struct {
	Value  int    `json:"value"`
	Secret string `json:"secret"`
}

func (c *vrfComp) ConfigKey() string { return c.key }
func (c *vrfComp) LoadJSON(b []byte) error {
	var j vrfCompJSON
	if err := json.Unmarshal(b, &j); err != nil {
		return err
	}
	c.loads++
	c.value, c.secret = j.Value, j.Secret
	return c.Validate()
}
func (c *vrfComp) ToJSON() ([]byte, error) {
	c.saves++
	return json.Marshal(&vrfCompJSON{Value: c.value, Secret: c.secret})
}
func (c *vrfComp) Default() error {
	c.defaults++
	c.value, c.secret = 7, "default-secret"
	return nil
}
func (c *vrfComp) ApplyEnvVars() error {
	c.envs++
	c.value = vrf_ite_int(c.envSet, c.envValue, c.value)
	return nil
}
func (c *vrfComp) SetBaseDir(d string) { c.baseDir = d }
func (c *vrfComp) Validate() error {
	c.validates++
	if c.value < 0 {
		return errors.New("component: negative value")
	}
	return nil
}
func (c *vrfComp) SaveCh() <-chan struct{} { return c.saveCh }
func (c *vrfComp) ToDisplayJSON() ([]byte, error) {
	c.displays++
	return json.Marshal(&vrfCompJSON{Value: c.value, Secret: "XXX_hidden_XXX"})
}

type vrfSlot struct {
	t   SectionType
	key string
}

// where components live: the top-level cluster section and four components in
// three other sections (two of them share a section)
var vrfSlots = []vrfSlot{{Cluster, "cluster"}, {Consensus, "raft"}, {Consensus, "crdt"}, {Datastore, "badger"}, {Informer, "disk"}}

func vrfNewComp(s vrfSlot) *vrfComp { return &vrfComp{key: s.key, saveCh: make(chan struct{})} }

// VrfC15Manager: the manager's plumbing over arbitrary component values:
// an invalid component makes the whole configuration unsavable; a valid one
// is saved and loaded back component by component into a second manager -
// each registered component exactly once, a component the file does not
// mention gets its defaults and is reported as not loaded, a section the second
// manager does not know is ignored -; environment variables and the display
// form visit every component exactly once, and the display form is built from
// the components' display forms only.
func VrfC15Manager() {
	mgr := NewManager()
	defer mgr.Shutdown()
	absentInFile := vrf_choice("component_absent_in_file", len(vrfSlots)) // 0: none (the cluster section is always there)
	var comps []*vrfComp
	valid := true
	for i, s := range vrfSlots {
		c := vrfNewComp(s)
		c.value = vrf_nondet_int("value")
		c.secret = "s3cret-" + s.key
		comps = append(comps, c)
		if i != 0 && i == absentInFile {
			continue
		}
		mgr.RegisterComponent(s.t, c)
		if c.value < 0 {
			valid = false
		}
	}
	raw, err := mgr.ToJSON()
	if !valid {
		vrf_assert(err != nil, "C15.manager.invalid-not-saved")
		vrf_reach("C15.manager.end-invalid")
		return
	}
	vrf_assert(err == nil, "C15.manager.valid-saved")
	if err != nil {
		return
	}

	mgr2 := NewManager()
	defer mgr2.Shutdown()
	unknownToLoader := vrf_choice("component_unknown_to_loader", len(vrfSlots)) // 0: none
	var back []*vrfComp
	for i, s := range vrfSlots {
		c := vrfNewComp(s)
		c.value = -5 // whatever it held before must not survive
		c.envSet, c.envValue = vrf_nondet_bool("env_set"), vrf_nondet_int("env_value")
		back = append(back, c)
		if i != 0 && i == unknownToLoader {
			continue
		}
		mgr2.RegisterComponent(s.t, c)
	}
	lerr := mgr2.LoadJSON(raw)
	vrf_assert(lerr == nil, "C15.manager.valid-loads")
	if lerr != nil {
		return
	}
	for i, s := range vrfSlots {
		c := back[i]
		switch {
		case i != 0 && i == unknownToLoader:
			vrf_assert(c.loads == 0 && c.defaults == 0 && c.value == -5, "C15.manager.unregistered-untouched")
		case i != 0 && i == absentInFile:
			vrf_assert(c.loads == 0 && c.defaults == 1 && c.value == 7, "C15.manager.absent-gets-defaults")
			vrf_assert(!mgr2.IsLoadedFromJSON(s.t, s.key), "C15.manager.absent-reported")
		default:
			vrf_assert(c.loads == 1 && c.defaults == 0, "C15.manager.each-component-loaded-once")
			vrf_assert(c.value == comps[i].value && c.secret == comps[i].secret, "C15.manager.roundtrip")
			if i != 0 {
				vrf_assert(mgr2.IsLoadedFromJSON(s.t, s.key), "C15.manager.loaded-reported")
			}
		}
	}

	// the display form
	var savesBefore []int
	for _, c := range back {
		savesBefore = append(savesBefore, c.saves)
	}
	disp, derr := mgr2.ToDisplayJSON()
	vrf_assert(derr == nil, "C15.manager.display-ok")
	for i, c := range back {
		registered := !(i != 0 && i == unknownToLoader)
		vrf_assert(c.saves == savesBefore[i], "C15.manager.display-never-uses-the-stored-form")
		if registered {
			vrf_assert(c.displays == 1, "C15.manager.display-visits-each-once")
		} else {
			vrf_assert(c.displays == 0, "C15.manager.display-visits-each-once")
		}
	}
	if !vrf_symbolic() {
		// natively the text is there to look at
		vrf_assert(!strings.Contains(string(disp), "s3cret-"), "C15.manager.display-hides-secrets")
	}

	// environment
	eerr := mgr2.ApplyEnvVars()
	vrf_assert(eerr == nil, "C15.manager.env-ok")
	for i, c := range back {
		registered := !(i != 0 && i == unknownToLoader)
		if registered {
			vrf_assert(c.envs == 1, "C15.manager.env-visits-each-once")
			vrf_assert(vrf_implies(c.envSet, c.value == c.envValue), "C15.manager.env-in-effect")
		} else {
			vrf_assert(c.envs == 0, "C15.manager.env-visits-each-once")
		}
	}
	vrf_reach("C15.manager.end")
}

// VrfC15ManagerDoc: hand-written configuration files: one with a component the
// loader refuses is refused as a whole; a file without the cluster section or
// with an unknown section / component loads what it has.
func VrfC15ManagerDoc() {
	bad := vrf_choice("invalid_component", len(vrfSlots)+1) // len: none
	val := func(i int) string {
		if i == bad {
			return "-1"
		}
		return "3"
	}
	doc := `{"cluster":{"value":` + val(0) + `,"secret":"a"},` +
		`"consensus":{"raft":{"value":` + val(1) + `},"crdt":{"value":` + val(2) + `},"paxos":{"value":-1}},` +
		`"datastore":{"badger":{"value":` + val(3) + `}},` +
		`"informer":{"disk":{"value":` + val(4) + `}},` +
		`"future_section":{"x":{"value":-1}}}`
	mgr := NewManager()
	defer mgr.Shutdown()
	var comps []*vrfComp
	for _, s := range vrfSlots {
		c := vrfNewComp(s)
		comps = append(comps, c)
		mgr.RegisterComponent(s.t, c)
	}
	err := mgr.LoadJSON([]byte(doc))
	if bad < len(vrfSlots) {
		vrf_assert(err != nil, "C15.manager.invalid-component-refused")
		vrf_reach("C15.manager.doc-end-refused")
		return
	}
	vrf_assert(err == nil, "C15.manager.doc-loads")
	for _, c := range comps {
		vrf_assert(c.value == 3 && c.loads == 1, "C15.manager.doc-in-effect")
	}
	vrf_assert(mgr.Validate() == nil, "C15.manager.loaded-implies-valid")
	vrf_reach("C15.manager.doc-end")
}
