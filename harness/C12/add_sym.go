package ipfsproxy

import (
	"net/http"

	cid "github.com/ipfs/go-cid"
	"net/url"
)

func vrfAddRequest(rawQuery string, multipartBody bool) *http.Request {
	r := &http.Request{Method: "POST", URL: &url.URL{Path: "/api/v0/add", RawQuery: rawQuery}, Header: http.Header{}}
	if multipartBody {
		r.Header.Set("Content-Type", "multipart/form-data; boundary=vrfboundary")
	}
	return r
}

func vrfAddRan(s *vrfSvc) bool { return vrfAddInvoked > 0 }

func vrfAddedRoot(s *vrfSvc) cid.Cid { return vrfTestCid(1) }

func vrfExpectedAddRoot(layout string) cid.Cid { return vrfTestCid(1) }
