package ipfsproxy

import (
	"bytes"

	cid "github.com/ipfs/go-cid"
	"io"
	"mime/multipart"
	"net/http"
	"net/url"
)

func vrfAddRequest(rawQuery string, multipartBody bool) *http.Request {
	r := &http.Request{Method: "POST", URL: &url.URL{Path: "/api/v0/add", RawQuery: rawQuery}, Header: http.Header{}}
	var buf bytes.Buffer
	if multipartBody {
		mw := multipart.NewWriter(&buf)
		fw, _ := mw.CreateFormFile("file", "a.txt")
		fw.Write([]byte("hello"))
		mw.Close()
		r.Header.Set("Content-Type", mw.FormDataContentType())
	}
	r.Body = io.NopCloser(&buf)
	return r
}

// natively the real adder runs: it shows as RPC traffic (block allocation)
func vrfAddRan(s *vrfSvc) bool {
	for _, c := range s.calls {
		if c.method == "BlockAllocate" {
			return true
		}
	}
	return false
}

func vrfAddedRoot(s *vrfSvc) cid.Cid { return s.addedRoot }
