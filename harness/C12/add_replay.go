package ipfsproxy

import (
	"bytes"
	"context"

	"github.com/ipfs/ipfs-cluster/adder/adderutils"
	"github.com/ipfs/ipfs-cluster/api"

	cid "github.com/ipfs/go-cid"
	"io"
	"mime/multipart"
	"net/http"
	"net/url"
)

func vrfAddRequest(rawQuery string, multipartBody bool) *http.Request {
	r := &http.Request{Method: "POST", URL: &url.URL{Path: "/api/v0/add", RawQuery: rawQuery}, Header: http.Header{}}
	var buf bytes.Buffer
	if multipartBody {
		mw := multipart.NewWriter(&buf)
		fw, _ := mw.CreateFormFile("file", "a.txt")
		// 200 one-byte chunks (the request asks for chunker=size-1): more than one
		// level of links, so the two DAG layouts give different roots
		fw.Write(bytes.Repeat([]byte("hello"), 40))
		mw.Close()
		r.Header.Set("Content-Type", mw.FormDataContentType())
	}
	r.Body = io.NopCloser(&buf)
	return r
}

// natively the real adder runs: it shows as RPC traffic (block allocation)
func vrfAddRan(s *vrfSvc) bool {
	for _, c := range s.calls {
		if c.method == "BlockAllocate" {
			return true
		}
	}
	return false
}

func vrfAddedRoot(s *vrfSvc) cid.Cid { return s.addedRoot }

// the root the real adder produces for the same upload when it is given the
// requested layout directly (differential oracle for the native run)
func vrfExpectedAddRoot(layout string) cid.Cid {
	saved := vrfTheSvc
	defer func() { vrfTheSvc = saved }()
	s2 := &vrfSvc{}
	p2 := vrfNewProxy(s2)
	params := api.DefaultAddParams()
	params.Layout = layout
	params.Chunker = "size-1"
	r := vrfAddRequest("", true)
	reader, err := r.MultipartReader()
	if err != nil {
		panic(err)
	}
	w := &vrfWriter{hdr: http.Header{}}
	root, err := adderutils.AddMultipartHTTPHandler(context.Background(), p2.rpcClient, params, reader, w, nil)
	if err != nil {
		panic(err)
	}
	return root
}
