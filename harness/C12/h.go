package ipfsproxy

import (
	"context"
	"encoding/json"
	"errors"
	"mime/multipart"
	"net/http"
	"net/url"

	"github.com/ipfs/ipfs-cluster/api"

	"github.com/gorilla/mux"
	cid "github.com/ipfs/go-cid"
	gopath "github.com/ipfs/go-path"
	peer "github.com/libp2p/go-libp2p-core/peer"
	rpc "github.com/libp2p/go-libp2p-gorpc"
)

var vrfEntries = map[string]func(){
	"VrfC12PinOps": VrfC12PinOps,
	"VrfC12Update": VrfC12Update,
	"VrfC12Add":    VrfC12Add,
	"VrfC12PinLs":  VrfC12PinLs,
	"VrfC12RepoStat": VrfC12RepoStat,
	"VrfC12Router":   VrfC12Router,
	"VrfC12RepoGC":   VrfC12RepoGC,
}

type vrfWriter struct {
	hdr       http.Header
	headers   int
	status    int
	documents int
	last      []byte // the last body chunk written
	all       [][]byte
}

func (w *vrfWriter) Header() http.Header { return w.hdr }
func (w *vrfWriter) Write(b []byte) (int, error) {
	if w.headers == 0 {
		w.headers, w.status = 1, 200
	}
	w.documents++
	w.last = b
	w.all = append(w.all, append([]byte{}, b...))
	return len(b), nil
}
func (w *vrfWriter) WriteHeader(code int) {
	w.headers++
	if w.headers == 1 {
		w.status = code
	}
}

type vrfCall struct {
	svc, method string
	path        *api.PinPath
	pin         *api.Pin
	ok          bool
}

type vrfSvc struct {
	calls   []vrfCall
	answers []bool // per mutating call, in order: succeeds?
	next    int
	resolve cid.Cid
	resolveFails bool
	addedRoot cid.Cid
	pinset    []cid.Cid // what Cluster.Pins / PinGet know
	readFails bool      // Pins / PinGet / Peers fail
	peers     []peer.ID
	stats     map[peer.ID]*api.IPFSRepoStat // nil entry = unreachable
	gc        *api.GlobalRepoGC
	gcFails   bool
}

func (s *vrfSvc) answer() bool {
	ok := true
	if s.next < len(s.answers) {
		ok = s.answers[s.next]
	}
	s.next++
	return ok
}

var vrfErrCluster = errors.New("cluster: operation failed")

type vrfClusterAPI struct{ s *vrfSvc }

func (a *vrfClusterAPI) PinPath(ctx context.Context, in *api.PinPath, out *api.Pin) error {
	ok := a.s.answer()
	a.s.calls = append(a.s.calls, vrfCall{svc: "Cluster", method: "PinPath", path: in, ok: ok})
	if !ok {
		return vrfErrCluster
	}
	*out = *api.PinCid(vrfTestCid(1))
	return nil
}
func (a *vrfClusterAPI) UnpinPath(ctx context.Context, in *api.PinPath, out *api.Pin) error {
	ok := a.s.answer()
	a.s.calls = append(a.s.calls, vrfCall{svc: "Cluster", method: "UnpinPath", path: in, ok: ok})
	if !ok {
		return vrfErrCluster
	}
	*out = *api.PinCid(vrfTestCid(1))
	return nil
}
func (a *vrfClusterAPI) Unpin(ctx context.Context, in *api.Pin, out *api.Pin) error {
	ok := a.s.answer()
	a.s.calls = append(a.s.calls, vrfCall{svc: "Cluster", method: "Unpin", pin: in, ok: ok})
	if !ok {
		return vrfErrCluster
	}
	*out = *in
	return nil
}
func (a *vrfClusterAPI) PinGet(ctx context.Context, in cid.Cid, out *api.Pin) error {
	a.s.calls = append(a.s.calls, vrfCall{svc: "Cluster", method: "PinGet", pin: api.PinCid(in)})
	if a.s.readFails {
		return vrfErrCluster
	}
	for _, c := range a.s.pinset {
		if c.Equals(in) {
			*out = *api.PinCid(c)
			return nil
		}
	}
	return errors.New("not found")
}
func (a *vrfClusterAPI) Pins(ctx context.Context, in struct{}, out *[]*api.Pin) error {
	a.s.calls = append(a.s.calls, vrfCall{svc: "Cluster", method: "Pins"})
	if a.s.readFails {
		return vrfErrCluster
	}
	for _, c := range a.s.pinset {
		*out = append(*out, api.PinCid(c))
	}
	return nil
}

func (a *vrfClusterAPI) RepoGC(ctx context.Context, in struct{}, out *api.GlobalRepoGC) error {
	a.s.calls = append(a.s.calls, vrfCall{svc: "Cluster", method: "RepoGC", ok: !a.s.gcFails})
	if a.s.gcFails {
		return vrfErrCluster
	}
	if a.s.gc != nil {
		*out = *a.s.gc
	}
	return nil
}

type vrfConsensusAPI struct{ s *vrfSvc }

func (a *vrfConsensusAPI) Peers(ctx context.Context, in struct{}, out *[]peer.ID) error {
	a.s.calls = append(a.s.calls, vrfCall{svc: "Consensus", method: "Peers"})
	if a.s.readFails {
		return vrfErrCluster
	}
	*out = append(*out, a.s.peers...)
	return nil
}

var vrfTheSvc *vrfSvc
var vrfErrUnreachable = errors.New("dial backoff")

// engine hook of the gorpc model: calls addressed to other peers
func vrfRPCRemote(dest peer.ID, svc, method string, args, reply interface{}) (bool, error) {
	if dest == "" {
		return false, nil
	}
	vrfTheSvc.calls = append(vrfTheSvc.calls, vrfCall{svc: svc, method: method})
	st := vrfTheSvc.stats[dest]
	if st == nil {
		return true, vrfErrUnreachable
	}
	if r, ok := reply.(*api.IPFSRepoStat); ok {
		*r = *st
	}
	return true, nil
}
func vrfIsAuthError(err error) bool { return false }

// the three endpoints the real adder needs (native replay runs the real add)
func (a *vrfClusterAPI) BlockAllocate(ctx context.Context, in *api.Pin, out *[]peer.ID) error {
	a.s.calls = append(a.s.calls, vrfCall{svc: "Cluster", method: "BlockAllocate", pin: in})
	*out = []peer.ID{""}
	return nil
}
func (a *vrfClusterAPI) Pin(ctx context.Context, in *api.Pin, out *api.Pin) error {
	a.s.calls = append(a.s.calls, vrfCall{svc: "Cluster", method: "Pin", pin: in})
	a.s.addedRoot = in.Cid
	*out = *in
	return nil
}
func (a *vrfIPFSAPI) BlockPut(ctx context.Context, in *api.NodeWithMeta, out *struct{}) error {
	return nil
}

type vrfIPFSAPI struct{ s *vrfSvc }

func (a *vrfIPFSAPI) Resolve(ctx context.Context, in string, out *cid.Cid) error {
	a.s.calls = append(a.s.calls, vrfCall{svc: "IPFSConnector", method: "Resolve", ok: !a.s.resolveFails})
	if a.s.resolveFails {
		return errors.New("ipfs: cannot resolve")
	}
	*out = a.s.resolve
	return nil
}

func vrfTestCid(i int) cid.Cid {
	c, _ := cid.Decode([]string{
		"QmUaFyXjZUNaUwYF8rBtbJc7fEJ46aJXvgV8z2HHs6jvmJ",
		"QmbrCtydGyPeHiLURSPMqrvE5mCgMCwFYq3UD4XLCeAYw6",
		"QmZHKZDavkvNfA9gSAg7HALv8jF7BJaKjUc9U2LSuvUySB"}[i])
	return c
}

func vrfNewProxy(s *vrfSvc) *Server {
	srv := rpc.NewServer(nil, "vrf")
	if err := srv.RegisterName("Cluster", &vrfClusterAPI{s}); err != nil {
		panic(err)
	}
	if err := srv.RegisterName("IPFSConnector", &vrfIPFSAPI{s}); err != nil {
		panic(err)
	}
	if err := srv.RegisterName("Consensus", &vrfConsensusAPI{s}); err != nil {
		panic(err)
	}
	vrfTheSvc = s
	cfg := &Config{ExtractHeadersPath: "/api/v0/version", ExtractHeadersTTL: 300000000000}
	p := &Server{ctx: context.Background(), config: cfg, nodeScheme: "http", nodeAddr: "http://127.0.0.1:1",
		ipfsRoundTripper: http.DefaultTransport}
	p.rpcClient = rpc.NewClientWithServer(nil, "vrf", srv)
	return p
}

// (engine only) the CORS/extra-header copying talks to the IPFS daemon over HTTP
func vrfNoHeaders(proxy *Server, dest http.Header, r *http.Request) {}

var vrfArgs = []string{
	"QmUaFyXjZUNaUwYF8rBtbJc7fEJ46aJXvgV8z2HHs6jvmJ",
	"/ipfs/QmUaFyXjZUNaUwYF8rBtbJc7fEJ46aJXvgV8z2HHs6jvmJ/a/file",
	"/ipns/example.org",
	"not-a-path",
	"",
	"/bogus/QmUaFyXjZUNaUwYF8rBtbJc7fEJ46aJXvgV8z2HHs6jvmJ",
}

func vrfParsed(arg string) (string, bool) {
	p, err := gopath.ParsePath(arg)
	if err != nil {
		return "", false
	}
	return p.String(), true
}

// mutatingSucceeded: some state-changing cluster RPC returned success
func (s *vrfSvc) mutatingSucceeded() bool {
	for _, c := range s.calls {
		if c.svc == "Cluster" && c.ok && (c.method == "PinPath" || c.method == "UnpinPath" || c.method == "Unpin") {
			return true
		}
	}
	return false
}

// VrfC12PinOps: pin/add and pin/rm in both argument styles.
func VrfC12PinOps() {
	s := &vrfSvc{answers: []bool{vrf_nondet_bool("cluster_ok")}}
	p := vrfNewProxy(s)
	unpin := vrf_choice("unpin_route", 2) == 1
	slash := vrf_choice("slash_style", 2) == 1
	arg := vrfArgs[vrf_choice("arg", len(vrfArgs))]
	typ := vrf_nondet_string("type")
	q := url.Values{}
	q.Set("type", typ)
	if !slash {
		q.Set("arg", arg)
	}
	r := &http.Request{Method: "POST", URL: &url.URL{Path: "/api/v0/pin/add", RawQuery: q.Encode()}, Header: http.Header{}}
	w := &vrfWriter{hdr: http.Header{}}
	h := p.pinHandler
	want := "PinPath"
	if unpin {
		h, want = p.unpinHandler, "UnpinPath"
	}
	if slash {
		r = mux.SetURLVars(r, map[string]string{"arg": arg})
		slashHandler(h)(w, r)
	} else {
		h(w, r)
	}
	parsed, ok := vrfParsed(arg)
	vrf_assert(w.headers == 1, "C12.response.one-status")
	if !ok {
		vrf_assert(w.status >= 400, "C12.pinop.bad-path-error")
		vrf_assert(len(s.calls) == 0, "C12.pinop.bad-path-no-op")
		vrf_reach("C12.pinop.end-bad")
		return
	}
	vrf_assert(len(s.calls) == 1, "C12.pinop.one-rpc")
	if len(s.calls) == 1 {
		c := s.calls[0]
		vrf_assert(c.method == want, "C12.op.matches-route")
		vrf_assert(c.path != nil && c.path.Path == parsed, "C12.op.same-path")
		wantMode := api.PinModeRecursive
		if typ == "direct" {
			wantMode = api.PinModeDirect
		}
		vrf_assert(c.path != nil && c.path.Mode == wantMode, "C12.op.requested-mode")
	}
	vrf_assert((w.status >= 400) == !s.answers[0], "C12.pinop.error-iff-failed")
	vrf_assert(vrf_implies(w.status >= 400, !s.mutatingSucceeded()), "C12.error.no-op")
	vrf_reach("C12.pinop.end-ok")
}

// VrfC12Update: pin/update
func VrfC12Update() {
	s := &vrfSvc{answers: []bool{vrf_nondet_bool("pinpath_ok"), vrf_nondet_bool("unpin_ok")}}
	s.resolve = vrfTestCid(2)
	s.resolveFails = vrf_nondet_bool("resolve_fails")
	p := vrfNewProxy(s)
	nargs := vrf_choice("nargs", 3)
	from := vrfArgs[vrf_choice("from", 4)]
	to := vrfArgs[vrf_choice("to", 4)]
	unpinParam := vrf_nondet_string("unpin")
	q := url.Values{}
	if nargs >= 1 {
		q.Add("arg", from)
	}
	if nargs >= 2 {
		q.Add("arg", to)
	}
	q.Set("unpin", unpinParam)
	r := &http.Request{Method: "POST", URL: &url.URL{Path: "/api/v0/pin/update", RawQuery: q.Encode()}, Header: http.Header{}}
	w := &vrfWriter{hdr: http.Header{}}
	p.pinUpdateHandler(w, r)
	vrf_assert(w.headers == 1, "C12.response.one-status")
	_, okFrom := vrfParsed(from)
	toParsed, okTo := vrfParsed(to)
	malformed := nargs < 2 || !okFrom || !okTo
	var mutating []vrfCall
	for _, c := range s.calls {
		if c.svc == "Cluster" {
			mutating = append(mutating, c)
		}
	}
	if malformed {
		vrf_assert(w.status >= 400, "C12.update.malformed-error")
		vrf_assert(len(s.calls) == 0, "C12.update.malformed-no-op")
		vrf_reach("C12.update.end-malformed")
		return
	}
	if s.resolveFails {
		vrf_assert(w.status >= 400 && len(mutating) == 0, "C12.update.resolve-failed-no-op")
		vrf_reach("C12.update.end-unresolved")
		return
	}
	vrf_assert(len(mutating) >= 1 && mutating[0].method == "PinPath", "C12.update.pins-first")
	if len(mutating) >= 1 && mutating[0].path != nil {
		vrf_assert(mutating[0].path.Path == toParsed, "C12.update.pins-to-path")
		vrf_assert(mutating[0].path.PinUpdate.Equals(s.resolve), "C12.update.from-resolved-cid")
	}
	wantUnpin := vrf_and(s.answers[0], unpinParam != "false")
	vrf_assert((len(mutating) == 2) == wantUnpin, "C12.update.unpin-iff-asked")
	if len(mutating) == 2 {
		vrf_assert(mutating[1].method == "Unpin" && mutating[1].pin != nil && mutating[1].pin.Cid.Equals(s.resolve), "C12.update.unpins-source-only")
	}
	vrf_assert(len(mutating) <= 2, "C12.update.nothing-else")
	vrf_note_bool("pin_succeeded_unpin_failed", vrf_and(s.answers[0], vrf_and(unpinParam != "false", !s.answers[1])))
	vrf_assert(vrf_implies(w.status >= 400, !s.mutatingSucceeded()), "C12.update.error-no-op")
	vrf_reach("C12.update.end-ok")
}

var vrfAddInvoked int
var vrfAddParams *api.AddParams

// (engine only) stands for adderutils.AddMultipartHTTPHandler: records the
// invocation and answers like the real one does (headers, then a status line).
func vrfAddModel(ctx context.Context, c *rpc.Client, params *api.AddParams, reader *multipart.Reader, w http.ResponseWriter, out func(*api.AddedOutput) interface{}) (cid.Cid, error) {
	vrfAddInvoked++
	vrfAddParams = params
	w.Header().Set("Content-Type", "application/json")
	if vrf_nondet_bool("add_fails") {
		w.WriteHeader(http.StatusInternalServerError)
		w.Write([]byte("{}"))
		return cid.Undef, errors.New("add failed")
	}
	w.WriteHeader(http.StatusOK)
	w.Write([]byte("[]"))
	return vrfTestCid(1), nil
}

// VrfC12Add: the hijacked add endpoint up to the hand-over to the adder.
func VrfC12Add() {
	s := &vrfSvc{answers: []bool{vrf_nondet_bool("unpin_ok")}}
	p := vrfNewProxy(s)
	onlyHash := vrf_nondet_string("only_hash")
	pin := vrf_nondet_string("pin")
	layout := vrf_nondet_string("layout")
	q := url.Values{}
	q.Set("only-hash", onlyHash)
	q.Set("pin", pin)
	q.Set("layout", layout)
	q.Set("chunker", "size-1")
	multipartBody := vrf_choice("multipart_body", 2) == 1
	r := vrfAddRequest(q.Encode(), multipartBody)
	w := &vrfWriter{hdr: http.Header{}}
	vrfAddInvoked = 0
	p.addHandler(w, r)
	refused := vrf_or(!multipartBody, vrf_or(onlyHash == "true", !vrf_or(layout == "", vrf_or(layout == "trickle", layout == "balanced"))))
	vrf_note_bool("only_hash", onlyHash == "true")
	vrf_note_bool("refused", refused)
	// one answer per request: an error answer is final
	vrf_assert(w.headers == 1, "C12.add.one-status")
	if refused {
		vrf_assert(w.status >= 400, "C12.add.refused-error")
		vrf_assert(!vrfAddRan(s), "C12.add.error-no-op")
		vrf_assert(!s.mutatingSucceeded(), "C12.add.error-no-unpin")
	} else {
		vrf_assert(vrfAddRan(s), "C12.add.performed")
		if vrf_symbolic() && vrfAddParams != nil {
			vrf_assert(vrfAddParams.Layout == layout, "C12.add.requested-layout")
			vrf_assert(vrfAddParams.Chunker == "size-1", "C12.add.requested-chunker")
		}
		if !vrf_symbolic() && w.status == 200 && s.addedRoot.Defined() {
			// natively the real adder ran: the root it pinned is the one the requested layout gives
			vrf_assert(vrfAddedRoot(s).Equals(vrfExpectedAddRoot(layout)), "C12.add.requested-layout")
		}
		// pin=false: the added root is unpinned again (and only then)
		added := w.status == 200
		unpins := 0
		for _, c := range s.calls {
			if c.svc == "Cluster" && c.method == "Unpin" {
				unpins++
				vrf_assert(c.pin != nil && c.pin.Cid.Equals(vrfAddedRoot(s)), "C12.add.unpins-root")
			}
		}
		vrf_note_bool("pin_false", pin == "false")
		vrf_assert((unpins == 1) == vrf_and(added, pin == "false"), "C12.add.unpin-iff-asked")
	}
	vrf_reach("C12.add.end")
}

// VrfC12PinLs: pin/ls is answered from the cluster pinset, never by the daemon,
// and performs no state-changing operation.
func VrfC12PinLs() {
	s := &vrfSvc{readFails: vrf_nondet_bool("cluster_read_fails")}
	for i := 0; i < 2; i++ {
		if vrf_choice("in_pinset", 2) == 1 {
			s.pinset = append(s.pinset, vrfTestCid(i))
		}
	}
	p := vrfNewProxy(s)
	args := []string{"", vrfTestCid(0).String(), vrfTestCid(2).String(), "not-a-cid"}
	k := vrf_choice("arg", len(args))
	q := url.Values{}
	if k > 0 {
		q.Set("arg", args[k])
	}
	r := &http.Request{Method: "POST", URL: &url.URL{Path: "/api/v0/pin/ls", RawQuery: q.Encode()}, Header: http.Header{}}
	w := &vrfWriter{hdr: http.Header{}}
	p.pinLsHandler(w, r)
	vrf_assert(w.headers == 1, "C12.response.one-status")
	vrf_assert(!s.mutatingSucceeded(), "C12.pinls.read-only")
	var body ipfsPinLsResp
	if w.status == 200 {
		vrf_assert(json.Unmarshal(w.last, &body) == nil, "C12.pinls.body-is-a-listing")
	}
	switch {
	case k == 3:
		vrf_assert(w.status >= 400 && len(s.calls) == 0, "C12.pinls.bad-cid-refused")
	case k == 0:
		vrf_assert(len(s.calls) == 1 && s.calls[0].method == "Pins", "C12.pinls.lists-the-pinset")
		if s.readFails {
			vrf_assert(w.status >= 400, "C12.pinls.error-reported")
		} else {
			vrf_assert(w.status == 200 && len(body.Keys) == len(s.pinset), "C12.pinls.exactly-the-pinset")
			for _, c := range s.pinset {
				_, ok := body.Keys[c.String()]
				vrf_assert(ok, "C12.pinls.exactly-the-pinset")
			}
		}
	default:
		vrf_assert(len(s.calls) == 1 && s.calls[0].method == "PinGet" && s.calls[0].pin.Cid.String() == args[k], "C12.pinls.asks-for-the-cid")
		held := false
		for _, c := range s.pinset {
			if c.String() == args[k] {
				held = true
			}
		}
		if held && !s.readFails {
			_, ok := body.Keys[args[k]]
			vrf_assert(w.status == 200 && ok && len(body.Keys) == 1, "C12.pinls.pinned-listed")
		} else {
			vrf_assert(w.status >= 400, "C12.pinls.not-pinned-is-an-error")
		}
	}
	vrf_reach("C12.pinls.end")
}

// VrfC12RepoStat: repo/stat is the sum over the reachable cluster peers.
func VrfC12RepoStat() {
	s := &vrfSvc{readFails: vrf_nondet_bool("cluster_read_fails"), stats: map[peer.ID]*api.IPFSRepoStat{}}
	n := vrf_choice("peers", 3)
	var wantSize, wantMax uint64
	for i := 0; i < n; i++ {
		pid := peer.ID([]string{"pA", "pB"}[i])
		s.peers = append(s.peers, pid)
		if vrf_choice("peer_reachable", 2) == 1 {
			st := &api.IPFSRepoStat{RepoSize: vrf_nondet_uint64("repo_size"), StorageMax: vrf_nondet_uint64("storage_max")}
			s.stats[pid] = st
			wantSize += st.RepoSize
			wantMax += st.StorageMax
		}
	}
	p := vrfNewProxy(s)
	r := &http.Request{Method: "POST", URL: &url.URL{Path: "/api/v0/repo/stat"}, Header: http.Header{}}
	w := &vrfWriter{hdr: http.Header{}}
	p.repoStatHandler(w, r)
	vrf_assert(w.headers == 1, "C12.response.one-status")
	vrf_assert(!s.mutatingSucceeded(), "C12.repostat.read-only")
	if s.readFails {
		vrf_assert(w.status >= 400, "C12.repostat.error-reported")
		vrf_reach("C12.repostat.end-error")
		return
	}
	var body api.IPFSRepoStat
	vrf_assert(w.status == 200 && json.Unmarshal(w.last, &body) == nil, "C12.repostat.ok")
	vrf_assert(vrf_and(body.RepoSize == wantSize, body.StorageMax == wantMax), "C12.repostat.sum-of-reachable-peers")
	asked := 0
	for _, c := range s.calls {
		if c.svc == "IPFSConnector" && c.method == "RepoStat" {
			asked++
		}
	}
	vrf_assert(asked == n, "C12.repostat.every-peer-asked-once")
	vrf_reach("C12.repostat.end")
}

// ---- the router: which requests are hijacked, which are relayed

var vrfRelayed []*http.Request

// (engine only) stands for the reverse proxy to the IPFS daemon
func vrfDaemonServe(w http.ResponseWriter, r *http.Request) {
	vrfRelayed = append(vrfRelayed, r)
	w.WriteHeader(200)
}

// VrfC12Router: the proxy built by the real New(): every request whose method
// is POST, GET or PUT and whose path is one of the hijacked API paths is
// answered by the matching cluster operation and never reaches the daemon;
// every other request - other methods, other paths - is handed to the daemon
// relay untouched and performs no cluster operation.
func VrfC12Router() {
	cfg := &Config{}
	cfg.Default()
	cfg.Tracing = vrf_choice("tracing", 2) == 1
	p, err := New(cfg)
	vrf_assert(err == nil && p != nil, "C12.router.constructed")
	if p == nil {
		return
	}
	s := &vrfSvc{pinset: []cid.Cid{vrfTestCid(0)}, peers: []peer.ID{}, stats: map[peer.ID]*api.IPFSRepoStat{}}
	vrfTheSvc = s
	srv := rpc.NewServer(nil, "vrf")
	srv.RegisterName("Cluster", &vrfClusterAPI{s})
	srv.RegisterName("IPFSConnector", &vrfIPFSAPI{s})
	srv.RegisterName("Consensus", &vrfConsensusAPI{s})
	p.rpcClient = rpc.NewClientWithServer(nil, "vrf", srv)
	vrfRelayed = nil

	c0 := vrfTestCid(0).String()
	type route struct {
		path string
		op   string // the cluster operation a hijacked request performs
		raw  string // how the path was spelled on the wire, when it had escaped characters
	}
	routes := []route{
		{"/api/v0/pin/add", "PinPath", ""}, {"/api/v0/pin/add/" + c0, "PinPath", ""},
		{"/api/v0/pin/rm", "UnpinPath", ""}, {"/api/v0/pin/rm/" + c0, "UnpinPath", ""},
		{"/api/v0/pin/ls", "PinGet", ""}, {"/api/v0/pin/ls/" + c0, "PinGet", ""},
		{"/api/v0/pin/update", "", ""}, {"/api/v0/repo/stat", "Peers", ""},
		{"/api/v0/repo/gc", "RepoGC", ""}, {"/api/v0/add", "", ""},
		// the same commands spelled with percent-escapes (the daemon would decode them too)
		{"/api/v0/pin/add", "PinPath", "/api/v0/pin/%61dd"}, {"/api/v0/pin/rm", "UnpinPath", "/api/v0/pin/r%6D"},
		// not hijacked
		{"/api/v0/version", "-", ""}, {"/api/v0/pin/verify", "-", ""}, {"/api/v0/block/put", "-", ""},
		{"/api/v0/pin/add/" + c0 + "/more", "-", ""}, {"/api/v1/pin/add", "-", ""}, {"/", "-", ""}, {"/pin/add", "-", ""},
	}
	rt := routes[vrf_choice("path", len(routes))]
	method := []string{"POST", "GET", "PUT", "OPTIONS", "HEAD", "DELETE"}[vrf_choice("method", 6)]
	q := url.Values{}
	q.Set("arg", c0)
	r := &http.Request{Method: method, URL: &url.URL{Path: rt.path, RawPath: rt.raw, RawQuery: q.Encode()}, Header: http.Header{}}
	w := &vrfWriter{hdr: http.Header{}}
	p.server.Handler.ServeHTTP(w, r)

	hijacked := rt.op != "-" && (method == "POST" || method == "GET" || method == "PUT")
	vrf_note_bool("hijacked", hijacked)
	if !hijacked {
		vrf_assert(len(vrfRelayed) == 1 && vrfRelayed[0] == r, "C12.router.relayed-untouched")
		vrf_assert(len(s.calls) == 0, "C12.router.relayed-no-cluster-op")
		vrf_reach("C12.router.end-relayed")
		return
	}
	vrf_assert(len(vrfRelayed) == 0, "C12.router.hijacked-never-reaches-daemon")
	if rt.op != "" {
		first := ""
		if len(s.calls) > 0 {
			first = s.calls[0].method
		}
		vrf_assert(first == rt.op, "C12.router.route-performs-its-operation")
	}
	vrf_reach("C12.router.end-hijacked")
}

// VrfC12RepoGC: repo/gc is answered by the cluster-wide collection: one
// Cluster.RepoGC call, every collected key of every peer reported exactly once,
// and every per-key error reported - in the line itself with stream-errors=true,
// in the X-Stream-Error trailer otherwise.
func VrfC12RepoGC() {
	s := &vrfSvc{gcFails: vrf_nondet_bool("cluster_gc_fails"), stats: map[peer.ID]*api.IPFSRepoStat{}}
	s.gc = &api.GlobalRepoGC{PeerMap: map[string]*api.RepoGC{}}
	type want struct {
		key  cid.Cid
		err  string
		seen int
	}
	var wants []*want
	n := vrf_choice("peers", 3)
	k := 0
	for i := 0; i < n; i++ {
		pid := []string{"pA", "pB"}[i]
		g := &api.RepoGC{Peer: peer.ID(pid)}
		nk := vrf_choice("keys", vrf_param("gc_keys")+1)
		for j := 0; j < nk; j++ {
			e := ""
			if vrf_choice("key_error", 2) == 1 {
				e = []string{"gc: cannot remove one", "gc: cannot remove two", "gc: cannot remove three", "gc: cannot remove four"}[k%4]
			}
			g.Keys = append(g.Keys, api.IPFSRepoGC{Key: vrfTestCid(k % 3), Error: e})
			wants = append(wants, &want{key: vrfTestCid(k % 3), err: e})
			k++
		}
		s.gc.PeerMap[pid] = g
	}
	p := vrfNewProxy(s)
	q := url.Values{}
	stream := false
	switch vrf_choice("stream_errors", 3) {
	case 1:
		q.Set("stream-errors", "true")
		stream = true
	case 2:
		q.Set("stream-errors", "false")
	}
	r := &http.Request{Method: "POST", URL: &url.URL{Path: "/api/v0/repo/gc", RawQuery: q.Encode()}, Header: http.Header{}}
	w := &vrfWriter{hdr: http.Header{}}
	p.repoGCHandler(w, r)
	vrf_assert(w.headers == 1, "C12.response.one-status")
	asked, others := 0, 0
	for _, c := range s.calls {
		if c.svc == "Cluster" && c.method == "RepoGC" {
			asked++
		} else {
			others++
		}
	}
	vrf_assert(asked == 1 && others == 0, "C12.repogc.one-cluster-collection")
	if s.gcFails {
		vrf_assert(w.status >= 400, "C12.repogc.error-reported")
		vrf_reach("C12.repogc.end-error")
		return
	}
	vrf_assert(w.status == 200, "C12.repogc.ok")
	vrf_assert(len(w.all) == len(wants), "C12.repogc.one-line-per-key")
	for _, line := range w.all {
		var resp ipfsRepoGCResp
		vrf_assert(json.Unmarshal(line, &resp) == nil, "C12.repogc.line-decodes")
		found := false
		for _, wt := range wants {
			// the same key can be collected by two peers: match error text too
			if !found && wt.seen == 0 && wt.key.Equals(resp.Key) && (!stream || wt.err == resp.Error) {
				wt.seen++
				found = true
			}
		}
		vrf_assert(found, "C12.repogc.line-is-a-collected-key")
		if !stream {
			vrf_assert(resp.Error == "", "C12.repogc.errors-in-trailer-only")
		}
	}
	trailer := w.hdr.Get("X-Stream-Error")
	anyErr := false
	for _, wt := range wants {
		vrf_assert(wt.seen == 1, "C12.repogc.every-key-once")
		if wt.err != "" {
			anyErr = true
			if !stream {
				vrf_assert(vrf_strcontains(trailer, wt.err), "C12.repogc.error-reported-in-trailer")
			}
		}
	}
	if stream || !anyErr {
		vrf_assert(trailer == "", "C12.repogc.no-spurious-trailer")
	}
	vrf_reach("C12.repogc.end")
}
