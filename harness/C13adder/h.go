package adder

import (
	"context"
	"errors"

	"github.com/ipfs/ipfs-cluster/api"

	cid "github.com/ipfs/go-cid"
	ipld "github.com/ipfs/go-ipld-format"
	peer "github.com/libp2p/go-libp2p-core/peer"
	rpc "github.com/libp2p/go-libp2p-gorpc"
)

var vrfEntries = map[string]func(){"VrfC13BlockAdder": VrfC13BlockAdder}

// a block
type vrfNode struct {
	ipld.Node
	c    cid.Cid
	data []byte
}

func (n *vrfNode) Cid() cid.Cid            { return n.c }
func (n *vrfNode) RawData() []byte         { return n.data }
func (n *vrfNode) Size() (uint64, error)   { return uint64(len(n.data)), nil }
func (n *vrfNode) Links() []*ipld.Link     { return nil }
func (n *vrfNode) String() string          { return "vrfNode" }

const (
	vrfPutOK = iota
	vrfPutRPCError   // transport / authorisation: the destination is dropped
	vrfPutOtherError // the daemon answered with an error: the destination stays
)

var vrfOutcome = map[peer.ID]int{}
var vrfErrRPC = errors.New("rpc: stream reset")
var vrfErrApp = errors.New("ipfs: block put failed")

// engine hooks of the gorpc model: per-destination answer and error class
func vrfRPCRemote(dest peer.ID, svc, method string, args, reply interface{}) (bool, error) {
	switch vrfOutcome[dest] {
	case vrfPutRPCError:
		return true, vrfErrRPC
	case vrfPutOtherError:
		return true, vrfErrApp
	}
	return true, nil
}
func vrfIsRPCError(err error) bool { return err == vrfErrRPC }

// VrfC13BlockAdder: one block put to several destinations.
func VrfC13BlockAdder() {
	n := vrf_param("destinations")
	dests := []peer.ID{"dA", "dB", "dC"}[:n]
	for _, d := range dests {
		vrfOutcome[d] = vrf_choice("put_outcome", 3)
	}
	srv := rpc.NewServer(nil, "vrf")
	ba := NewBlockAdder(rpc.NewClientWithServer(nil, "vrf", srv), dests)
	c, _ := cid.Decode("QmUaFyXjZUNaUwYF8rBtbJc7fEJ46aJXvgV8z2HHs6jvmJ")
	err := ba.Add(context.Background(), &vrfNode{c: c, data: []byte("block")})
	failed, rpcFailed := 0, 0
	var want []peer.ID
	for _, d := range dests {
		if vrfOutcome[d] != vrfPutOK {
			failed++
		}
		if vrfOutcome[d] == vrfPutRPCError {
			rpcFailed++
		} else {
			want = append(want, d)
		}
	}
	// success rule: fail iff the block reached no destination, or none remains
	vrf_assert((err != nil) == (failed == n || rpcFailed == n), "C13.put.success-rule")
	if err == nil {
		vrf_assert(len(ba.dests) == len(want), "C13.put.remaining-destinations")
		for i := range want {
			if i < len(ba.dests) {
				vrf_assert(ba.dests[i] == want[i], "C13.put.remaining-destinations")
			}
		}
	} else {
		vrf_assert(err == ErrBlockAdder, "C13.put.error-kind")
	}
	vrf_reach("C13.put.end")
}

var _ api.Pin
