package ipfscluster

import (
	"time"

	"github.com/ipfs/ipfs-cluster/api"

)

var vrfEntries = map[string]func(){
	"VrfC04Pin":    VrfC04Pin,
	"VrfC04Unpin":  VrfC04Unpin,
	"VrfC04Update": VrfC04Update,
}

func VrfC04Pin() {
	n := vrf_param("peers")
	now := vrf_now()
	cons := &vrfConsensus{}
	mon := vrfSymbolicMonitor(n, "freespace")
	c := vrfNewCluster(n, cons, mon)
	target := vrfCid(0)
	other := api.PinCid(vrfCid(1)) // an unrelated entry that must never change
	other.ReplicationFactorMin, other.ReplicationFactorMax = -1, -1
	cons.pins = append(cons.pins, other)

	var existing *api.Pin
	if vrf_choice("existing", 2) == 1 {
		existing = vrfExistingPin(target, now, n)
		cons.pins = append(cons.pins, existing)
	}
	opts := vrfSymbolicOptions(now, true)
	// a request may name the CID itself as its update source: that is an ordinary (re-)pin
	if vrf_param("self_update") == 1 && vrf_choice("update_source_is_the_cid_itself", 2) == 1 {
		opts.PinUpdate = target
	}
	optsCopy := opts
	optsCopy.Metadata = map[string]string{}
	for k, v := range opts.Metadata {
		optsCopy.Metadata[k] = v
	}
	cons.failLog = vrf_nondet_bool("commit_fails")

	res, err := c.Pin(c.ctx, target, opts)

	// effective factors: cluster defaults substituted for unset ones
	effMin, effMax := opts.ReplicationFactorMin, opts.ReplicationFactorMax
	effMin = vrf_ite_int(effMin == 0, c.config.ReplicationFactorMin, effMin)
	effMax = vrf_ite_int(effMax == 0, c.config.ReplicationFactorMax, effMax)
	badFactors := !vrfFactorsValid(effMin, effMax)
	expired := vrf_and(!opts.ExpireAt.IsZero(), opts.ExpireAt.UnixNano() < now)
	typeMismatch, downgrade := false, false
	if existing != nil {
		typeMismatch = existing.Type != api.DataType
		downgrade = vrf_and(existing.Mode == api.PinModeRecursive, opts.Mode != api.PinModeRecursive)
	}
	mustRefuse := vrf_or(vrf_or(c.config.FollowerMode, badFactors), vrf_or(expired, vrf_or(typeMismatch, downgrade)))
	vrf_note_bool("must_refuse", mustRefuse)

	// the unrelated entry is never touched
	for _, e := range cons.log {
		vrf_assert(e.pin.Cid.Equals(target), "C04.pin.only-target-touched")
		vrf_assert(!e.unpin, "C04.pin.never-unpins")
	}
	if mustRefuse {
		vrf_assert(err != nil, "C04.refuse.error-returned")
		vrf_assert(len(cons.log) == 0, "C04.refuse.no-change")
		vrf_reach("C04.pin.end-refused")
		return
	}
	if err != nil {
		// allocation failure or commit failure: nothing changes
		vrf_assert(len(cons.log) == 0, "C04.fail.no-change")
		vrf_reach("C04.pin.end-failed")
		return
	}
	vrf_assert(len(cons.log) == 1, "C04.pin.exactly-one-entry")
	stored := cons.log[0].pin
	vrf_assert(res != nil && res.Cid.Equals(target), "C04.pin.returns-pin")
	// requested options are the stored options
	vrf_assert(stored.Name == optsCopy.Name, "C04.pin.options-stored.name")
	vrf_assert(stored.Mode == optsCopy.Mode, "C04.pin.options-stored.mode")
	vrf_assert(stored.MaxDepth == optsCopy.Mode.ToPinDepth(), "C04.pin.options-stored.depth")
	vrf_assert(stored.ReplicationFactorMin == effMin, "C04.pin.options-stored.rmin")
	vrf_assert(stored.ReplicationFactorMax == effMax, "C04.pin.options-stored.rmax")
	vrf_assert(stored.ExpireAt.Equal(optsCopy.ExpireAt), "C04.pin.options-stored.expiry")
	hadKey := existing != nil && len(existing.Metadata) > len(optsCopy.Metadata)
	vrf_note_bool("metadata_key_removed", hadKey)
	vrf_assert(vrfMetaEqual(stored.Metadata, optsCopy.Metadata), "C04.pin.options-stored.metadata")
	vrf_assert(vrfOriginsEqual(stored.Origins, optsCopy.Origins), "C04.pin.options-stored.origins")
	vrf_assert(stored.Type == api.DataType, "C04.pin.type-data")

	// identical options (an existing entry and nothing changed)?
	same := false
	if existing != nil && vrfMetaEqual(optsCopy.Metadata, existing.Metadata) && vrfOriginsEqual(optsCopy.Origins, existing.Origins) {
		same = vrf_and(vrf_and(optsCopy.Name == existing.Name, optsCopy.Mode == existing.Mode),
			vrf_and(vrf_and(effMin == existing.ReplicationFactorMin, effMax == existing.ReplicationFactorMax),
				vrf_and(optsCopy.ExpireAt.Equal(existing.ExpireAt), len(optsCopy.UserAllocations) == 0)))
	}
	// a valid allocation
	if effMin < 0 {
		vrf_assert(len(stored.Allocations) == 0, "C04.pin.everywhere-empty")
	} else {
		nHealthy := 0
		for i, a := range stored.Allocations {
			for j := i + 1; j < len(stored.Allocations); j++ {
				vrf_assert(a != stored.Allocations[j], "C04.pin.alloc-nodup")
			}
			idx := vrfIndexOf(vrfPeerNames[:n], a)
			vrf_assert(idx >= 0, "C04.pin.alloc-known")
			if idx >= 0 {
				nHealthy = vrf_ite_int(mon.states[idx].healthy, nHealthy+1, nHealthy)
				if existing == nil || !vrfHasPeer(existing.Allocations, a) {
					vrf_assert(mon.states[idx].healthy, "C04.pin.alloc-added-healthy")
				}
			}
		}
		// freshly decided allocations hold between min and max healthy peers; an
		// unchanged re-pin keeps what was stored (asserted below)
		vrf_assert(vrf_or(same, vrf_and(nHealthy >= effMin, nHealthy <= effMax)), "C04.pin.alloc-count")
		vrf_assert(vrf_and(len(stored.Allocations) >= effMin, len(stored.Allocations) <= effMax), "C04.pin.alloc-size")
	}
	// identical options keep the allocations
	if existing != nil {
		vrf_assert(vrf_implies(same, vrfPeersEqual(stored.Allocations, existing.Allocations)), "C04.pin.same-options-keeps-allocs")
	}
	vrf_reach("C04.pin.end-ok")
}

func VrfC04Unpin() {
	n := vrf_param("peers")
	now := vrf_now()
	cons := &vrfConsensus{}
	mon := vrfSymbolicMonitor(n, "freespace")
	c := vrfNewCluster(n, cons, mon)
	target := vrfCid(0)
	other := api.PinCid(vrfCid(1))
	other.ReplicationFactorMin, other.ReplicationFactorMax = -1, -1
	cons.pins = append(cons.pins, other)
	var existing *api.Pin
	if vrf_choice("existing", 2) == 1 {
		existing = vrfExistingPin(target, now, n)
		// sharded content is exercised by the adder property (its cluster-DAG block is IPLD/CBOR)
		vrf_assume(existing.Type != api.MetaType)
		cons.pins = append(cons.pins, existing)
	}
	viaPath := vrf_choice("via_path", 2) == 1
	ipfs := c.ipfs.(*vrfIPFS)
	ipfs.resolveTo = target
	ipfs.resolveFails = vrf_nondet_bool("resolve_fails")
	cons.failLog = vrf_nondet_bool("commit_fails")
	var err error
	if viaPath {
		_, err = c.UnpinPath(c.ctx, "/ipfs/"+target.String())
	} else {
		_, err = c.Unpin(c.ctx, target)
	}
	refuse := c.config.FollowerMode || existing == nil || (viaPath && ipfs.resolveFails) ||
		(existing != nil && existing.Type != api.DataType)
	for _, e := range cons.log {
		vrf_assert(e.unpin, "C04.unpin.never-pins")
		vrf_assert(e.pin.Cid.Equals(target), "C04.unpin.only-target")
	}
	if refuse {
		vrf_assert(err != nil, "C04.unpin.refused-error")
		vrf_assert(len(cons.log) == 0, "C04.unpin.refused-no-change")
		vrf_reach("C04.unpin.end-refused")
		return
	}
	if err != nil {
		vrf_assert(len(cons.log) == 0, "C04.unpin.failed-no-change")
		vrf_reach("C04.unpin.end-failed")
		return
	}
	vrf_assert(len(cons.log) == 1, "C04.unpin.exactly-one")
	vrf_assert(cons.find(target) < 0, "C04.unpin.removed")
	vrf_assert(cons.find(vrfCid(1)) >= 0, "C04.unpin.others-kept")
	vrf_reach("C04.unpin.end-ok")
}

func VrfC04Update() {
	n := vrf_param("peers")
	now := vrf_now()
	cons := &vrfConsensus{}
	mon := vrfSymbolicMonitor(n, "freespace")
	c := vrfNewCluster(n, cons, mon)
	from, to := vrfCid(0), vrfCid(2)
	var source *api.Pin
	if vrf_choice("source_exists", 2) == 1 {
		source = vrfExistingPin(from, now, n)
		cons.pins = append(cons.pins, source)
	}
	var opts api.PinOptions
	opts.Name = vrf_nondet_string("name")
	if vrf_choice("has_expiry", 2) == 1 {
		delta := vrf_nondet_int64("expire_minus_now")
		vrf_assume(vrf_or(delta <= -vrfSecond, delta >= vrfSecond))
		vrf_assume(vrf_and(delta > -vrfSecond*1000000, delta < vrfSecond*1000000))
		opts.ExpireAt = time.Unix(0, now+delta)
	}
	viaPinOption := vrf_choice("via_pin_option", 2) == 1
	cons.failLog = vrf_nondet_bool("commit_fails")
	var err error
	if viaPinOption {
		opts.PinUpdate = from
		_, err = c.Pin(c.ctx, to, opts)
	} else {
		_, err = c.PinUpdate(c.ctx, from, to, opts)
	}
	refuse := source == nil || source.Type != api.DataType || (viaPinOption && c.config.FollowerMode)
	vrf_note_bool("follower", c.config.FollowerMode)
	vrf_note_bool("via_pin_option", viaPinOption)
	for _, e := range cons.log {
		vrf_assert(!e.unpin, "C04.update.keeps-source")
	}
	if refuse {
		vrf_assert(err != nil, "C04.update.refused-error")
		vrf_assert(len(cons.log) == 0, "C04.update.refused-no-change")
		vrf_reach("C04.update.end-refused")
		return
	}
	if !viaPinOption && c.config.FollowerMode {
		// statement: any write in follower mode is refused
		vrf_assert(err != nil && len(cons.log) == 0, "C04.update.follower-refused")
		vrf_reach("C04.update.end-follower")
		return
	}
	if err != nil {
		vrf_assert(len(cons.log) == 0, "C04.update.failed-no-change")
		vrf_reach("C04.update.end-failed")
		return
	}
	vrf_assert(len(cons.log) == 1, "C04.update.exactly-one")
	st := cons.log[0].pin
	vrf_assert(st.Cid.Equals(to), "C04.update.new-cid")
	vrf_assert(vrfPeersEqual(st.Allocations, source.Allocations), "C04.update.copies-allocations")
	vrf_assert(st.ReplicationFactorMin == source.ReplicationFactorMin && st.ReplicationFactorMax == source.ReplicationFactorMax, "C04.update.copies-factors")
	vrf_assert(st.Mode == source.Mode && st.MaxDepth == source.MaxDepth, "C04.update.copies-mode")
	vrf_assert(vrfMetaEqual(st.Metadata, source.Metadata), "C04.update.copies-metadata")
	vrf_assert(st.PinUpdate.Equals(from), "C04.update.records-source")
	vrf_assert(cons.find(from) >= 0, "C04.update.source-still-pinned")
	vrf_reach("C04.update.end-ok")
}
