package badger

import (
	"strconv"
	"time"
)

var vrfEntries = map[string]func(){"VrfC15Badger": VrfC15Badger, "VrfC15BadgerEnv": VrfC15BadgerEnv}

var vrfRatios = []float64{0, 0.2, 0.5, 1}

func vrfSymbolicConfig() *Config {
	cfg := &Config{}
	cfg.Default()
	cfg.Folder = vrf_nondet_string("folder")
	cfg.GCDiscardRatio = vrfRatios[vrf_choice("gc_discard_ratio", 4)]
	cfg.GCInterval = time.Duration(vrf_nondet_int64("gc_interval"))
	cfg.GCSleep = time.Duration(vrf_nondet_int64("gc_sleep"))
	cfg.BadgerOptions.SyncWrites = vrf_nondet_bool("sync_writes")
	cfg.BadgerOptions.Truncate = vrf_nondet_bool("truncate")
	cfg.BadgerOptions.ReadOnly = vrf_nondet_bool("read_only")
	cfg.BadgerOptions.CompactL0OnClose = vrf_nondet_bool("compact_l0_on_close")
	cfg.BadgerOptions.NumVersionsToKeep = vrf_nondet_int("num_versions_to_keep")
	cfg.BadgerOptions.MaxLevels = vrf_nondet_int("max_levels")
	cfg.BadgerOptions.MaxTableSize = vrf_nondet_int64("max_table_size")
	return cfg
}

func vrfIntSame(got, want, def int) bool { return vrf_or(got == want, vrf_and(want == 0, got == def)) }

func VrfC15Badger() {
	d := &Config{}
	d.Default()
	vrf_assert(d.Validate() == nil, "C15.badger.default-valid")
	cfg := vrfSymbolicConfig()
	valid := cfg.Validate() == nil
	raw, err := cfg.ToJSON()
	vrf_assert(err == nil, "C15.badger.save-ok")
	back := &Config{}
	lerr := back.LoadJSON(raw)
	if valid {
		vrf_assert(lerr == nil, "C15.badger.valid-loads")
		vrf_assert(back.Folder == cfg.Folder && back.GCDiscardRatio == cfg.GCDiscardRatio, "C15.badger.roundtrip")
		vrf_assert(vrf_and(back.GCInterval == cfg.GCInterval, back.GCSleep == cfg.GCSleep), "C15.badger.roundtrip")
		// a numeric zero conventionally means "use the default"
		vrf_assert(vrfIntSame(back.BadgerOptions.NumVersionsToKeep, cfg.BadgerOptions.NumVersionsToKeep, d.BadgerOptions.NumVersionsToKeep), "C15.badger.roundtrip-options")
		vrf_assert(vrfIntSame(back.BadgerOptions.MaxLevels, cfg.BadgerOptions.MaxLevels, d.BadgerOptions.MaxLevels), "C15.badger.roundtrip-options")
		vrf_assert(vrfIntSame(int(back.BadgerOptions.MaxTableSize), int(cfg.BadgerOptions.MaxTableSize), int(d.BadgerOptions.MaxTableSize)), "C15.badger.roundtrip-options")
		// switches whose default is off
		vrf_assert(vrf_and(back.BadgerOptions.ReadOnly == cfg.BadgerOptions.ReadOnly, back.BadgerOptions.CompactL0OnClose == cfg.BadgerOptions.CompactL0OnClose), "C15.badger.roundtrip-switches")
		// switches whose default is on
		vrf_note_bool("sync_writes_off", !cfg.BadgerOptions.SyncWrites)
		vrf_note_bool("truncate_off", !cfg.BadgerOptions.Truncate)
		vrf_assert(back.BadgerOptions.SyncWrites == cfg.BadgerOptions.SyncWrites, "C15.badger.roundtrip-sync-writes")
		vrf_assert(back.BadgerOptions.Truncate == cfg.BadgerOptions.Truncate, "C15.badger.roundtrip-truncate")
	} else {
		zeroish := vrf_or(cfg.Folder == "", cfg.GCDiscardRatio == 0)
		vrf_assert(vrf_or(zeroish, lerr != nil), "C15.badger.invalid-rejected")
	}
	if lerr == nil {
		vrf_assert(back.Validate() == nil, "C15.badger.loaded-implies-valid")
	}
	vrf_reach("C15.badger.end")
}

// VrfC15BadgerEnv: settings supplied through the environment (the nested badger
// options included) on top of an arbitrary valid configuration.
func VrfC15BadgerEnv() {
	cfg := vrfSymbolicConfig()
	vrf_assume(cfg.Validate() == nil)
	bFolder, bInt, bRO, bML := cfg.Folder, cfg.GCInterval, cfg.BadgerOptions.ReadOnly, cfg.BadgerOptions.MaxLevels
	setF, valF := vrf_nondet_bool("env_set_Folder"), vrf_nondet_string("env_Folder")
	setI, valI := vrf_nondet_bool("env_set_GCInterval"), time.Duration(vrf_nondet_int64("env_GCInterval"))
	setR, valR := vrf_nondet_bool("env_set_ReadOnly"), vrf_nondet_bool("env_ReadOnly")
	setL, valL := vrf_nondet_bool("env_set_MaxLevels"), vrf_nondet_int("env_MaxLevels")
	vrf_env(envConfigKey, "Folder", setF, valF)
	vrf_env(envConfigKey, "GCInterval", setI, valI.String())
	vrf_env(envConfigKey, "BadgerOptions_ReadOnly", setR, vrf_ite_str(valR, "true", "false"))
	vrf_env(envConfigKey, "BadgerOptions_MaxLevels", setL, strconv.Itoa(valL))
	err := cfg.ApplyEnvVars()
	wF := vrf_ite_str(vrf_and(setF, valF != ""), valF, bFolder)
	wI := time.Duration(vrf_ite_int(setI, int(valI), int(bInt)))
	wR := vrf_or(vrf_and(setR, valR), vrf_and(!setR, bRO))
	wL := vrf_ite_int(vrf_and(setL, valL != 0), valL, bML)
	if err == nil {
		vrf_assert(vrf_and(cfg.Folder == wF, cfg.GCInterval == wI), "C15.badger.env-in-effect")
		vrf_assert(cfg.BadgerOptions.MaxLevels == wL, "C15.badger.env-in-effect")
		vrf_note_bool("switch_off_over_on", vrf_and(vrf_and(setR, !valR), bRO))
		vrf_assert(cfg.BadgerOptions.ReadOnly == wR, "C15.badger.env-in-effect-switch")
		vrf_assert(cfg.Validate() == nil, "C15.badger.env-accepted-implies-valid")
	} else {
		vrf_assert(false, "C15.badger.env-valid-accepted")
	}
	vrf_reach("C15.badger.env-end")
}
