package ipfshttp

import (
	"context"
	"time"
)

const vrfPinTimeout = 5 * time.Second

func vrfNewConnector(d *vrfDaemon) (*Connector, func()) {
	ctx, cancel := context.WithCancel(context.Background())
	return &Connector{ctx: ctx, cancel: cancel, config: vrfConfig(), nodeAddr: "127.0.0.1:5001"}, func() {}
}
