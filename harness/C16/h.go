package ipfshttp

import (
	"context"
	"errors"
	"io"
	"net/http"
	"net/url"
	"strings"
	"time"

	"github.com/ipfs/ipfs-cluster/api"

	cid "github.com/ipfs/go-cid"
)

var vrfEntries = map[string]func(){
	"VrfC16Stall": VrfC16Stall,
	"VrfC16Pin":   VrfC16Pin,
	"VrfC16Unpin": VrfC16Unpin,
}

var vrfCidStrs = []string{
	"QmUaFyXjZUNaUwYF8rBtbJc7fEJ46aJXvgV8z2HHs6jvmJ",
	"QmbrCtydGyPeHiLURSPMqrvE5mCgMCwFYq3UD4XLCeAYw6",
}

func vrfCid(i int) cid.Cid { c, _ := cid.Decode(vrfCidStrs[i]); return c }

const (
	vrfNone = iota
	vrfRecursive
	vrfDirect
)

// answers a daemon can give to a mutating request
const (
	vrfAnsOK = iota
	vrfAnsIPFSError
	vrfAnsNotJSON
	vrfAnsTransport
	vrfAnsBrokenStream
	vrfAnsKinds
)

type vrfReq struct {
	cmd      string
	args     []string
	unpin    string
	answer   int
	heldFrom int // for pin/update: state of the source when the request arrived
}

// vrfDaemon is the IPFS daemon: a pin table over two CIDs and a scripted
// (symbolic) answer per mutating request.
type vrfDaemon struct {
	held    [2]int
	reqs    []vrfReq
	lsFails bool // pin/ls answers with a transport error
	stall   *vrfStream
}

func (d *vrfDaemon) idx(s string) int {
	for i, c := range vrfCidStrs {
		if c == s {
			return i
		}
	}
	return -1
}

type vrfAnswer struct {
	status    int
	body      string
	transport bool       // the request fails before any response
	broken    bool       // the response body breaks off after "body"
	stream    *vrfStream // the body arrives line by line, with time passing in between
}

// vrfStream is a pin/add answer that takes time: progress lines arrive after
// gaps[k] nanoseconds each, the final line after gaps[len(lines)]; the daemon
// holds the CID only when it got to the end without the request being cancelled.
type vrfStream struct {
	lines []string
	gaps  []int64
	cid   int
	sent  int
}

func vrfErrBody(msg string) string { return `{"Message":"` + msg + `","Code":0,"Type":"error"}` }

// answer implements the daemon's HTTP API for the commands the connector uses.
func (d *vrfDaemon) answer(path string) vrfAnswer {
	parts := strings.SplitN(path, "?", 2)
	cmd := parts[0]
	q := url.Values{}
	if len(parts) == 2 {
		q, _ = url.ParseQuery(parts[1])
	}
	args := q["arg"]
	switch cmd {
	case "pin/ls":
		if d.lsFails {
			return vrfAnswer{transport: true}
		}
		i := -1
		if len(args) == 1 {
			i = d.idx(args[0])
		}
		typ := q.Get("type")
		if i >= 0 && ((typ == "recursive" && d.held[i] == vrfRecursive) || (typ == "direct" && d.held[i] == vrfDirect)) {
			return vrfAnswer{status: 200, body: `{"Keys":{"` + args[0] + `":{"Type":"` + typ + `"}}}`}
		}
		return vrfAnswer{status: 500, body: vrfErrBody("path '" + strings.Join(args, "") + "' is not pinned")}
	case "pin/add":
		if d.stall != nil {
			d.reqs = append(d.reqs, vrfReq{cmd: cmd, args: args})
			return vrfAnswer{status: 200, stream: d.stall}
		}
		r := vrfReq{cmd: cmd, args: args, answer: vrf_choice("pin_add_answer", vrfAnsKinds)}
		d.reqs = append(d.reqs, r)
		i := -1
		if len(args) == 1 {
			i = d.idx(args[0])
		}
		recursive := q.Get("recursive") != "false"
		switch r.answer {
		case vrfAnsOK:
			if i < 0 {
				return vrfAnswer{status: 500, body: vrfErrBody("invalid path")}
			}
			if !recursive && d.held[i] == vrfRecursive {
				return vrfAnswer{status: 500, body: vrfErrBody("pin: " + args[0] + " already pinned recursively")}
			}
			if recursive {
				d.held[i] = vrfRecursive
			} else {
				d.held[i] = vrfDirect
			}
			return vrfAnswer{status: 200, body: `{"Progress":1}` + "\n" + `{"Progress":2}` + "\n" + `{"Pins":["` + args[0] + `"]}` + "\n"}
		case vrfAnsIPFSError:
			return vrfAnswer{status: 500, body: vrfErrBody("pin: context deadline exceeded")}
		case vrfAnsNotJSON:
			return vrfAnswer{status: 502, body: "Bad Gateway"}
		case vrfAnsBrokenStream:
			return vrfAnswer{status: 200, body: `{"Progress":1}` + "\n", broken: true}
		}
		return vrfAnswer{transport: true}
	case "pin/update":
		r := vrfReq{cmd: cmd, args: args, unpin: q.Get("unpin"), answer: vrf_choice("pin_update_answer", 3)}
		from, to := -1, -1
		if len(args) == 2 {
			from, to = d.idx(args[0]), d.idx(args[1])
		}
		if from >= 0 {
			r.heldFrom = d.held[from]
		}
		d.reqs = append(d.reqs, r)
		switch r.answer {
		case 0:
			if from < 0 || to < 0 || d.held[from] != vrfRecursive {
				return vrfAnswer{status: 500, body: vrfErrBody("'from' cid was not recursively pinned already")}
			}
			d.held[to] = vrfRecursive
			if q.Get("unpin") != "false" {
				d.held[from] = vrfNone
			}
			return vrfAnswer{status: 200, body: `{"Pins":["` + args[0] + `","` + args[1] + `"]}`}
		case 1:
			return vrfAnswer{status: 500, body: vrfErrBody("pin update failed")}
		}
		return vrfAnswer{transport: true}
	case "pin/rm":
		r := vrfReq{cmd: cmd, args: args, answer: vrf_choice("pin_rm_answer", 3)}
		d.reqs = append(d.reqs, r)
		i := -1
		if len(args) == 1 {
			i = d.idx(args[0])
		}
		switch r.answer {
		case 0:
			if i < 0 || d.held[i] == vrfNone {
				// the two texts go-ipfs uses, depending on the pinner in use
				if vrf_choice("not_pinned_text", 2) == 0 {
					return vrfAnswer{status: 500, body: vrfErrBody("not pinned or pinned indirectly")}
				}
				return vrfAnswer{status: 500, body: vrfErrBody("not pinned or pinned indirectly")}
			}
			d.held[i] = vrfNone
			return vrfAnswer{status: 200, body: `{"Pins":["` + args[0] + `"]}`}
		case 1:
			return vrfAnswer{status: 500, body: vrfErrBody("pin rm: datastore failure")}
		}
		return vrfAnswer{transport: true}
	}
	return vrfAnswer{status: 404, body: "404 page not found"}
}

// ---- response body

type vrfBody struct {
	data   string
	pos    int
	broken bool
}

var vrfErrBroken = errors.New("unexpected EOF: connection reset")

func (b *vrfBody) Read(p []byte) (int, error) {
	if b.pos >= len(b.data) {
		if b.broken {
			return 0, vrfErrBroken
		}
		return 0, io.EOF
	}
	n := copy(p, b.data[b.pos:])
	b.pos += n
	return n, nil
}
func (b *vrfBody) Close() error { return nil }

// vrfStreamBody (engine only): the response body of a slow pin/add. Reading
// blocks while time passes; like net/http's body it fails as soon as the
// request context is cancelled.
type vrfStreamBody struct {
	ctx  context.Context
	d    *vrfDaemon
	s    *vrfStream
	done bool
}

func (b *vrfStreamBody) Read(p []byte) (int, error) {
	if b.done {
		return 0, io.EOF
	}
	vrf_elapse(b.s.gaps[b.s.sent])
	if err := b.ctx.Err(); err != nil {
		return 0, err
	}
	if b.s.sent < len(b.s.lines) {
		n := copy(p, b.s.lines[b.s.sent])
		b.s.sent++
		return n, nil
	}
	b.d.held[b.s.cid] = vrfRecursive
	b.done = true
	return copy(p, `{"Pins":["`+vrfCidStrs[b.s.cid]+`"]}`+"\n"), nil
}
func (b *vrfStreamBody) Close() error { return nil }

// (engine only) stands for Connector.doPostCtx: the HTTP exchange with the daemon
func vrfDoPost(ipfs *Connector, ctx context.Context, client *http.Client, apiURL, path, contentType string, body io.Reader) (*http.Response, error) {
	a := vrfTheDaemon.answer(path)
	if a.transport {
		return nil, errors.New("Post: dial tcp: connection refused")
	}
	if a.stream != nil {
		return &http.Response{StatusCode: a.status, Body: &vrfStreamBody{ctx: ctx, d: vrfTheDaemon, s: a.stream}}, nil
	}
	return &http.Response{StatusCode: a.status, Body: &vrfBody{data: a.body, broken: a.broken}}, nil
}

var vrfTheDaemon *vrfDaemon

func vrfConfig() *Config {
	return &Config{IPFSRequestTimeout: 5 * time.Second, PinTimeout: vrfPinTimeout, UnpinTimeout: 5 * time.Second}
}

func (d *vrfDaemon) mutating() []vrfReq {
	var out []vrfReq
	for _, r := range d.reqs {
		out = append(out, r)
	}
	return out
}

// VrfC16Pin: Connector.Pin against every prior daemon state and daemon behaviour.
func VrfC16Pin() {
	d := &vrfDaemon{}
	d.held[0] = vrf_choice("target_held", 3)
	d.held[1] = vrf_choice("source_held", 3)
	d.lsFails = vrf_choice("pin_ls_fails", 2) == 1
	vrfTheDaemon = d
	ipfs, stop := vrfNewConnector(d)
	defer stop()

	pin := api.PinCid(vrfCid(0))
	depth := []api.PinDepth{-1, 0, 1}[vrf_choice("depth", 3)]
	pin.MaxDepth = depth
	pin.Mode = depth.ToPinMode()
	// the cluster itself builds pins whose mode is not the one their depth implies
	// (the cluster-DAG entry of a sharded add, pins made by the REST API from
	// ?mode=...): the depth is what the connector goes by
	if depth != 1 && vrf_choice("mode_not_implied_by_depth", 2) == 1 {
		if pin.Mode == api.PinModeDirect {
			pin.Mode = api.PinModeRecursive
		} else {
			pin.Mode = api.PinModeDirect
		}
	}
	withUpdate := vrf_choice("has_update_source", 2) == 1
	if withUpdate {
		pin.PinUpdate = vrfCid(1)
	}
	wantHeld := vrfRecursive
	if depth == 0 {
		wantHeld = vrfDirect
	}
	before := d.held
	err := ipfs.Pin(context.Background(), pin)

	reqs := d.mutating()
	if d.lsFails {
		vrf_assert(err != nil, "C16.pin.transport-error-reported")
		vrf_assert(len(reqs) == 0, "C16.pin.no-request-after-ls-failure")
		vrf_reach("C16.pin.end-lsfail")
		return
	}
	if before[0] == wantHeld {
		vrf_assert(err == nil, "C16.pin.noop-ok")
		vrf_assert(len(reqs) == 0, "C16.pin.noop-when-held")
		vrf_reach("C16.pin.end-noop")
		return
	}
	vrf_assert(len(reqs) == 1, "C16.pin.one-mutating-request")
	if err == nil {
		vrf_assert(d.held[0] == wantHeld, "C16.pin.nil-implies-held")
	}
	for _, r := range reqs {
		failed := r.answer != vrfAnsOK
		if r.cmd == "pin/update" {
			failed = r.answer != 0 || r.heldFrom != vrfRecursive
			vrf_assert(withUpdate && r.heldFrom == vrfRecursive, "C16.pin.update-only-if-recursive")
			vrf_assert(r.unpin == "false", "C16.pin.update-keeps-source")
			vrf_assert(len(r.args) == 2 && r.args[0] == vrfCidStrs[1] && r.args[1] == vrfCidStrs[0], "C16.pin.update-args")
		}
		if r.cmd == "pin/add" && depth == 0 && before[0] == vrfRecursive {
			failed = true // the daemon refuses to turn a recursive pin into a direct one
		}
		if failed {
			vrf_assert(err != nil, "C16.pin.errors-propagate")
		}
	}
	vrf_assert(d.held[1] == before[1], "C16.pin.source-untouched")
	vrf_reach("C16.pin.end")
}

// VrfC16Unpin
func VrfC16Unpin() {
	d := &vrfDaemon{}
	d.held[0] = vrf_choice("target_held", 3)
	vrfTheDaemon = d
	ipfs, stop := vrfNewConnector(d)
	defer stop()
	ipfs.config.UnpinDisable = vrf_choice("unpin_disabled", 2) == 1
	before := d.held
	err := ipfs.Unpin(context.Background(), vrfCid(0))
	reqs := d.mutating()
	if ipfs.config.UnpinDisable {
		vrf_assert(err != nil && len(reqs) == 0, "C16.unpin.disabled-refused")
		vrf_reach("C16.unpin.end-disabled")
		return
	}
	vrf_assert(len(reqs) == 1 && reqs[0].cmd == "pin/rm", "C16.unpin.one-request")
	if err == nil {
		vrf_assert(d.held[0] == vrfNone, "C16.unpin.nil-implies-absent")
	}
	if len(reqs) == 1 {
		if reqs[0].answer == 0 {
			// removed, or it was not pinned in the first place: both are success
			vrf_assert(err == nil, "C16.unpin.notpinned-ok")
		} else {
			vrf_assert(err != nil, "C16.unpin.errors-propagate")
			vrf_assert(d.held[0] == before[0], "C16.unpin.failure-no-change")
		}
	}
	vrf_reach("C16.unpin.end")
}

// VrfC16Stall: a pin whose progress reports arrive over time. The connector's
// watchdog looks once per PinTimeout whether the number of fetched nodes grew
// during the last PinTimeout. So: a stretch of more than 2*PinTimeout without
// growth must end in an error (and the daemon must not be left pinning), and a
// pin whose count grows at least once per PinTimeout must never be given up.
func VrfC16Stall() {
	T := int64(vrfPinTimeout)
	n := vrf_param("lines")
	st := &vrfStream{cid: 0}
	prog := 0
	var t, lastGrowth int64
	stalled := false // some stretch without growth lasted more than 2T
	steady := true   // every stretch without growth lasted at most T
	for k := 0; k <= n; k++ {
		gap := vrf_nondet_int64("gap")
		vrf_assume(vrf_and(gap >= 0, gap <= 3*T))
		st.gaps = append(st.gaps, gap)
		t += gap
		grows := k == n // the end of the stream ends the last stretch
		if k < n {
			if vrf_choice("progress_grows", 2) == 1 {
				prog++
				grows = true
			}
			st.lines = append(st.lines, `{"Progress":`+vrfItoa(prog)+`}`+"\n")
		}
		if grows {
			stalled = vrf_or(stalled, t-lastGrowth > 2*T)
			steady = vrf_and(steady, t-lastGrowth <= T)
			lastGrowth = t
		}
	}
	d := &vrfDaemon{stall: st}
	vrfTheDaemon = d
	ipfs, stop := vrfNewConnector(d)
	defer stop()
	pin := api.PinCid(vrfCid(0))
	pin.MaxDepth = -1
	pin.Mode = api.PinModeRecursive

	err := ipfs.Pin(context.Background(), pin)
	vrf_yield()

	vrf_note_bool("stalled_over_2T", stalled)
	vrf_note_bool("steady_within_T", steady)
	if err == nil {
		vrf_assert(d.held[0] == vrfRecursive, "C16.stall.nil-implies-held")
	} else {
		vrf_assert(d.held[0] == vrfNone, "C16.stall.given-up-not-held")
	}
	vrf_assert(vrf_implies(stalled, err != nil), "C16.stall.gives-up")
	vrf_assert(vrf_implies(steady, err == nil), "C16.stall.no-false-timeout")
	vrf_assert(vrf_blocked_goroutines() == 0, "C16.stall.watchdog-ends")
	vrf_reach("C16.stall.end")
}

func vrfItoa(i int) string {
	if i == 0 {
		return "0"
	}
	s := ""
	for ; i > 0; i /= 10 {
		s = string(rune('0'+i%10)) + s
	}
	return s
}
