package ipfshttp

import (
	"context"
	"time"
	"net/http"
	"net/http/httptest"
	"strings"
)

const vrfPinTimeout = 5 * time.Second

// natively the daemon model sits behind a real HTTP server
func vrfNewConnector(d *vrfDaemon) (*Connector, func()) {
	srv := httptest.NewServer(http.HandlerFunc(func(w http.ResponseWriter, r *http.Request) {
		path := strings.TrimPrefix(r.URL.RequestURI(), "/api/v0/")
		a := d.answer(path)
		if a.transport {
			hj, _ := w.(http.Hijacker)
			conn, _, _ := hj.Hijack()
			conn.Close()
			return
		}
		if a.broken {
			w.Header().Set("Content-Length", "100000")
		}
		w.WriteHeader(a.status)
		w.Write([]byte(a.body))
		if a.broken {
			if f, ok := w.(http.Flusher); ok {
				f.Flush()
			}
			panic(http.ErrAbortHandler)
		}
	}))
	ctx, cancel := context.WithCancel(context.Background())
	c := &Connector{ctx: ctx, cancel: cancel, config: vrfConfig(), nodeAddr: strings.TrimPrefix(srv.URL, "http://"), client: &http.Client{}}
	return c, func() { srv.Close() }
}
