package api

var vrfEntries = map[string]func(){"VrfDevMasks": VrfDevMasks, "VrfDevStr": VrfDevStr}

func VrfDevMasks() {
	st := TrackerStatus(vrf_nondet_int("st"))
	f := TrackerStatus(vrf_nondet_int("filter"))
	m := st.Match(f)
	vrf_assert(m == (f == 0 || st == 0 || (st&f) != 0), "dev.match-def")
	vrf_assert(!m || f == 0 || st == 0 || st&f > 0, "dev.match-2")
	// deliberately false: Match is not symmetric? it is symmetric; assert something false
	vrf_assert(st != 12345 || m, "dev.false")
	vrf_reach("dev.end")
}

func VrfDevStr() {
	k := vrf_choice("k", 4)
	all := []TrackerStatus{TrackerStatusPinned, TrackerStatusPinError, TrackerStatusError, TrackerStatusQueued}
	st := all[k]
	s := st.String()
	back := TrackerStatusFromString(s)
	vrf_assert(back == st, "dev.roundtrip")
	vrf_reach("dev.end")
}
