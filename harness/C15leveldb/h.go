package leveldb

import "strconv"

var vrfEntries = map[string]func(){"VrfC15Leveldb": VrfC15Leveldb, "VrfC15LeveldbEnv": VrfC15LeveldbEnv}

func vrfSymbolicConfig() *Config {
	cfg := &Config{}
	cfg.Default()
	cfg.Folder = vrf_nondet_string("folder")
	cfg.LevelDBOptions.NoSync = vrf_nondet_bool("no_sync")
	cfg.LevelDBOptions.ReadOnly = vrf_nondet_bool("read_only")
	cfg.LevelDBOptions.BlockSize = vrf_nondet_int("block_size")
	cfg.LevelDBOptions.WriteBuffer = vrf_nondet_int("write_buffer")
	return cfg
}

func VrfC15Leveldb() {
	d := &Config{}
	d.Default()
	vrf_assert(d.Validate() == nil, "C15.leveldb.default-valid")
	cfg := vrfSymbolicConfig()
	valid := cfg.Validate() == nil
	raw, err := cfg.ToJSON()
	vrf_assert(err == nil, "C15.leveldb.save-ok")
	back := &Config{}
	lerr := back.LoadJSON(raw)
	if valid {
		vrf_assert(lerr == nil, "C15.leveldb.valid-loads")
		vrf_assert(back.Folder == cfg.Folder, "C15.leveldb.roundtrip")
		vrf_assert(vrf_and(back.LevelDBOptions.NoSync == cfg.LevelDBOptions.NoSync, back.LevelDBOptions.ReadOnly == cfg.LevelDBOptions.ReadOnly), "C15.leveldb.roundtrip")
		vrf_assert(vrf_and(back.LevelDBOptions.BlockSize == cfg.LevelDBOptions.BlockSize, back.LevelDBOptions.WriteBuffer == cfg.LevelDBOptions.WriteBuffer), "C15.leveldb.roundtrip")
	} else {
		vrf_assert(vrf_or(cfg.Folder == "", lerr != nil), "C15.leveldb.invalid-rejected")
	}
	if lerr == nil {
		vrf_assert(back.Validate() == nil, "C15.leveldb.loaded-implies-valid")
	}
	vrf_reach("C15.leveldb.end")
}

func VrfC15LeveldbEnv() {
	cfg := vrfSymbolicConfig()
	vrf_assume(cfg.Validate() == nil)
	bFolder, bNS, bBS := cfg.Folder, cfg.LevelDBOptions.NoSync, cfg.LevelDBOptions.BlockSize
	setF, valF := vrf_nondet_bool("env_set_Folder"), vrf_nondet_string("env_Folder")
	setN, valN := vrf_nondet_bool("env_set_NoSync"), vrf_nondet_bool("env_NoSync")
	setB, valB := vrf_nondet_bool("env_set_BlockSize"), vrf_nondet_int("env_BlockSize")
	vrf_env(envConfigKey, "Folder", setF, valF)
	vrf_env(envConfigKey, "LevelDBOptions_NoSync", setN, vrf_ite_str(valN, "true", "false"))
	vrf_env(envConfigKey, "LevelDBOptions_BlockSize", setB, strconv.Itoa(valB))
	err := cfg.ApplyEnvVars()
	wF := vrf_ite_str(vrf_and(setF, valF != ""), valF, bFolder)
	wN := vrf_or(vrf_and(setN, valN), vrf_and(!setN, bNS))
	wB := vrf_ite_int(vrf_and(setB, valB != 0), valB, bBS)
	if err == nil {
		vrf_assert(vrf_and(cfg.Folder == wF, cfg.LevelDBOptions.BlockSize == wB), "C15.leveldb.env-in-effect")
		vrf_note_bool("switch_off_over_on", vrf_and(vrf_and(setN, !valN), bNS))
		vrf_assert(cfg.LevelDBOptions.NoSync == wN, "C15.leveldb.env-in-effect-switch")
		vrf_assert(cfg.Validate() == nil, "C15.leveldb.env-accepted-implies-valid")
	} else {
		vrf_assert(false, "C15.leveldb.env-valid-accepted")
	}
	vrf_reach("C15.leveldb.env-end")
}
