package single

import (
	"context"
	"errors"

	"github.com/ipfs/ipfs-cluster/api"

	cid "github.com/ipfs/go-cid"
	ipld "github.com/ipfs/go-ipld-format"
	peer "github.com/libp2p/go-libp2p-core/peer"
	rpc "github.com/libp2p/go-libp2p-gorpc"
)

var vrfEntries = map[string]func(){"VrfC13Single": VrfC13Single}

type vrfNode struct {
	ipld.Node
	c    cid.Cid
	data []byte
}

func (n *vrfNode) Cid() cid.Cid          { return n.c }
func (n *vrfNode) RawData() []byte       { return n.data }
func (n *vrfNode) Size() (uint64, error) { return uint64(len(n.data)), nil }
func (n *vrfNode) Links() []*ipld.Link   { return nil }
func (n *vrfNode) String() string        { return "vrfNode" }

var vrfCids = func() []cid.Cid {
	var out []cid.Cid
	for _, s := range []string{"QmUaFyXjZUNaUwYF8rBtbJc7fEJ46aJXvgV8z2HHs6jvmJ", "QmbrCtydGyPeHiLURSPMqrvE5mCgMCwFYq3UD4XLCeAYw6", "QmZHKZDavkvNfA9gSAg7HALv8jF7BJaKjUc9U2LSuvUySB"} {
		c, _ := cid.Decode(s)
		out = append(out, c)
	}
	return out
}()

// the cluster behind the adder
type vrfSvc struct {
	allocCalls  []*api.Pin
	allocFails  bool
	allocated   []peer.ID
	pinned      []*api.Pin
	pinFails    bool
	puts        map[peer.ID][]cid.Cid // blocks received per destination
	putFailsAll bool                  // every destination refuses the next block
}

type vrfClusterAPI struct{ s *vrfSvc }

func (a *vrfClusterAPI) BlockAllocate(ctx context.Context, in *api.Pin, out *[]peer.ID) error {
	a.s.allocCalls = append(a.s.allocCalls, in)
	if a.s.allocFails {
		return errors.New("cluster: not enough peers to allocate")
	}
	*out = append(*out, a.s.allocated...)
	return nil
}
func (a *vrfClusterAPI) Pin(ctx context.Context, in *api.Pin, out *api.Pin) error {
	a.s.pinned = append(a.s.pinned, in)
	if a.s.pinFails {
		return errors.New("cluster: pin failed")
	}
	*out = *in
	return nil
}

type vrfIPFSAPI struct{ s *vrfSvc }

func (a *vrfIPFSAPI) BlockPut(ctx context.Context, in *api.NodeWithMeta, out *struct{}) error {
	return vrfPut(a.s, "", in)
}

func vrfPut(s *vrfSvc, dest peer.ID, in *api.NodeWithMeta) error {
	if s.putFailsAll {
		return errors.New("ipfs: block put failed")
	}
	s.puts[dest] = append(s.puts[dest], in.Cid)
	return nil
}

var vrfTheSvc *vrfSvc

// engine hook of the gorpc model: block puts addressed to other peers
func vrfRPCRemote(dest peer.ID, svc, method string, args, reply interface{}) (bool, error) {
	if dest == "" {
		return false, nil
	}
	if in, ok := args.(*api.NodeWithMeta); ok {
		return true, vrfPut(vrfTheSvc, dest, in)
	}
	return true, errors.New("unexpected remote call")
}
func vrfIsRPCError(err error) bool { return false }

// VrfC13Single: the non-sharded add. The destinations are allocated once, with
// the requested options, before the first block; every block goes to every
// destination (to the local daemon only for a local add); a block nobody stored
// fails the add; Finalize pins exactly the root, recursively, with the requested
// options and the allocations the blocks were sent to, and reports a pin failure.
func VrfC13Single() {
	s := &vrfSvc{puts: map[peer.ID][]cid.Cid{}}
	vrfTheSvc = s
	s.allocFails = vrf_choice("allocation_fails", 2) == 1
	for _, p := range []peer.ID{"dA", "dB"} {
		if vrf_choice("allocated", 2) == 1 {
			s.allocated = append(s.allocated, p)
		}
	}
	if len(s.allocated) == 0 {
		vrf_assume(false) // the cluster never allocates nobody (everywhere = every current peer)
	}
	srv := rpc.NewServer(nil, "vrf")
	srv.RegisterName("Cluster", &vrfClusterAPI{s})
	srv.RegisterName("IPFSConnector", &vrfIPFSAPI{s})
	client := rpc.NewClientWithServer(nil, "vrf", srv)

	opts := api.PinOptions{Name: vrf_nondet_string("name"), ReplicationFactorMin: vrf_nondet_int("rmin"), ReplicationFactorMax: vrf_nondet_int("rmax")}
	opts.Mode = api.PinMode(vrf_choice("requested_mode", 2))
	local := vrf_choice("local", 2) == 1
	dgs := New(client, opts, local)
	ctx := context.Background()

	failAt := vrf_choice("block_put_fails_at", 3) // 0,1: that block is refused everywhere; 2: never
	n := 2
	sent := 0
	var addErr error
	for i := 0; i < n; i++ {
		s.putFailsAll = i == failAt
		addErr = dgs.Add(ctx, &vrfNode{c: vrfCids[i], data: []byte("block")})
		if addErr != nil {
			break
		}
		sent++
	}
	s.putFailsAll = false

	// allocation: once, before the first block, with the requested options
	vrf_assert(len(s.allocCalls) == 1, "C13.single.allocated-once")
	if len(s.allocCalls) == 1 {
		a := s.allocCalls[0]
		vrf_assert(vrf_and(a.Name == opts.Name, vrf_and(a.ReplicationFactorMin == opts.ReplicationFactorMin, a.ReplicationFactorMax == opts.ReplicationFactorMax)), "C13.single.allocation-uses-options")
	}
	dests := s.allocated
	if local {
		dests = []peer.ID{""}
	}
	expectFail := s.allocFails || len(dests) == 0 || failAt < n
	vrf_assert((addErr != nil) == expectFail, "C13.single.block-failure-fails-the-add")
	if !s.allocFails {
		for _, d := range dests {
			vrf_assert(len(s.puts[d]) == sent, "C13.single.every-block-to-every-destination")
			for i := 0; i < sent && i < len(s.puts[d]); i++ {
				vrf_assert(s.puts[d][i].Equals(vrfCids[i]), "C13.single.every-block-to-every-destination")
			}
		}
		if local {
			vrf_assert(len(s.puts["dA"]) == 0 && len(s.puts["dB"]) == 0, "C13.single.local-add-stays-local")
		}
	}
	vrf_assert(len(s.pinned) == 0, "C13.single.nothing-pinned-before-finalize")
	if addErr != nil {
		vrf_reach("C13.single.end-failed")
		return
	}
	// Finalize
	s.pinFails = vrf_choice("pin_fails", 2) == 1
	root, ferr := dgs.Finalize(ctx, vrfCids[2])
	vrf_assert((ferr != nil) == s.pinFails, "C13.single.pin-failure-reported")
	vrf_assert(root.Equals(vrfCids[2]), "C13.single.returns-the-root")
	vrf_assert(len(s.pinned) == 1, "C13.single.exactly-the-root-pinned")
	if len(s.pinned) == 1 {
		p := s.pinned[0]
		vrf_assert(p.Cid.Equals(vrfCids[2]), "C13.single.exactly-the-root-pinned")
		vrf_assert(vrf_and(p.Name == opts.Name, vrf_and(p.ReplicationFactorMin == opts.ReplicationFactorMin, p.ReplicationFactorMax == opts.ReplicationFactorMax)), "C13.single.pinned-with-requested-options")
		vrf_assert(p.Mode == api.PinModeRecursive && p.MaxDepth == -1, "C13.single.pinned-recursively")
		if opts.ReplicationFactorMin < 0 {
			// pinned everywhere: recorded without an allocation list
			vrf_assert(len(p.Allocations) == 0, "C13.single.everywhere-has-no-allocation-list")
		} else {
			vrf_assert(len(p.Allocations) == len(s.allocated), "C13.single.pinned-where-the-blocks-went")
			for i := range s.allocated {
				if i < len(p.Allocations) {
					vrf_assert(p.Allocations[i] == s.allocated[i], "C13.single.pinned-where-the-blocks-went")
				}
			}
		}
	}
	vrf_reach("C13.single.end")
}
