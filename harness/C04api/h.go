package api

import (
	"time"

	cid "github.com/ipfs/go-cid"
	peer "github.com/libp2p/go-libp2p-core/peer"
	multiaddr "github.com/multiformats/go-multiaddr"
)

var vrfEntries = map[string]func(){"VrfC04Equals": VrfC04Equals}

var vrfEqPeers = []string{"QmZHKZDavkvNfA9gSAg7HALv8jF7BJaKjUc9U2LSuvUySB", "QmP63DkAFEnDYNjDYBpyNDfttu1fvUw99x1brscPzpqmmq"}

var vrfEqOrigins = []string{
	"/ip4/1.2.3.4/tcp/4001/p2p/QmZHKZDavkvNfA9gSAg7HALv8jF7BJaKjUc9U2LSuvUySB",
	"/dns4/example.org/tcp/4001/p2p/QmP63DkAFEnDYNjDYBpyNDfttu1fvUw99x1brscPzpqmmq",
	"/ip4/5.6.7.8/udp/4001/quic/p2p/QmZHKZDavkvNfA9gSAg7HALv8jF7BJaKjUc9U2LSuvUySB",
}

func vrfEqScalars(tag string) *PinOptions {
	o := &PinOptions{}
	o.Name = vrf_nondet_string(tag + "_name")
	o.Mode = PinMode(vrf_nondet_int(tag + "_mode"))
	o.ReplicationFactorMin = vrf_nondet_int(tag + "_rmin")
	o.ReplicationFactorMax = vrf_nondet_int(tag + "_rmax")
	o.ShardSize = vrf_nondet_uint64(tag + "_shard_size")
	o.ExpireAt = time.Unix(vrf_nondet_int64(tag+"_expire_seconds"), 0)
	return o
}

// VrfC04Equals: two sets of pin options compare equal exactly when every
// option that is stored agrees - name, mode, factors, shard size, the set of
// user allocations, expiry instant, metadata, the set of origins -, whatever
// the order of the lists, whatever the update source; and the comparison is
// symmetric. (A re-pin is a no-op exactly when this comparison says "equal".)
func VrfC04Equals() {
	a, b := vrfEqScalars("a"), vrfEqScalars("b")
	same := vrf_and(vrf_and(a.Name == b.Name, a.Mode == b.Mode),
		vrf_and(vrf_and(a.ReplicationFactorMin == b.ReplicationFactorMin, a.ReplicationFactorMax == b.ReplicationFactorMax),
			vrf_and(a.ShardSize == b.ShardSize, a.ExpireAt.Equal(b.ExpireAt))))
	// user allocations: a has both peers; b has them in the other order, or only one
	p0, _ := peer.Decode(vrfEqPeers[0])
	p1, _ := peer.Decode(vrfEqPeers[1])
	a.UserAllocations = []peer.ID{p0, p1}
	switch vrf_choice("b_user_allocations", 3) {
	case 0:
		b.UserAllocations = []peer.ID{p1, p0}
	case 1:
		b.UserAllocations = []peer.ID{p0}
		same = false
	case 2:
		b.UserAllocations = []peer.ID{p1, p1}
		same = false
	}
	// origins: any sub-list of three addresses on either side, b's possibly in reverse order
	var inA, inB [3]bool
	for i := 0; i < 3; i++ {
		if vrf_choice("a_origin", 2) == 1 {
			m, _ := multiaddr.NewMultiaddr(vrfEqOrigins[i])
			a.Origins = append(a.Origins, m)
			inA[i] = true
		}
	}
	rev := vrf_choice("b_origins_reversed", 2) == 1
	for k := 0; k < 3; k++ {
		i := k
		if rev {
			i = 2 - k
		}
		if vrf_choice("b_origin", 2) == 1 {
			m, _ := multiaddr.NewMultiaddr(vrfEqOrigins[i])
			b.Origins = append(b.Origins, m)
			inB[i] = true
		}
	}
	if inA != inB {
		same = false
	}
	// metadata: a carries one entry; b carries it with any value, or nothing
	a.Metadata = map[string]string{"team": vrf_nondet_string("a_meta_team")}
	if vrf_choice("b_has_metadata", 2) == 1 {
		b.Metadata = map[string]string{"team": vrf_nondet_string("b_meta_team")}
		same = vrf_and(same, a.Metadata["team"] == b.Metadata["team"])
	} else {
		same = false
	}
	// (the update source is deliberately not compared)
	c, _ := cid.Decode("QmUaFyXjZUNaUwYF8rBtbJc7fEJ46aJXvgV8z2HHs6jvmJ")
	a.PinUpdate = c
	ab := a.Equals(b)
	ba := b.Equals(a)
	vrf_assert(ab == same, "C04.equals.iff-every-stored-option-agrees")
	vrf_assert(ab == ba, "C04.equals.symmetric")
	vrf_reach("C04.equals.end")
}
