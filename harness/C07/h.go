package ipfscluster

import (
	"context"

	peer "github.com/libp2p/go-libp2p-core/peer"
)

var vrfEntries = map[string]func(){
	"VrfC07Auth":   VrfC07Auth,
	"VrfC07Policy": VrfC07Policy,
}

const (
	vrfMaxClosed  = 0
	vrfMaxTrusted = 1
	vrfMaxOpen    = 2
)

// vrfMaxAccess is the most permissive class the property statement allows per
// endpoint: open only for identity, version and the join handshake; at most
// "trusted" for the endpoints that other peers legitimately call (broadcast
// status/recover/gc, leader redirects, block put, repo stat, swarm peers,
// peers, peer remove); everything else - in particular every name that is not
// listed here - is refused to every remote caller.
var vrfMaxAccess = map[string]int{
	"Cluster.ID":      vrfMaxOpen,
	"Cluster.Version": vrfMaxOpen,
	"Cluster.PeerAdd": vrfMaxOpen,

	"Cluster.PeerRemove":       vrfMaxTrusted,
	"Cluster.Peers":            vrfMaxTrusted,
	"Cluster.RecoverAllLocal":  vrfMaxTrusted,
	"Cluster.RecoverLocal":     vrfMaxTrusted,
	"Cluster.RepoGCLocal":      vrfMaxTrusted,
	"PinTracker.Recover":       vrfMaxTrusted,
	"PinTracker.Status":        vrfMaxTrusted,
	"PinTracker.StatusAll":     vrfMaxTrusted,
	"IPFSConnector.BlockPut":   vrfMaxTrusted,
	"IPFSConnector.RepoStat":   vrfMaxTrusted,
	"IPFSConnector.SwarmPeers": vrfMaxTrusted,
	"Consensus.AddPeer":        vrfMaxTrusted,
	"Consensus.LogPin":         vrfMaxTrusted,
	"Consensus.LogUnpin":       vrfMaxTrusted,
	"Consensus.RmPeer":         vrfMaxTrusted,
}

// VrfC07Auth: the authorisation function that newRPCServer installs, on an
// arbitrary (service, method) pair of strings and both caller classes.
func VrfC07Auth() {
	cons := &vrfConsensus{}
	cons.trustAll = vrf_nondet_bool("caller_is_trusted") // answer of Consensus.IsTrustedPeer for this caller
	cfg := &Config{RPCPolicy: DefaultRPCPolicy}
	c := &Cluster{ctx: context.Background(), config: cfg, consensus: cons, ipfs: &vrfIPFS{},
		monitor: &vrfMonitor{}}
	// tracing only adds a stats handler: the authorisation must be the same with it
	c.config.Tracing = vrf_choice("tracing", 2) == 1
	srv, err := newRPCServer(c)
	vrf_assert(err == nil && srv != nil, "C07.auth.server-built")
	svc := vrf_nondet_string("service")
	method := vrf_nondet_string("method")
	allowed := vrfAuthorize(srv, peer.ID("remote-caller"), svc, method)
	max, listed := vrfMaxAccess[svc+"."+method]
	vrf_note_str("endpoint", svc+"."+method)
	vrf_note_bool("caller_is_trusted", cons.trustAll)
	if !listed {
		vrf_assert(!allowed, "C07.auth.default-deny")
	} else {
		switch max {
		case vrfMaxTrusted:
			vrf_assert(vrf_implies(allowed, cons.trustAll), "C07.auth.untrusted-refused")
		case vrfMaxOpen:
			// may be open
		}
	}
	vrf_reach("C07.auth.end")
}

// VrfC07Policy: every method a peer registers has a policy entry (no endpoint
// escapes the policy), and the three handshake endpoints are reachable.
func VrfC07Policy() {
	cons := &vrfConsensus{}
	c := &Cluster{ctx: context.Background(), config: &Config{RPCPolicy: DefaultRPCPolicy}, consensus: cons,
		ipfs: &vrfIPFS{}, monitor: &vrfMonitor{}}
	srv, _ := newRPCServer(c)
	comps := []interface{}{&ClusterRPCAPI{}, &PinTrackerRPCAPI{}, &IPFSConnectorRPCAPI{}, &ConsensusRPCAPI{}, &PeerMonitorRPCAPI{}}
	n := 0
	for _, comp := range comps {
		svc := RPCServiceID(comp)
		for _, m := range vrfMethodNames(comp) {
			_, ok := c.config.RPCPolicy[svc+"."+m]
			vrf_assert(ok, "C07.policy.total")
			n++
		}
	}
	vrf_assert(n >= 50, "C07.policy.enumerated")
	for _, ep := range []string{"ID", "Version", "PeerAdd"} {
		vrf_assert(vrfAuthorize(srv, peer.ID("remote-caller"), "Cluster", ep), "C07.policy.handshake-open")
	}
	vrf_reach("C07.policy.end")
}
