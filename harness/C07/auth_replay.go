package ipfscluster

import (
	"context"
	"reflect"
	"unsafe"

	peer "github.com/libp2p/go-libp2p-core/peer"
	rpc "github.com/libp2p/go-libp2p-gorpc"
)

// natively the installed authorisation function is read from the real
// gorpc Server (unexported field "authorize")
func vrfAuthorize(s *rpc.Server, pid peer.ID, svc, method string) bool {
	f := reflect.ValueOf(s).Elem().FieldByName("authorize")
	if f.IsNil() {
		return true
	}
	fn := *(*func(peer.ID, string, string) bool)(unsafe.Pointer(f.UnsafeAddr()))
	return fn(pid, svc, method)
}

func vrfMethodNames(rcvr interface{}) []string {
	t := reflect.TypeOf(rcvr)
	var out []string
	ctxT := reflect.TypeOf((*context.Context)(nil)).Elem()
	for i := 0; i < t.NumMethod(); i++ {
		m := t.Method(i)
		if m.Type.NumIn() == 4 && m.Type.NumOut() == 1 && m.Type.In(1).Implements(ctxT) {
			out = append(out, m.Name)
		}
	}
	return out
}
