package ipfscluster

import (
	peer "github.com/libp2p/go-libp2p-core/peer"
	rpc "github.com/libp2p/go-libp2p-gorpc"
)

func vrf_rpc_authorize(s *rpc.Server, pid peer.ID, svc, method string) bool { panic("vrf intrinsic") }
func vrf_rpc_method_names(rcvr interface{}) []string                       { panic("vrf intrinsic") }

func vrfAuthorize(s *rpc.Server, pid peer.ID, svc, method string) bool {
	return vrf_rpc_authorize(s, pid, svc, method)
}
func vrfMethodNames(rcvr interface{}) []string { return vrf_rpc_method_names(rcvr) }
