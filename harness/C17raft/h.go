package raft

import (
	"context"
	"errors"
	"time"

	hraft "github.com/hashicorp/raft"
	peer "github.com/libp2p/go-libp2p-core/peer"
	rpc "github.com/libp2p/go-libp2p-gorpc"
)

var vrfEntries = map[string]func(){
	"VrfC17Wrapper":   VrfC17Wrapper,
	"VrfC17Consensus": VrfC17Consensus,
	"VrfC17Redirect":  VrfC17Redirect,
}

// ---- hashicorp/raft boundary (engine only: these stand for methods of *hraft.Raft)

type vrfFuture struct {
	err error
	cfg hraft.Configuration
}

func (f *vrfFuture) Error() error                       { return f.err }
func (f *vrfFuture) Index() uint64                      { return 0 }
func (f *vrfFuture) Configuration() hraft.Configuration { return f.cfg }

var vrfRaft struct {
	servers   []string
	confErr   bool
	changeErr bool
	added     []string
	removed   []string
}

func vrfGetConfiguration(r *hraft.Raft) hraft.ConfigurationFuture {
	f := &vrfFuture{}
	if vrfRaft.confErr {
		f.err = errors.New("raft: shut down")
		return f
	}
	for _, s := range vrfRaft.servers {
		f.cfg.Servers = append(f.cfg.Servers, hraft.Server{ID: hraft.ServerID(s), Address: hraft.ServerAddress(s)})
	}
	return f
}
func vrfAddVoter(r *hraft.Raft, id hraft.ServerID, addr hraft.ServerAddress, prev uint64, to time.Duration) hraft.IndexFuture {
	vrfRaft.added = append(vrfRaft.added, string(id))
	if vrfRaft.changeErr {
		return &vrfFuture{err: errors.New("raft: not leader")}
	}
	vrfRaft.servers = append(vrfRaft.servers, string(id))
	return &vrfFuture{}
}
func vrfRemoveServer(r *hraft.Raft, id hraft.ServerID, prev uint64, to time.Duration) hraft.IndexFuture {
	vrfRaft.removed = append(vrfRaft.removed, string(id))
	if vrfRaft.changeErr {
		return &vrfFuture{err: errors.New("raft: not leader")}
	}
	var rest []string
	for _, s := range vrfRaft.servers {
		if s != string(id) {
			rest = append(rest, s)
		}
	}
	vrfRaft.servers = rest
	return &vrfFuture{}
}

var vrfMembers = []string{"QmA", "QmB", "QmC"}

// VrfC17Wrapper: membership changes against the Raft configuration.
func VrfC17Wrapper() {
	vrfRaft.servers, vrfRaft.added, vrfRaft.removed = nil, nil, nil
	for _, m := range vrfMembers {
		if vrf_choice("member", 2) == 1 {
			vrfRaft.servers = append(vrfRaft.servers, m)
		}
	}
	before := append([]string{}, vrfRaft.servers...)
	vrfRaft.confErr = vrf_nondet_bool("configuration_unavailable")
	vrfRaft.changeErr = vrf_nondet_bool("raft_change_fails")
	rw := &raftWrapper{}
	target := vrfMembers[vrf_choice("target", len(vrfMembers))]
	remove := vrf_choice("remove", 2) == 1
	present := find(before, target)
	var err error
	if remove {
		err = rw.RemovePeer(context.Background(), target)
	} else {
		err = rw.AddPeer(context.Background(), target)
	}
	calls := len(vrfRaft.added) + len(vrfRaft.removed)
	switch {
	case vrfRaft.confErr:
		vrf_assert(err != nil && calls == 0, "C17.wrapper.config-error-no-change")
	case !remove && present:
		vrf_assert(err == nil && calls == 0, "C17.add.present-noop")
	case remove && !present:
		vrf_assert(err == nil && calls == 0, "C17.rm.absent-noop")
	case remove && len(before) == 1:
		vrf_assert(err != nil && calls == 0, "C17.rm.last-refused")
	default:
		vrf_assert(calls == 1, "C17.wrapper.one-raft-call")
		if remove {
			vrf_assert(len(vrfRaft.removed) == 1 && vrfRaft.removed[0] == target, "C17.wrapper.right-peer")
		} else {
			vrf_assert(len(vrfRaft.added) == 1 && vrfRaft.added[0] == target, "C17.wrapper.right-peer")
		}
		vrf_assert((err == nil) == !vrfRaft.changeErr, "C17.ack-implies-applied")
		if err == nil {
			vrf_assert(find(vrfRaft.servers, target) == !remove, "C17.wrapper.peerset-updated")
		}
	}
	vrf_reach("C17.wrapper.end")
}

// ---- Consensus.AddPeer / RmPeer retry loops

var vrfAttempt struct {
	redirects []int // 0 we are leader, 1 redirected ok, 2 redirect failed
	localOK   []bool
	rCalls    int
	lCalls    int
	accepted  int
}

func vrfRedirectModel(cc *Consensus, method string, arg interface{}) (bool, error) {
	k := 0
	if vrfAttempt.rCalls < len(vrfAttempt.redirects) {
		k = vrfAttempt.redirects[vrfAttempt.rCalls]
	}
	vrfAttempt.rCalls++
	switch k {
	case 1:
		vrfAttempt.accepted++
		return true, nil
	case 2:
		return true, errors.New("leader: rpc failed")
	}
	return false, nil
}
func vrfLocalChange(rw *raftWrapper, ctx context.Context, p string) error {
	ok := true
	if vrfAttempt.lCalls < len(vrfAttempt.localOK) {
		ok = vrfAttempt.localOK[vrfAttempt.lCalls]
	}
	vrfAttempt.lCalls++
	if !ok {
		return errors.New("raft: change failed")
	}
	vrfAttempt.accepted++
	return nil
}

func VrfC17Consensus() {
	retries := vrf_choice("commit_retries", vrf_param("max_retries")+1)
	vrfAttempt.redirects, vrfAttempt.localOK = nil, nil
	vrfAttempt.rCalls, vrfAttempt.lCalls, vrfAttempt.accepted = 0, 0, 0
	for i := 0; i <= retries; i++ {
		vrfAttempt.redirects = append(vrfAttempt.redirects, vrf_choice("redirect", 3))
		vrfAttempt.localOK = append(vrfAttempt.localOK, vrf_nondet_bool("local_change_ok"))
	}
	cc := &Consensus{ctx: context.Background(), config: &Config{CommitRetries: retries}, raft: &raftWrapper{}}
	pid, _ := peer.Decode("QmUaFyXjZUNaUwYF8rBtbJc7fEJ46aJXvgV8z2HHs6jvmJ")
	var err error
	if vrf_choice("remove", 2) == 1 {
		err = cc.RmPeer(cc.ctx, pid)
	} else {
		err = cc.AddPeer(cc.ctx, pid)
	}
	if err == nil {
		vrf_assert(vrfAttempt.accepted == 1, "C17.ack-implies-applied-once")
	} else {
		vrf_assert(vrfAttempt.accepted == 0, "C17.error-implies-not-applied")
	}
	vrf_assert(vrfAttempt.lCalls <= retries+1 && vrfAttempt.rCalls <= retries+1, "C17.bounded-attempts")
	// whatever the outcome, the component can still be shut down afterwards
	// (the change holds the shutdown lock only while it talks to Raft)
	vrf_assert(vrf_locks_held() == 0, "C17.shutdown-lock-released")
	vrf_reach("C17.consensus.end")
}

// ---- redirectToLeader

var vrfLeader struct {
	answers []int // per Leader() call: 0 = we are, 1 = another peer, 2 = unknown (error)
	calls   int
	waitOK  bool
	rpcOK   []bool
	rpcN    int
	sent    int
}

const vrfSelfID = peer.ID("self-peer")
const vrfOtherID = peer.ID("leader-peer")

func vrfLeaderModel(cc *Consensus, ctx context.Context) (peer.ID, error) {
	k := 0
	if vrfLeader.calls < len(vrfLeader.answers) {
		k = vrfLeader.answers[vrfLeader.calls]
	}
	vrfLeader.calls++
	switch k {
	case 1:
		return vrfOtherID, nil
	case 2:
		return "", errors.New("no leader")
	}
	return vrfSelfID, nil
}
func vrfWaitForLeader(rw *raftWrapper, ctx context.Context) (string, error) {
	if !vrfLeader.waitOK {
		return "", errors.New("context deadline exceeded")
	}
	return "QmUaFyXjZUNaUwYF8rBtbJc7fEJ46aJXvgV8z2HHs6jvmJ", nil
}

// engine hook of the gorpc model: the call to the leader
func vrfRPCRemote(dest peer.ID, svc, method string, args, reply interface{}) (bool, error) {
	ok := true
	if vrfLeader.rpcN < len(vrfLeader.rpcOK) {
		ok = vrfLeader.rpcOK[vrfLeader.rpcN]
	}
	vrfLeader.rpcN++
	if !ok {
		return true, errors.New("rpc: leader unreachable")
	}
	vrfLeader.sent++
	return true, nil
}


func VrfC17Redirect() {
	retries := vrf_choice("commit_retries", vrf_param("max_retries")+1)
	vrfLeader.answers, vrfLeader.rpcOK = nil, nil
	vrfLeader.calls, vrfLeader.rpcN, vrfLeader.sent = 0, 0, 0
	for i := 0; i <= retries; i++ {
		vrfLeader.answers = append(vrfLeader.answers, vrf_choice("leader_answer", 3))
		vrfLeader.rpcOK = append(vrfLeader.rpcOK, vrf_nondet_bool("leader_rpc_ok"))
	}
	vrfLeader.waitOK = vrf_nondet_bool("leader_appears")
	cfg := &Config{CommitRetries: retries}
	cfg.RaftConfig = hraft.DefaultConfig()
	cc := &Consensus{ctx: context.Background(), config: cfg, raft: &raftWrapper{}, host: vrfNewHost(vrfSelfID)}
	cc.rpcClient = rpc.NewClientWithServer(nil, "vrf", rpc.NewServer(nil, "vrf"))
	redirected, err := cc.redirectToLeader("LogPin", "x")
	if err == nil && redirected {
		vrf_assert(vrfLeader.sent == 1, "C17.redirect.ok-implies-delivered-once")
	}
	if err == nil && !redirected {
		vrf_assert(vrfLeader.sent == 0, "C17.redirect.local-means-we-lead")
	}
	if err != nil {
		vrf_assert(vrfLeader.sent == 0, "C17.redirect.error-implies-not-delivered")
	}
	vrf_assert(vrfLeader.rpcN <= retries+1, "C17.redirect.bounded")
	vrf_reach("C17.redirect.end")
}
