package raft

import (
	host "github.com/libp2p/go-libp2p-core/host"
	peer "github.com/libp2p/go-libp2p-core/peer"
)

type hostIface = host.Host

type vrfHost struct {
	host.Host
	id peer.ID
}

func (h *vrfHost) ID() peer.ID { return h.id }

func vrfNewHost(id peer.ID) host.Host { return &vrfHost{id: id} }
