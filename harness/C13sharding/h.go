package sharding

import (
	"strconv"
	"context"
	"errors"
	"fmt"

	"github.com/ipfs/ipfs-cluster/api"

	cid "github.com/ipfs/go-cid"
	ipld "github.com/ipfs/go-ipld-format"
	peer "github.com/libp2p/go-libp2p-core/peer"
	rpc "github.com/libp2p/go-libp2p-gorpc"
)

var vrfEntries = map[string]func(){
	"VrfC13Ingest": VrfC13Ingest,
	"VrfC13MakeDAG": VrfC13MakeDAG,
	"VrfC13Flush":  VrfC13Flush,
}

type vrfNode struct {
	ipld.Node
	c    cid.Cid
	data []byte
}

func (n *vrfNode) Cid() cid.Cid          { return n.c }
func (n *vrfNode) RawData() []byte       { return n.data }
func (n *vrfNode) Size() (uint64, error) { return uint64(len(n.data)), nil }
func (n *vrfNode) Links() []*ipld.Link   { return nil }
func (n *vrfNode) String() string        { return "vrfNode" }

func vrfBlockCid(i int) cid.Cid {
	b := append([]byte{0x01, 0x55, 0x12, 0x20}, make([]byte, 32)...)
	b[34], b[35] = byte(i>>8), byte(i)
	c, err := cid.Cast(b)
	if err != nil {
		panic(err)
	}
	return c
}

// ---- cluster behind RPC

type vrfCluster struct {
	pins       []*api.Pin
	allocCalls int
	pinFails   int // the n-th Pin call fails (0 = never)
	pinCalls   int
}

func (c *vrfCluster) BlockAllocate(ctx context.Context, in *api.Pin, out *[]peer.ID) error {
	c.allocCalls++
	*out = []peer.ID{peer.ID(fmt.Sprintf("alloc-%d", c.allocCalls))}
	return nil
}
func (c *vrfCluster) Pin(ctx context.Context, in *api.Pin, out *api.Pin) error {
	c.pinCalls++
	if c.pinCalls == c.pinFails {
		return errors.New("cluster: pin failed")
	}
	cp := *in
	c.pins = append(c.pins, &cp)
	return nil
}

type vrfIPFS struct {
	blocks   []cid.Cid
	putFails int
	puts     int
}

func (i *vrfIPFS) BlockPut(ctx context.Context, in *api.NodeWithMeta, out *struct{}) error {
	i.puts++
	if i.puts == i.putFails {
		return errors.New("ipfs: block put failed")
	}
	i.blocks = append(i.blocks, in.Cid)
	return nil
}

func vrfIsRPCError(err error) bool { return false }

func vrfClient(c *vrfCluster, i *vrfIPFS) *rpc.Client {
	srv := rpc.NewServer(nil, "vrf")
	if err := srv.RegisterName("Cluster", c); err != nil {
		panic(err)
	}
	if err := srv.RegisterName("IPFSConnector", i); err != nil {
		panic(err)
	}
	return rpc.NewClientWithServer(nil, "vrf", srv)
}

// VrfC13Ingest: blocks of small concrete sizes against an arbitrary 64-bit shard
// size limit, then Finalize.
func VrfC13Ingest() {
	k := vrf_param("blocks")
	limit := vrf_nondet_uint64("shard_size_limit")
	cl := &vrfCluster{pinFails: vrf_choice("failing_pin_call", 4)}
	ipfs := &vrfIPFS{}
	// replication: explicit factors, unset (0/0 = cluster defaults) or everywhere (-1)
	rf := [][2]int{{1, 2}, {0, 0}, {-1, -1}}[vrf_choice("replication", 3)]
	opts := api.PinOptions{ShardSize: limit, ReplicationFactorMin: rf[0], ReplicationFactorMax: rf[1], Name: "n"}
	dgs := New(vrfClient(cl, ipfs), opts, nil)
	ctx := context.Background()
	sizes := make([]int, k)
	ids := make([]int, k)
	accepted := 0
	failed := false
	for b := 0; b < k && !failed; b++ {
		sizes[b] = vrf_choice("block_size", 4)
		// a block may be one that was handed in before (the same content twice
		// in the tree), also after the shard that took it was flushed
		ids[b] = vrf_choice("block_id", b+1)
		err := dgs.Add(ctx, &vrfNode{c: vrfBlockCid(ids[b]), data: make([]byte, sizes[b])})
		if err != nil {
			failed = true
			break
		}
		accepted++
		// the open shard always stays under the limit
		if dgs.currentShard != nil {
			vrf_assert(dgs.currentShard.Size() < limit, "C13.ingest.under-limit")
		}
	}
	if failed {
		vrf_reach("C13.ingest.end-refused")
	}
	// every flushed shard is a shard pin under the limit, chained to its predecessor
	shardPins := 0
	links := 0
	for _, p := range cl.pins {
		if p.Type == api.ShardType {
			shardPins++
			vrf_assert(p.ShardSize < limit, "C13.flush.under-limit")
			vrf_assert(p.MaxDepth >= 1, "C13.flush.depth")
			// the shard is pinned where its blocks were sent (no list when pinned everywhere)
			if rf[0] < 0 {
				vrf_assert(len(p.Allocations) == 0, "C13.flush.allocations")
			} else {
				vrf_assert(len(p.Allocations) == 1, "C13.flush.allocations")
			}
			vrf_assert(p.Reference != nil, "C13.flush.reference")
		}
	}
	_ = links
	if !failed {
		root := vrfBlockCid(ids[accepted-1])
		res, err := dgs.Finalize(ctx, root)
		if err != nil {
			// a failed step pins neither the cluster-DAG after it nor the meta entry
			meta := 0
			for _, p := range cl.pins {
				if p.Type == api.MetaType {
					meta++
				}
			}
			vrf_assert(meta == 0, "C13.finalize.failure-no-meta-pin")
			vrf_reach("C13.finalize.end-failed")
			return
		}
		vrf_assert(res.Equals(root), "C13.finalize.returns-root")
		n := len(cl.pins)
		vrf_assert(n >= 3, "C13.finalize.three-kinds")
		if n >= 2 {
			cdag, meta := cl.pins[n-2], cl.pins[n-1]
			vrf_assert(cdag.Type == api.ClusterDAGType && cdag.MaxDepth == 0, "C13.finalize.clusterdag-direct")
			vrf_assert(cdag.ReplicationFactorMin == -1 && cdag.ReplicationFactorMax == -1, "C13.finalize.clusterdag-everywhere")
			vrf_assert(cdag.Reference != nil && cdag.Reference.Equals(root), "C13.finalize.clusterdag-references-root")
			vrf_assert(meta.Type == api.MetaType && meta.Cid.Equals(root), "C13.finalize.meta-is-root")
			vrf_assert(meta.Reference != nil && meta.Reference.Equals(cdag.Cid), "C13.finalize.meta-references-clusterdag")
		}
		// every accepted block was delivered exactly once (plus shard and cluster-DAG nodes)
		// (a block handed in twice is still delivered, and linked, once)
		for b := 0; b < accepted; b++ {
			cnt := 0
			for _, c := range ipfs.blocks {
				if c.Equals(vrfBlockCid(ids[b])) {
					cnt++
				}
			}
			vrf_assert(cnt == 1, "C13.ingest.block-delivered-once")
		}
		vrf_reach("C13.finalize.end-ok")
	}
	vrf_reach("C13.ingest.end")
}

// VrfC13Flush: a shard whose links need an indirect DAG must be pinned deep
// enough to cover them.
func VrfC13Flush() {
	nlinks := []int{1, MaxLinks, MaxLinks + 1}[vrf_choice("links", 3)]
	vrf_note_int("links", nlinks)
	cl := &vrfCluster{}
	ipfs := &vrfIPFS{}
	opts := api.PinOptions{ShardSize: vrf_nondet_uint64("shard_size_limit"), ReplicationFactorMin: 1, ReplicationFactorMax: 1, Name: "n"}
	ctx := context.Background()
	sh, err := newShard(ctx, vrfClient(cl, ipfs), opts)
	vrf_assert(err == nil, "C13.flush.new-shard")
	bsize := vrf_nondet_uint64("block_size")
	vrf_assume(bsize < 1<<40)
	for i := 0; i < nlinks; i++ {
		sh.AddLink(ctx, vrfBlockCid(i%3), bsize)
	}
	prev := vrfBlockCid(9)
	_, err = sh.Flush(ctx, 0, prev)
	vrf_assert(err == nil, "C13.flush.ok")
	vrf_assert(len(cl.pins) == 1, "C13.flush.one-pin")
	if len(cl.pins) == 1 {
		p := cl.pins[0]
		vrf_assert(p.Type == api.ShardType, "C13.flush.type")
		vrf_assert(p.ShardSize == bsize*uint64(nlinks), "C13.flush.size-recorded")
		// direct shard DAG: root -> blocks (depth 1); indirect: root -> leaves -> blocks (depth 2)
		wantDepth := api.PinDepth(1)
		if nlinks > MaxLinks {
			wantDepth = 2
		}
		vrf_assert(p.MaxDepth >= wantDepth, "C13.flush.depth-covers-links")
	}
	vrf_reach("C13.flush.end")
}

// VrfC13MakeDAG: the shard DAG (direct below MaxLinks links, indirect above)
// references every link it was given exactly once - at the boundaries of the
// leaf size and for a partial last leaf.
func VrfC13MakeDAG() {
	n := []int{1, MaxLinks, MaxLinks + 1, 2 * MaxLinks, 2*MaxLinks + 1}[vrf_choice("links", 5)]
	vrf_note_int("links", n)
	obj := make(map[string]cid.Cid, n)
	for i := 0; i < n; i++ {
		obj[strconv.Itoa(i)] = vrfBlockCid(i % 3)
	}
	nodes, err := makeDAG(context.Background(), obj)
	vrf_assert(err == nil && len(nodes) >= 1, "C13.makedag.ok")
	if err != nil || len(nodes) == 0 {
		return
	}
	if n <= MaxLinks {
		vrf_assert(len(nodes) == 1 && len(nodes[0].Links()) == n, "C13.makedag.direct-covers-every-link")
	} else {
		leaves := nodes[1:]
		covered := 0
		for _, l := range leaves {
			vrf_assert(len(l.Links()) <= MaxLinks, "C13.makedag.leaf-within-limit")
			covered += len(l.Links())
		}
		vrf_assert(covered == n, "C13.makedag.leaves-cover-every-link")
		// the root references every non-empty leaf
		nonEmpty := 0
		for _, l := range leaves {
			if len(l.Links()) > 0 {
				nonEmpty++
			}
		}
		vrf_assert(len(nodes[0].Links()) >= nonEmpty && len(nodes[0].Links()) == len(leaves), "C13.makedag.root-references-leaves")
	}
	vrf_reach("C13.makedag.end")
}
