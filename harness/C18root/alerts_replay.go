package ipfscluster

import (
	"fmt"
	"sync"
	"time"

	"github.com/ipfs/ipfs-cluster/api"
)

// natively: a writer doing what alertsHandler does, a reader calling Alerts()
func VrfC18Alerts() {
	cons := &vrfConsensus{}
	c := &Cluster{config: &Config{}, consensus: cons}
	var wg sync.WaitGroup
	stop := make(chan struct{})
	wg.Add(1)
	go func() {
		defer wg.Done()
		i := 0
		for {
			select {
			case <-stop:
				return
			default:
			}
			a := api.Alert{Metric: api.Metric{Name: "ping", Peer: vrfPeerNames[i%len(vrfPeerNames)]}, TriggeredAt: time.Now()}
			c.alertsMux.Lock()
			if len(c.alerts) > 20 {
				c.alerts = c.alerts[:0]
			}
			c.alerts = append(c.alerts, a)
			c.alertsMux.Unlock()
			i++
		}
	}()
	for k := 0; k < 50000; k++ {
		func() {
			defer func() {
				if r := recover(); r != nil {
					fmt.Printf("VRF-PANIC %v\n", r)
					vrfState.failed["VrfC18Alerts.no-panic"]++
				}
			}()
			for _, a := range c.Alerts() {
				vrf_assert(a.Peer != "", "C18.alerts.no-empty-entry")
			}
		}()
		if len(vrfState.failed) > 0 {
			break
		}
	}
	close(stop)
	if len(vrfState.failed) == 0 {
		wg.Wait() // (after a panic inside Alerts() the mutex stays locked: do not wait for the writer)
	}
}
