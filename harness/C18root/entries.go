package ipfscluster

var vrfEntries = map[string]func(){"VrfC18Alerts": VrfC18Alerts}
