package ipfscluster

import (
	"time"

	"github.com/ipfs/ipfs-cluster/api"
)

func vrfAlert(i int) api.Alert {
	return api.Alert{Metric: api.Metric{Name: "ping", Peer: vrfPeerNames[i%len(vrfPeerNames)], Valid: true}, TriggeredAt: time.Unix(0, 1)}
}

// VrfC18Alerts: Cluster.Alerts() under interference from the alerts handler.
// Guarantee: c.alerts is only touched while alertsMux is held. Rely: whenever
// the mutex is (re)acquired another goroutine may have appended an alert or
// reset the list (what alertsHandler does). The result must be well formed.
func VrfC18Alerts() {
	cons := &vrfConsensus{}
	c := vrfNewCluster(1, cons, vrfSymbolicMonitor(1, "freespace"))
	n := vrf_choice("alerts_before", 3)
	for i := 0; i < n; i++ {
		c.alerts = append(c.alerts, vrfAlert(i))
	}
	vrf_protect(&c.alerts, &c.alertsMux, "C18.alerts")
	vrf_interference(&c.alertsMux, func() {
		switch vrf_choice("other_goroutine", 3) {
		case 1: // alertsHandler stores a new alert
			c.alerts = append(c.alerts, vrfAlert(len(c.alerts)))
		case 2: // alertsHandler found the list full: reset, then store
			c.alerts = c.alerts[:0]
			c.alerts = append(c.alerts, vrfAlert(7))
		}
	})
	res := c.Alerts()
	for _, a := range res {
		vrf_assert(a.Peer != "", "C18.alerts.no-empty-entry")
	}
	for i := range res {
		for j := i + 1; j < len(res); j++ {
			vrf_assert(!(res[i].Peer == res[j].Peer && res[i].TriggeredAt.Equal(res[j].TriggeredAt) && len(res) > len(vrfPeerNames)), "C18.alerts.no-duplicate")
		}
	}
	vrf_assert(vrf_locks_held() == 0, "C18.alerts.lock-released")
	vrf_reach("C18.alerts.end")
}
