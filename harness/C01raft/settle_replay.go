package raft

import "time"

// GoContext dispatches asynchronously in the real gorpc client
func vrfSettle() { time.Sleep(100 * time.Millisecond) }
