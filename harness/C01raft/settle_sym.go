package raft

func vrfSettle() {}
