package raft

import (
	"context"
	"errors"
	"io"
	"time"

	"github.com/ipfs/ipfs-cluster/api"
	"github.com/ipfs/ipfs-cluster/state"

	cid "github.com/ipfs/go-cid"
	consensus "github.com/libp2p/go-libp2p-consensus"
	peer "github.com/libp2p/go-libp2p-core/peer"
	rpc "github.com/libp2p/go-libp2p-gorpc"
)

var vrfEntries = map[string]func(){
	"VrfC01Apply":  VrfC01Apply,
	"VrfC01Commit": VrfC01Commit,
}

func vrfCid(i int) cid.Cid {
	c, _ := cid.Decode([]string{
		"QmUaFyXjZUNaUwYF8rBtbJc7fEJ46aJXvgV8z2HHs6jvmJ",
		"QmbrCtydGyPeHiLURSPMqrvE5mCgMCwFYq3UD4XLCeAYw6",
		"QmZHKZDavkvNfA9gSAg7HALv8jF7BJaKjUc9U2LSuvUySB"}[i])
	return c
}

var vrfPeers = []peer.ID{"pA", "pB"}

// ---- replica state model (what dsstate offers to the FSM)

type vrfStateModel struct {
	pins     []*api.Pin
	failNext bool
	writes   int
}

func (s *vrfStateModel) find(c cid.Cid) int {
	for i, p := range s.pins {
		if p.Cid.Equals(c) {
			return i
		}
	}
	return -1
}
func (s *vrfStateModel) List(context.Context) ([]*api.Pin, error) { return s.pins, nil }
func (s *vrfStateModel) Has(ctx context.Context, c cid.Cid) (bool, error) {
	return s.find(c) >= 0, nil
}
func (s *vrfStateModel) Get(ctx context.Context, c cid.Cid) (*api.Pin, error) {
	if i := s.find(c); i >= 0 {
		return s.pins[i], nil
	}
	return nil, state.ErrNotFound
}
func (s *vrfStateModel) Add(ctx context.Context, p *api.Pin) error {
	if s.failNext {
		return errors.New("datastore: write failed")
	}
	s.writes++
	cp := *p
	if i := s.find(p.Cid); i >= 0 {
		s.pins[i] = &cp
	} else {
		s.pins = append(s.pins, &cp)
	}
	return nil
}
func (s *vrfStateModel) Rm(ctx context.Context, c cid.Cid) error {
	if s.failNext {
		return errors.New("datastore: write failed")
	}
	s.writes++
	if i := s.find(c); i >= 0 {
		s.pins = append(s.pins[:i:i], s.pins[i+1:]...)
	}
	return nil
}
func (s *vrfStateModel) Migrate(context.Context, io.Reader) error { return nil }
func (s *vrfStateModel) Marshal(io.Writer) error                  { return nil }
func (s *vrfStateModel) Unmarshal(io.Reader) error                { return nil }

// ---- the local pin tracker behind RPC

type vrfTrackerSvc struct {
	tracked   []*api.Pin
	untracked []*api.Pin
}

func (t *vrfTrackerSvc) Track(ctx context.Context, in *api.Pin, out *struct{}) error {
	t.tracked = append(t.tracked, in)
	return nil
}
func (t *vrfTrackerSvc) Untrack(ctx context.Context, in *api.Pin, out *struct{}) error {
	t.untracked = append(t.untracked, in)
	return nil
}

func vrfSymbolicPin(i int, tag string) *api.Pin {
	p := api.PinCid(vrfCid(i))
	t := vrf_nondet_uint64(tag + "_type")
	vrf_assume(vrf_or(vrf_or(t == uint64(api.DataType), t == uint64(api.MetaType)), vrf_or(t == uint64(api.ShardType), t == uint64(api.ClusterDAGType))))
	p.Type = api.PinType(t)
	depth := vrf_nondet_int(tag + "_depth")
	p.MaxDepth = api.PinDepth(depth)
	p.Mode = api.PinMode(vrf_ite_int(depth == 0, int(api.PinModeDirect), int(api.PinModeRecursive)))
	p.Name = vrf_nondet_string(tag + "_name")
	p.ReplicationFactorMin = vrf_nondet_int(tag + "_rmin")
	p.ReplicationFactorMax = vrf_nondet_int(tag + "_rmax")
	// an expiry date, before or after the instant the entry is applied: applying a
	// committed entry must not depend on the clock of the replica that applies it
	if vrf_choice(tag+"_has_expiry", 2) == 1 {
		delta := vrf_nondet_int64(tag + "_expire_minus_now")
		vrf_assume(vrf_or(delta <= -1000000000, delta >= 1000000000))
		vrf_assume(vrf_and(delta > -1000000000*1000000, delta < 1000000000*1000000))
		p.ExpireAt = time.Unix(0, vrf_now()+delta)
	}
	if tag == "new" || vrf_param("old_allocs") == 1 {
		for j := range vrfPeers {
			if vrf_choice(tag+"_alloc", 2) == 1 {
				p.Allocations = append(p.Allocations, vrfPeers[j])
			}
		}
	} else {
		p.Allocations = append(p.Allocations, vrfPeers[0])
	}
	return p
}

func vrfSamePin(a, b *api.Pin) bool {
	if a == nil || b == nil {
		return false
	}
	if len(a.Allocations) != len(b.Allocations) {
		return false
	}
	for i := range a.Allocations {
		if a.Allocations[i] != b.Allocations[i] {
			return false
		}
	}
	if !a.ExpireAt.Equal(b.ExpireAt) {
		return false
	}
	return vrf_and(vrf_and(a.Cid.Equals(b.Cid), a.Type == b.Type),
		vrf_and(vrf_and(a.MaxDepth == b.MaxDepth, a.Mode == b.Mode),
			vrf_and(a.Name == b.Name, vrf_and(a.ReplicationFactorMin == b.ReplicationFactorMin, a.ReplicationFactorMax == b.ReplicationFactorMax))))
}

// VrfC01Apply: one applied log entry from an arbitrary replica state (inductive
// step of "the pinset is the fold of the committed sequence").
func VrfC01Apply() {
	st := &vrfStateModel{}
	// arbitrary pre-state over three CIDs
	var before [3]*api.Pin
	for i := 0; i < 3; i++ {
		if vrf_choice("present", 2) == 1 {
			before[i] = vrfSymbolicPin(i, "old")
			cp := *before[i]
			st.pins = append(st.pins, &cp)
		}
	}
	target := vrf_choice("target_cid", 3)
	pin := vrfSymbolicPin(target, "new")
	pinCopy := *pin
	trk := &vrfTrackerSvc{}
	srv := rpc.NewServer(nil, "vrf")
	if err := srv.RegisterName("PinTracker", trk); err != nil {
		panic(err)
	}
	cc := &Consensus{ctx: context.Background(), config: &Config{}}
	cc.rpcClient = rpc.NewClientWithServer(nil, "vrf", srv)
	typ := vrf_nondet_int("op_type")
	// the operation types as plain integers (whatever the declared type of the constants)
	opPin, opUnpin := int(LogOpType(LogOpPin)), int(LogOpType(LogOpUnpin))
	// the log encoding omits zero-valued fields (codec "omitempty") and the state
	// machine decodes every entry onto one shared operation object: an operation
	// type that is the zero value would keep the type of the previous entry
	vrf_assert(opPin != 0 && opUnpin != 0 && opPin != opUnpin, "C01.apply.op-types-survive-encoding")
	op := &LogOp{Cid: pin, Type: LogOpType(typ), consensus: cc}
	st.failNext = vrf_nondet_bool("state_write_fails")
	vrf_note_int("op_type", typ)

	res, err := op.ApplyTo(st)
	vrfSettle()

	vrf_assert(op.Cid == nil, "C01.apply.op-cleared")
	known := typ == opPin || typ == opUnpin
	if known && st.failNext {
		vrf_assert(err != nil && res == nil, "C01.apply.error-reported")
		vrf_assert(len(trk.tracked) == 0 && len(trk.untracked) == 0, "C01.apply.error-no-track")
		vrf_assert(st.writes == 0, "C01.apply.error-no-change")
		vrf_reach("C01.apply.end-error")
		return
	}
	vrf_assert(err == nil && res != nil, "C01.apply.ok")
	for i := 0; i < 3; i++ {
		j := st.find(vrfCid(i))
		switch {
		case i == target && typ == opPin:
			vrf_assert(j >= 0 && vrfSamePin(st.pins[j], &pinCopy), "C01.apply.post-state")
		case i == target && typ == opUnpin:
			vrf_assert(j < 0, "C01.apply.post-state")
		default: // other CIDs, or an unknown operation type: unchanged
			if before[i] == nil {
				vrf_assert(j < 0, "C01.apply.others-unchanged")
			} else {
				vrf_assert(j >= 0 && vrfSamePin(st.pins[j], before[i]), "C01.apply.others-unchanged")
			}
		}
	}
	count := 0
	for _, p := range st.pins {
		_ = p
		count++
	}
	vrf_assert(count <= 3, "C01.apply.one-entry-per-cid")
	switch {
	case typ == opPin:
		vrf_assert(len(trk.tracked) == 1 && len(trk.untracked) == 0, "C01.apply.tracker-called-once")
		if len(trk.tracked) == 1 {
			vrf_assert(vrfSamePin(trk.tracked[0], &pinCopy), "C01.apply.tracker-args")
		}
	case typ == opUnpin:
		vrf_assert(len(trk.untracked) == 1 && len(trk.tracked) == 0, "C01.apply.tracker-called-once")
		if len(trk.untracked) == 1 {
			vrf_assert(trk.untracked[0].Cid.Equals(pinCopy.Cid), "C01.apply.tracker-args")
		}
	default:
		vrf_assert(len(trk.tracked) == 0 && len(trk.untracked) == 0, "C01.apply.unknown-op-ignored")
	}
	vrf_reach("C01.apply.end-ok")
}

// ---- commit acknowledgement

type vrfOpLog struct {
	attempts int
	accepted int
	outcomes []bool
	ops      []*LogOp // what was offered for commit
}

func (l *vrfOpLog) CommitOp(op consensus.Op) (consensus.State, error) {
	ok := true
	if l.attempts < len(l.outcomes) {
		ok = l.outcomes[l.attempts]
	}
	l.attempts++
	if lo, isOp := op.(*LogOp); isOp {
		l.ops = append(l.ops, lo)
	}
	if !ok {
		return nil, errors.New("raft: commit failed")
	}
	l.accepted++
	return nil, nil
}
func (l *vrfOpLog) SetActor(consensus.Actor)                     {}
func (l *vrfOpLog) GetLogHead() (consensus.State, error)         { return nil, nil }
func (l *vrfOpLog) Rollback(consensus.State) error               { return nil }

var vrfRedirects []int // per attempt: 0 = we are the leader, 1 = redirected ok, 2 = redirect failed
var vrfRedirectCalls int
var vrfRedirectAccepted int
var vrfRedirectArgs []interface{}

// (engine only) stands for redirectToLeader, whose own retry loop is checked by C17
func vrfRedirectModel(cc *Consensus, method string, arg interface{}) (bool, error) {
	k := 0
	if vrfRedirectCalls < len(vrfRedirects) {
		k = vrfRedirects[vrfRedirectCalls]
	}
	vrfRedirectCalls++
	vrfRedirectArgs = append(vrfRedirectArgs, arg)
	switch k {
	case 1:
		vrfRedirectAccepted++
		return true, nil
	case 2:
		return true, errors.New("leader: rpc failed")
	}
	return false, nil
}

// VrfC01Commit: an operation acknowledged as committed was accepted exactly
// once, by the leader or by the local Raft log.
func VrfC01Commit() {
	retries := vrf_choice("commit_retries", vrf_param("max_retries")+1)
	oplog := &vrfOpLog{}
	vrfRedirects, vrfRedirectCalls, vrfRedirectAccepted, vrfRedirectArgs = nil, 0, 0, nil
	for i := 0; i <= retries; i++ {
		vrfRedirects = append(vrfRedirects, vrf_choice("redirect", 3))
		oplog.outcomes = append(oplog.outcomes, vrf_nondet_bool("commit_ok"))
	}
	cc := &Consensus{ctx: context.Background(), config: &Config{CommitRetries: retries}, consensus: oplog}
	// any kind of pin: the depth of a shard or cluster-DAG entry is not the one its mode implies
	pin := vrfSymbolicPin(0, "new")
	if vrf_choice("depth_not_implied_by_mode", 2) == 1 {
		pin.Mode = api.PinModeRecursive
	}
	submitted := *pin
	submitted.Allocations = append([]peer.ID{}, pin.Allocations...)
	unpin := vrf_choice("unpin", 2) == 1
	var err error
	if unpin {
		err = cc.LogUnpin(context.Background(), pin)
	} else {
		err = cc.LogPin(context.Background(), pin)
	}
	// whatever is offered for commit - locally or through the leader - is the submitted pin
	wantType := int(LogOpType(LogOpPin))
	if unpin {
		wantType = int(LogOpType(LogOpUnpin))
	}
	for _, lo := range oplog.ops {
		vrf_assert(int(lo.Type) == wantType, "C01.commit.same-operation")
		if unpin {
			vrf_assert(lo.Cid != nil && lo.Cid.Cid.Equals(submitted.Cid), "C01.commit.same-pin")
		} else {
			vrf_assert(vrfSamePin(lo.Cid, &submitted), "C01.commit.same-pin")
		}
	}
	for _, a := range vrfRedirectArgs {
		p, isPin := a.(*api.Pin)
		vrf_assert(isPin && p != nil && p.Cid.Equals(submitted.Cid), "C01.commit.same-pin")
		if isPin && p != nil && !unpin {
			vrf_assert(vrfSamePin(p, &submitted), "C01.commit.same-pin")
		}
	}
	accepted := oplog.accepted + vrfRedirectAccepted
	vrf_note_int("accepted", accepted)
	if err == nil {
		vrf_assert(accepted == 1, "C01.commit.ack-implies-committed-once")
	} else {
		vrf_assert(accepted == 0, "C01.commit.error-implies-not-committed")
	}
	vrf_assert(oplog.attempts <= retries+1, "C01.commit.bounded-attempts")
	vrf_assert(vrfRedirectCalls <= retries+1, "C01.commit.bounded-attempts")
	vrf_assert(vrf_locks_held() == 0, "C01.commit.shutdown-lock-released")
	vrf_reach("C01.commit.end")
}
