package numpin

import "time"

var vrfEntries = map[string]func(){"VrfC15Numpin": VrfC15Numpin, "VrfC15NumpinEnv": VrfC15NumpinEnv}

// VrfC15NumpinEnv: the metric TTL supplied through the environment.
func VrfC15NumpinEnv() {
	cfg := &Config{MetricTTL: time.Duration(vrf_nondet_int64("metric_ttl"))}
	vrf_assume(cfg.Validate() == nil)
	before := *cfg
	setT, valT := vrf_nondet_bool("env_set_MetricTTL"), time.Duration(vrf_nondet_int64("env_MetricTTL"))
	vrf_env(envConfigKey, "MetricTTL", setT, valT.String())
	err := cfg.ApplyEnvVars()
	wantTTL := time.Duration(vrf_ite_int(setT, int(valT), int(before.MetricTTL)))
	if err == nil {
		vrf_assert(cfg.MetricTTL == wantTTL, "C15.numpin.env-in-effect")
		vrf_assert(cfg.Validate() == nil, "C15.numpin.env-accepted-implies-valid")
	} else {
		vrf_assert(!(wantTTL > 0), "C15.numpin.env-valid-accepted")
	}
	vrf_reach("C15.numpin.env-end")
}

func VrfC15Numpin() {
	d := &Config{}
	d.Default()
	vrf_assert(d.Validate() == nil, "C15.numpin.default-valid")
	cfg := &Config{MetricTTL: time.Duration(vrf_nondet_int64("metric_ttl"))}
	valid := cfg.Validate() == nil
	raw, err := cfg.ToJSON()
	vrf_assert(err == nil, "C15.numpin.save-ok")
	back := &Config{}
	lerr := back.LoadJSON(raw)
	if valid {
		vrf_assert(lerr == nil, "C15.numpin.valid-loads")
		vrf_assert(back.MetricTTL == cfg.MetricTTL, "C15.numpin.roundtrip")
	} else {
		vrf_assert(lerr != nil, "C15.numpin.invalid-rejected")
	}
	if lerr == nil {
		vrf_assert(back.Validate() == nil, "C15.numpin.loaded-implies-valid")
	}
	vrf_reach("C15.numpin.end")
}
