package numpin

import "time"

var vrfEntries = map[string]func(){"VrfC15Numpin": VrfC15Numpin}

func VrfC15Numpin() {
	d := &Config{}
	d.Default()
	vrf_assert(d.Validate() == nil, "C15.numpin.default-valid")
	cfg := &Config{MetricTTL: time.Duration(vrf_nondet_int64("metric_ttl"))}
	valid := cfg.Validate() == nil
	raw, err := cfg.ToJSON()
	vrf_assert(err == nil, "C15.numpin.save-ok")
	back := &Config{}
	lerr := back.LoadJSON(raw)
	if valid {
		vrf_assert(lerr == nil, "C15.numpin.valid-loads")
		vrf_assert(back.MetricTTL == cfg.MetricTTL, "C15.numpin.roundtrip")
	} else {
		vrf_assert(lerr != nil, "C15.numpin.invalid-rejected")
	}
	if lerr == nil {
		vrf_assert(back.Validate() == nil, "C15.numpin.loaded-implies-valid")
	}
	vrf_reach("C15.numpin.end")
}
