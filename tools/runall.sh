#!/bin/bash
# runs every quick (or $1) check on the current tree, one after the other
tier=${1:-quick}
cd /verif
for id in $(python3 -c "import json;print(' '.join(c['property_id'] for c in json.load(open('MANIFEST.json'))['checks']))"); do
  s=$(date +%s)
  /verif/bin/gosym check $id --tier $tier > /tmp/runall-$id.log 2>&1; rc=$?
  e=$(date +%s)
  echo "$id rc=$rc $((e-s))s $(grep -c '^KNOWN-FINDING' /tmp/runall-$id.log) known $(grep -E '^(VIOLATION|INCONCLUSIVE|ENCODING)' /tmp/runall-$id.log | head -2 | cut -c1-150)"
done
