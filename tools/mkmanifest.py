#!/usr/bin/env python3
"""Regenerates /verif/MANIFEST.json from tools/manifest_table.json (claimed checks)
and the fixed property list. Properties without an entry in the table are listed
under not_applicable with the reason given in tools/not_applicable.json."""
import json, os
root = os.path.dirname(os.path.dirname(os.path.abspath(__file__)))
props = [json.loads(l) for l in open(os.path.join(root, 'properties.jsonl'))]
table = json.load(open(os.path.join(root, 'tools', 'manifest_table.json')))
na = json.load(open(os.path.join(root, 'tools', 'not_applicable.json')))
GOENV = "GOFLAGS=-mod=mod GOPROXY=off GOSUMDB=off GOTOOLCHAIN=local"
man = {
 "version": 1,
 "setup_cmd": f"cd /verif/engine && {GOENV} go build -o /verif/bin/gosym ./cmd/gosym",
 "hooks": {
  "guard": "verif",
  "enable": "none needed: harnesses, stubs and replay files are injected with go/packages and `go test -overlay` overlays; /repo carries no hook",
  "baseline_off_cmd": "cd /repo && go test -vet=off -count=1 -timeout 25m ./...",
  "source_commits": [],
  "add_only": True
 },
 "engines": [{
  "name": "gosym", "path": "/verif/engine",
  "serves_properties": sorted(table.keys()),
  "kind_free_text": "own path-forking symbolic executor over go/ssa (x/tools v0.29.0) producing SMT-LIB2 for z3 4.8.12 (incremental) with a cvc5 / z3 5.1.0 fallback portfolio; counterexamples are replayed natively through `go test -overlay`"
 }],
 "checks": [],
 "not_applicable": [],
 "notes": "Every check is bounded symbolic execution of the real functions (regenerated from /repo's working tree on each run). Exit 0 = all assertion queries unsat within the stated bounds; exit 1 = a counterexample that reproduced natively; exit 2 = inconclusive (unsupported construct, unknown, vacuity) and never reported as success. See DESIGN.md."
}
for p in props:
    pid = p['id']
    if pid in table:
        t = table[pid]
        man['checks'].append({
         "property_id": pid,
         "quick_cmd": f"/verif/bin/gosym check {pid} --tier quick",
         "thorough_cmd": f"/verif/bin/gosym check {pid} --tier thorough",
         "evidence_file": f"/verif/evidence/{pid}.json",
         "replay_cmd_template": f"/verif/bin/gosym check {pid} --replay {{path}}",
         "engine": "gosym",
         "level_claimed": {"category": "model_checking", "text": t['text'], "design_ref": t.get('design_ref', 'DESIGN.md §7 ' + pid)},
         "level_note": t['note'],
         "technique": t.get('technique', "bounded symbolic execution of the real Go functions (go/ssa -> SMT-LIB2), assertion queries decided by z3/cvc5, counterexamples replayed natively")
        })
    else:
        man['not_applicable'].append({"property_id": pid, "reason": na.get(pid, "no check built yet in this session; the design for it is in DESIGN.md §7")})
json.dump(man, open(os.path.join(root, 'MANIFEST.json'), 'w'), indent=1)
print("checks:", [c['property_id'] for c in man['checks']])
print("not_applicable:", [c['property_id'] for c in man['not_applicable']])
