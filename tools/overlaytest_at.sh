#!/bin/bash
WT=$1; shift
# Runs go test with the two dependency overlays that make the quic-go
# dependent packages (root, api/rest, cmdutils, ...) build under go1.23.
set -e
tmp=$(mktemp -d); trap 'rm -rf $tmp' EXIT
q=/root/go/pkg/mod/github.com/lucas-clemente/quic-go@v0.21.1/internal/qtls/go118.go
u=/root/go/pkg/mod/github.com/marten-seemann/qtls-go1-17@v0.1.0-beta.1.2/unsafe.go
printf '// +build go1.18\n\npackage qtls\n' > $tmp/go118.go
sed 's/func init()/func vrfDisabledInit()/' $u > $tmp/unsafe.go
printf '{"Replace":{"%s":"%s","%s":"%s"}}' $q $tmp/go118.go $u $tmp/unsafe.go > $tmp/ov.json
cd $WT && GOFLAGS=-mod=mod GOPROXY=off GOSUMDB=off GOTOOLCHAIN=local go test -vet=off -count=1 -overlay $tmp/ov.json "$@"
