#!/bin/bash
# usage: tools/seedtest.sh <seeded-dir> <property-id> [tier] [wt]
# Applies seeded/<dir>/patch.diff, runs the check, and always reverts.
# Default: the patch is applied to /repo itself (git apply / git checkout).
# With "wt" as 4th argument the patch is applied to a scratch worktree of /repo's
# HEAD instead and the check runs with --repo <worktree> (safe while other
# checks are running against /repo). The evidence file is preserved either way.
set -u
d=$1; id=$2; tier=${3:-quick}; mode=${4:-repo}
cp /verif/evidence/$id.json /tmp/evidence-backup-$id.$$.json 2>/dev/null
if [ "$mode" = wt ]; then
  wt=$(mktemp -d /tmp/vrf-seedwt-XXXXXX); rmdir $wt
  # a seed written against an earlier commit of /repo names it as "base" in its meta.json
  base=$(python3 -c "import json,sys;print(json.load(open('/verif/seeded/$d/meta.json')).get('base','HEAD'))" 2>/dev/null || echo HEAD)
  git -C /repo worktree add -q --detach $wt $base || exit 2
  trap 'git -C /repo worktree remove --force $wt; git -C /repo worktree prune' EXIT
  git -C $wt apply "/verif/seeded/$d/patch.diff" || { echo "patch does not apply"; exit 2; }
  cd /verif && /verif/bin/gosym check "$id" --tier "$tier" --repo $wt > "/tmp/seedtest-$d-$id.log" 2>&1
  rc=$?
else
  cd /repo || exit 2
  if ! git diff --quiet; then echo "repo dirty"; exit 2; fi
  git apply "/verif/seeded/$d/patch.diff" || { echo "patch does not apply"; exit 2; }
  trap 'cd /repo && git checkout -- . && git clean -fdq' EXIT
  cd /verif && /verif/bin/gosym check "$id" --tier "$tier" > "/tmp/seedtest-$d-$id.log" 2>&1
  rc=$?
fi
cp /tmp/evidence-backup-$id.$$.json /verif/evidence/$id.json 2>/dev/null; rm -f /tmp/evidence-backup-$id.$$.json
grep -E "^(VIOLATION|KNOWN-FINDING|INCONCLUSIVE|ENCODING-MISMATCH|OK)" "/tmp/seedtest-$d-$id.log" | cut -c1-200 | head -8
echo "exit=$rc"
