#!/bin/bash
# usage: tools/seedtest.sh <seeded-dir> <property-id> [tier]
# Applies seeded/<dir>/patch.diff to /repo, runs the check, and always reverts.
set -u
d=$1; id=$2; tier=${3:-quick}
cd /repo || exit 2
if ! git diff --quiet; then echo "repo dirty"; exit 2; fi
git apply "/verif/seeded/$d/patch.diff" || { echo "patch does not apply"; exit 2; }
trap 'cd /repo && git checkout -- . && git clean -fdq' EXIT
cp /verif/evidence/$id.json /tmp/evidence-backup-$id.json 2>/dev/null; cd /verif && /verif/bin/gosym check "$id" --tier "$tier" > "/tmp/seedtest-$d-$id.log" 2>&1
rc=$?
cp /tmp/evidence-backup-$id.json /verif/evidence/$id.json 2>/dev/null
grep -E "^(VIOLATION|KNOWN-FINDING|INCONCLUSIVE|ENCODING-MISMATCH|OK)" "/tmp/seedtest-$d-$id.log" | head -8
echo "exit=$rc"
