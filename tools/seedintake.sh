#!/bin/bash
# usage: tools/seedintake.sh <worktree> <seed-name> <property-id> <pkg-dir> [overlay]
# Confirms an agent-produced seeded change (demo fails with it / passes without it,
# package tests still pass), stores it under /verif/seeded/<seed-name>, then runs the check.
set -u
wt=$1; name=$2; id=$3; pkg=$4; ov=${5:-}
export GOFLAGS=-mod=mod GOPROXY=off GOSUMDB=off GOTOOLCHAIN=local
out=/verif/seeded/$name; mkdir -p $out
cd $wt || exit 2
git diff -- . ':(exclude)*_test.go' > $out/patch.diff
demo=$(git status --short | grep 'zz_seed_demo_test.go' | awk '{print $2}')
cp $demo $out/demo_test.go.txt
[ -f SEED_REPORT.md ] && cp SEED_REPORT.md $out/SEED_REPORT.md
gotest() { if [ -n "$ov" ]; then /verif/tools/overlaytest_at.sh $wt "$@"; else go test -vet=off -count=1 "$@"; fi; }
echo "== with change: demo"; gotest -run 'SeedDemo|Seed' ./$pkg/ 2>&1 | tail -3
echo "== with change: package tests (demo skipped)"; gotest -skip 'TestSeed' ./$pkg/ 2>&1 | tail -3
files=$(git diff --name-only -- . ':(exclude)*_test.go'); git diff -- $files > /tmp/intake-$name.patch; git checkout -- $files
echo "== without change: demo"; gotest -run 'SeedDemo|Seed' ./$pkg/ 2>&1 | tail -3
git apply /tmp/intake-$name.patch
echo "== check against the change (run on the agent's worktree, /repo is not touched)"
cp /verif/evidence/$id.json /tmp/evidence-backup-$id.$$.json 2>/dev/null; cd /verif && /verif/bin/gosym check $id --tier quick --repo $wt > /tmp/seedintake-$name.log 2>&1; rc=$?
cp /tmp/evidence-backup-$id.$$.json /verif/evidence/$id.json 2>/dev/null; rm -f /tmp/evidence-backup-$id.$$.json
grep -E "^(VIOLATION|KNOWN-FINDING|INCONCLUSIVE|ENCODING-MISMATCH|OK|  label)" /tmp/seedintake-$name.log | cut -c1-260 | head -8
echo "exit=$rc"
